//! C12, port-level thread leg: a `Writer` entry handle updating one blackboard entry (loan-style
//! two-step update and copy update, real `iceoryx2::port::writer` code on a
//! `local_threadsafe::Service`) against a `Reader` entry handle calling `get()` from another thread.
//! The scheduler may switch before every atomic operation and after every load / read-modify-write,
//! i.e. also between the publishing increment of an update and whatever the port does next.
//!
//! Oracle: every `get()` returns a value that was written in one piece (all words equal and one of
//! the values ever written, never the content of a spare cell that was not filled), one reader never
//! goes back behind a value it has already seen (including what it saw before the threads
//! started), and after the writer has finished a `get()` returns the last value.

use std::sync::Arc;

use iceoryx2::prelude::*;
use ixmc::{pb, Case};

type Svc = local_threadsafe::Service;
type Val = [u64; 3];

static NAME_COUNTER: std::sync::atomic::AtomicU64 = std::sync::atomic::AtomicU64::new(0);

const INITIAL: u64 = 10;

fn mk(v: u64) -> Val {
    [v; 3]
}

fn config() -> Config {
    let mut c = Config::default();
    c.global.node.cleanup_dead_nodes_on_creation = false;
    c.global.node.cleanup_dead_nodes_on_destruction = false;
    c.global.service.cleanup_dead_nodes_on_open = false;
    c
}

#[derive(Clone, Copy, Debug, PartialEq, Eq, Hash)]
enum Upd {
    /// `loan_uninit().update_with_copy(v)`
    LoanCopy,
    /// `loan_uninit()`, `value_mut().write(v)`, `assume_init_and_update()`
    LoanWrite,
    /// `EntryHandleMut::update_with_copy(v)`
    Copy,
}

/// `before`: updates done (and observed by the reader) before the threads start;
/// `during`: updates of the writer thread; `gets`: number of `get()` calls of the reader thread
fn body(before: Vec<Upd>, during: Vec<Upd>, gets: usize) -> impl Fn() + Send + Sync + 'static {
    move || {
        let cfg = config();
        let n = NAME_COUNTER.fetch_add(1, std::sync::atomic::Ordering::Relaxed);
        let name = ServiceName::new(&format!("hbbp_{}_{}", std::process::id(), n)).unwrap();
        let node = NodeBuilder::new().config(&cfg).create::<Svc>().expect("node");
        let service = node.service_builder(&name).blackboard_creator::<u64>().add::<Val>(0, mk(INITIAL)).create().expect("service");
        let writer = service.writer_builder().create().expect("writer");
        let reader = service.reader_builder().create().expect("reader");
        let mut hm = writer.entry::<Val>(&0).expect("entry handle mut");
        let h = reader.entry::<Val>(&0).expect("entry handle");

        let apply = |hm: iceoryx2::port::writer::EntryHandleMut<Svc, u64, Val>, u: Upd, v: u64| match u {
            Upd::LoanCopy => hm.loan_uninit().update_with_copy(mk(v)),
            Upd::LoanWrite => {
                let mut l = hm.loan_uninit();
                l.value_mut().write(mk(v));
                unsafe { l.assume_init_and_update() }
            }
            Upd::Copy => {
                hm.update_with_copy(mk(v));
                hm
            }
        };

        let mut next = INITIAL;
        for u in &before {
            next += 1;
            hm = apply(hm, *u, next);
        }
        let seen_before = *h.get();
        ixmc::check!(seen_before == mk(next), "sequential get() after {} update(s) returns {:?} instead of {:?}", before.len(), seen_before, mk(next));
        let floor = next;
        let last = floor + during.len() as u64;

        let during = during.clone();
        let w = ixmc::spawn(move || {
            let mut hm = hm;
            let mut v = floor;
            for u in during {
                v += 1;
                hm = apply(hm, u, v);
            }
            hm
        });
        let r = ixmc::spawn(move || {
            let mut out = Vec::new();
            for _ in 0..gets {
                out.push(*h.get());
            }
            (h, out)
        });
        let hm = w.join();
        let (h, reads) = r.join();

        let mut prev = floor;
        let mut sig = Vec::new();
        for (i, val) in reads.iter().enumerate() {
            let one_piece = val.iter().all(|x| *x == val[0]);
            ixmc::check!(one_piece, "get() #{i} returned a mixture of writes: {:?}", val);
            let v = val[0];
            ixmc::check!(
                (INITIAL..=last).contains(&v),
                "get() #{i} returned {:?}, which was never written (written: {INITIAL}..={last})",
                val
            );
            ixmc::check!(v >= prev, "get() #{i} went back to {v} although this reader had already seen {prev} (reads {:?})", reads);
            if v > floor && v < last {
                ixmc::note("reader-saw-intermediate-version");
            }
            if v == last {
                ixmc::note("reader-saw-last-version");
            }
            if v == floor {
                ixmc::note("reader-saw-old-version");
            }
            prev = v;
            sig.push(v);
        }
        ixmc::observe(ixmc::hash_of(&sig));
        let fin = *h.get();
        ixmc::check!(fin == mk(last), "get() after the writer finished returns {:?} instead of {:?}", fin, mk(last));
        drop(h);
        drop(hm);
        drop(reader);
        drop(writer);
        drop(service);
        drop(node);
    }
}

fn main() {
    set_log_level(LogLevel::Fatal);
    use Upd::*;
    let cfg = ixmc::Config { post_load: true, cell_points: true, stale_reads: false, elide: true, horizon: 20000, ..ixmc::Config::default() };
    let notes = || vec!["reader-saw-old-version", "reader-saw-last-version"];
    let progs: Vec<(&str, Vec<Upd>, Vec<Upd>, usize)> = vec![
        ("fresh/loan-copy,copy/r2", vec![], vec![LoanCopy, Copy], 2),
        ("after-1/loan-copy,loan-write/r2", vec![LoanCopy], vec![LoanCopy, LoanWrite], 2),
        ("after-2/copy,loan-copy/r2", vec![Copy, LoanWrite], vec![Copy, LoanCopy], 2),
        ("after-1/loan-write,loan-copy,copy/r3", vec![LoanWrite], vec![LoanWrite, LoanCopy, Copy], 3),
    ];
    let mut cases = Vec::new();
    for (n, before, during, gets) in progs {
        let mut req = notes();
        if during.len() > 1 {
            req.push("reader-saw-intermediate-version");
        }
        cases.push(Case {
            name: n.to_string(),
            cfg: cfg.clone(),
            quick: pb(&[(0, 0), (1, 0), (2, 0)]),
            thorough: pb(&[(0, 0), (1, 0), (2, 0), (3, 0), (4, 0)]),
            split: (2, 8),
            body: Arc::new(body(before, during, gets)),
            required_notes: req,
        });
    }
    ixmc::coord::main("h_bbport_mt", "C12", cases);
}
