//! C03 (queue part): the lock-free SPSC queues are linearizable FIFOs that conserve every element.
//!
//! Subjects (real code, built against the atomics drop-in): `IndexQueue`,
//! `SafelyOverflowingIndexQueue`, `spsc::Queue<u64, N>`.  One producer thread, one consumer
//! thread, optional hand-over of the producer / consumer role to a third thread.  Oracle: the
//! recorded call/return history (including the final drain by the main thread) is linearizable
//! against a bounded FIFO whose overflowing push hands back the oldest element.

use std::collections::VecDeque;
use std::sync::Arc;

use iceoryx2_bb_lock_free::spsc::index_queue::IndexQueue;
use iceoryx2_bb_lock_free::spsc::queue::Queue;
use iceoryx2_bb_lock_free::spsc::safely_overflowing_index_queue::SafelyOverflowingIndexQueue;
use ixmc::lin::{linearizable, sequentially_consistent, Recorder};
use ixmc::{pb, Case, Config};

#[derive(Clone, Debug, PartialEq, Eq, Hash)]
enum Op {
    /// push(value) -> accepted? (non-overflowing queues)
    Push(u64, bool),
    /// push(value) -> evicted oldest (overflowing queue)
    PushOv(u64, Option<u64>),
    Pop(Option<u64>),
}

/// `weak`: specification for the stale-read stages.  A producer that still observes an old
/// read cursor sees the queue as full, a consumer that still observes an old write cursor sees
/// it as empty; C11 allows both, so a refused push and an empty pop are legal in every state.
/// Everything about *values* (order, conservation, evicted element is the oldest) stays strict.
fn spec(cap: usize, weak: bool) -> impl Fn(&VecDeque<u64>, &Op) -> Option<VecDeque<u64>> {
    move |s, op| {
        let mut n = s.clone();
        match op {
            Op::Push(_, false) if weak => {}
            Op::Pop(None) if weak => {}
            Op::Push(v, ok) => {
                if s.len() < cap {
                    if !*ok {
                        return None;
                    }
                    n.push_back(*v);
                } else if *ok {
                    return None;
                }
            }
            Op::PushOv(v, ev) => {
                if s.len() < cap {
                    if ev.is_some() {
                        return None;
                    }
                    n.push_back(*v);
                } else {
                    if *ev != s.front().copied() {
                        return None;
                    }
                    n.pop_front();
                    n.push_back(*v);
                }
            }
            Op::Pop(r) => {
                if *r != s.front().copied() {
                    return None;
                }
                n.pop_front();
            }
        }
        Some(n)
    }
}

/// the three subjects behind one object-safe face; producer / consumer objects are acquired per
/// call sequence so that the acquire / release synchronisation of the roles is part of the run
trait Subject: Send + Sync {
    fn produce(&self, rec: &Recorder<Op>, values: &[u64]);
    fn consume(&self, rec: &Recorder<Op>, n: usize);
    /// retrying variants for the hand-over cases: spin (with yield) until the role is free
    fn produce_when_free(&self, rec: &Recorder<Op>, values: &[u64]);
    fn consume_when_free(&self, rec: &Recorder<Op>, n: usize);
    fn len(&self) -> usize;
    fn capacity(&self) -> usize;
}

macro_rules! subject_impl {
    ($ty:ty, $v:ident, $arg:expr) => {
        impl Subject for $ty {
            fn produce(&self, rec: &Recorder<Op>, values: &[u64]) {
                let mut p = match self.acquire_producer() {
                    Some(p) => p,
                    None => {
                        ixmc::fail("producer role could not be acquired although it is free".into());
                        return;
                    }
                };
                for &$v in values {
                    rec.call(|| p.push($arg), |r| mk_push($v, r));
                }
            }
            fn consume(&self, rec: &Recorder<Op>, n: usize) {
                let mut c = match self.acquire_consumer() {
                    Some(c) => c,
                    None => {
                        ixmc::fail("consumer role could not be acquired although it is free".into());
                        return;
                    }
                };
                for _ in 0..n {
                    rec.call(|| c.pop(), |r| Op::Pop(*r));
                }
            }
            fn produce_when_free(&self, rec: &Recorder<Op>, values: &[u64]) {
                let mut p = loop {
                    match self.acquire_producer() {
                        Some(p) => break p,
                        None => ixmc::yield_now(),
                    }
                };
                ixmc::note("role-handed-over");
                for &$v in values {
                    rec.call(|| p.push($arg), |r| mk_push($v, r));
                }
            }
            fn consume_when_free(&self, rec: &Recorder<Op>, n: usize) {
                let mut c = loop {
                    match self.acquire_consumer() {
                        Some(c) => break c,
                        None => ixmc::yield_now(),
                    }
                };
                ixmc::note("role-handed-over");
                for _ in 0..n {
                    rec.call(|| c.pop(), |r| Op::Pop(*r));
                }
            }
            fn len(&self) -> usize {
                <$ty>::len(self)
            }
            fn capacity(&self) -> usize {
                <$ty>::capacity(self)
            }
        }
    };
}

trait MkPush {
    fn mk(&self, v: u64) -> Op;
}
impl MkPush for bool {
    fn mk(&self, v: u64) -> Op {
        Op::Push(v, *self)
    }
}
impl MkPush for Option<u64> {
    fn mk(&self, v: u64) -> Op {
        Op::PushOv(v, *self)
    }
}
fn mk_push<R: MkPush>(v: u64, r: &R) -> Op {
    r.mk(v)
}

subject_impl!(IndexQueue, v, v);
subject_impl!(SafelyOverflowingIndexQueue, v, v);
subject_impl!(Queue<u64, 1>, v, &v);
subject_impl!(Queue<u64, 2>, v, &v);
subject_impl!(Queue<u64, 3>, v, &v);

#[derive(Clone, Copy, PartialEq)]
enum Kind {
    Index,
    Overflow,
    Generic,
}

fn make(kind: Kind, cap: usize) -> Arc<dyn Subject> {
    match (kind, cap) {
        (Kind::Index, c) => Arc::new(IndexQueue::new(c)),
        (Kind::Overflow, c) => Arc::new(SafelyOverflowingIndexQueue::new(c)),
        (Kind::Generic, 1) => Arc::new(poisoned::<1>()),
        (Kind::Generic, 2) => Arc::new(poisoned::<2>()),
        (Kind::Generic, _) => Arc::new(poisoned::<3>()),
    }
}

/// Never a pushed value. The slots of the generic queue are `MaybeUninit`: what a premature read
/// returns would otherwise depend on what earlier executions left in the reused heap memory, and
/// the same schedule would not fail the same way in the replay process.
const POISON: u64 = 0xDEAD_BEEF;

fn poisoned<const N: usize>() -> Queue<u64, N> {
    let q = Queue::<u64, N>::new();
    {
        let mut p = q.acquire_producer().expect("fresh queue");
        let mut c = q.acquire_consumer().expect("fresh queue");
        for _ in 0..N {
            p.push(&POISON);
            c.pop();
        }
    }
    q
}

#[derive(Clone, Copy, PartialEq)]
enum Handover {
    None,
    Producer,
    Consumer,
}

fn body(kind: Kind, cap: usize, pushes: usize, pops: usize, prefill: usize, handover: Handover) -> impl Fn() + Send + Sync + 'static {
    move || {
        let q = make(kind, cap);
        let rec: Arc<Recorder<Op>> = Arc::new(Recorder::new());
        // values 100.. so that an index that was never pushed (0, stale slot content) is visible
        let mut next = 100u64;
        if prefill > 0 {
            let vals: Vec<u64> = (0..prefill as u64).map(|i| next + i).collect();
            next += prefill as u64;
            q.produce(&rec, &vals);
        }
        let vals: Vec<u64> = (0..pushes as u64).map(|i| next + i).collect();
        let (first, second) = match handover {
            Handover::Producer => {
                let (a, b) = vals.split_at(pushes / 2);
                (a.to_vec(), b.to_vec())
            }
            _ => (vals.clone(), vec![]),
        };
        let (pops1, pops2) = if handover == Handover::Consumer { (pops / 2, pops - pops / 2) } else { (pops, 0) };

        let mut hs = Vec::new();
        // with a hand-over both holders of a role wait for it to be free (either may be first)
        {
            let (q, rec) = (q.clone(), rec.clone());
            hs.push(ixmc::spawn(move || {
                if handover == Handover::Producer {
                    q.produce_when_free(&rec, &first)
                } else {
                    q.produce(&rec, &first)
                }
            }));
        }
        {
            let (q, rec) = (q.clone(), rec.clone());
            hs.push(ixmc::spawn(move || {
                if handover == Handover::Consumer {
                    q.consume_when_free(&rec, pops1)
                } else {
                    q.consume(&rec, pops1)
                }
            }));
        }
        if handover == Handover::Producer {
            let (q, rec) = (q.clone(), rec.clone());
            hs.push(ixmc::spawn(move || q.produce_when_free(&rec, &second)));
        }
        if handover == Handover::Consumer {
            let (q, rec) = (q.clone(), rec.clone());
            hs.push(ixmc::spawn(move || q.consume_when_free(&rec, pops2)));
        }
        for h in hs {
            h.join();
        }
        // quiescence: capacity bound, then drain
        let len = q.len();
        ixmc::check!(len <= q.capacity(), "len {} exceeds capacity {} at quiescence", len, q.capacity());
        q.consume(&rec, len + 1);
        let evs = rec.take();
        let mut sig: Vec<(usize, Op)> = evs.iter().map(|e| (e.thread, e.op.clone())).collect();
        sig.sort_by_key(|(t, _)| *t);
        ixmc::observe(ixmc::hash_of(&sig));
        if evs.iter().any(|e| matches!(e.op, Op::PushOv(_, Some(_)))) {
            ixmc::note("overflow-eviction");
        }
        if evs.iter().any(|e| matches!(e.op, Op::Push(_, false))) {
            ixmc::note("push-on-full");
        }
        // direct conservation check (gives the clearer message), then linearizability
        let mut seen: Vec<u64> = Vec::new();
        for e in &evs {
            match &e.op {
                Op::Pop(Some(v)) | Op::PushOv(_, Some(v)) => seen.push(*v),
                _ => {}
            }
        }
        let mut pushed: Vec<u64> = evs
            .iter()
            .filter_map(|e| match &e.op {
                Op::Push(v, true) | Op::PushOv(v, _) => Some(*v),
                _ => None,
            })
            .collect();
        pushed.sort();
        let mut got = seen.clone();
        got.sort();
        ixmc::check!(
            got == pushed,
            "conservation broken: accepted pushes {:?} but popped+evicted+drained {:?} (history {:?})",
            pushed,
            seen,
            evs.iter().map(|e| &e.op).collect::<Vec<_>>()
        );
        // SC interleavings: linearizability (real-time order).  Stale-read stages: C11 makes no
        // real-time promise between unrelated threads, so the oracle is sequential consistency
        // plus the happens-before edges of spawn (prefill by the main thread) and join (drain).
        let main_before = evs.iter().filter(|e| e.thread != 0).map(|e| e.call).min().unwrap_or(u64::MAX);
        let ok = if ixmc::stale_enabled() {
            sequentially_consistent(VecDeque::new(), &evs, &spec(cap, true), &|a, b| {
                (a.thread == 0 && a.call < main_before && b.thread != 0) || (b.thread == 0 && b.call > main_before && a.thread != 0)
            })
        } else {
            linearizable(VecDeque::new(), &evs, &spec(cap, false))
        };
        ixmc::check!(
            ok,
            "history is not linearizable against a bounded FIFO of capacity {}: {:?}",
            cap,
            evs.iter().map(|e| (e.thread, e.call, e.ret, &e.op)).collect::<Vec<_>>()
        );
    }
}

fn main() {
    let mut cases = Vec::new();
    let cfg = Config { post_load: true, cell_points: true, stale_reads: true, horizon: 3000, ..Config::default() };
    for (kname, kind) in [("index", Kind::Index), ("overflow", Kind::Overflow), ("generic", Kind::Generic)] {
        for cap in 1..=3usize {
            for (pushes, pops, prefill) in [(cap + 1, cap + 1, 0usize), (2, 2, cap.min(2)), (cap + 2, 2, 0)] {
                let heavy = pushes + pops + prefill >= 7;
                let mut req = vec![];
                if kind == Kind::Overflow && pushes + prefill > cap {
                    req.push("overflow-eviction");
                }
                if kind != Kind::Overflow && pushes + prefill > cap {
                    req.push("push-on-full");
                }
                cases.push(Case {
                    name: format!("{kname}/cap{cap}/push{pushes}/pop{pops}/prefill{prefill}"),
                    cfg: cfg.clone(),
                    quick: pb(&[(0, 0), (1, 0), (2, 0), (1, 1)]),
                    thorough: if heavy { pb(&[(0, 0), (1, 0), (2, 0), (3, 0), (2, 1)]) } else { pb(&[(0, 0), (1, 0), (2, 0), (3, 0), (4, 0), (3, 1)]) },
                    split: (1, 4),
                    body: Arc::new(body(kind, cap, pushes, pops, prefill, Handover::None)),
                    required_notes: req,
                });
            }
            for (hname, h) in [("producer", Handover::Producer), ("consumer", Handover::Consumer)] {
                cases.push(Case {
                    name: format!("{kname}/cap{cap}/handover-{hname}"),
                    cfg: cfg.clone(),
                    quick: pb(&[(0, 0), (1, 0), (1, 1)]),
                    thorough: pb(&[(0, 0), (1, 0), (2, 0), (2, 1)]),
                    split: (1, 4),
                    body: Arc::new(body(kind, cap, 4, 4, 0, h)),
                    required_notes: vec!["role-handed-over"],
                });
            }
        }
    }
    ixmc::coord::main("h_spsc", "C03", cases);
}
