//! C13 (connection lifecycle) and the connection part of C03, on the real
//! `zero_copy_connection::process_local::Connection` (= `common::details::Connection` over the
//! process-local dynamic storage, whose global pthread mutex is under the scheduler's control).
//!
//! Lifecycle cases: 2–3 threads attach / detach / force-remove the sender and receiver role of
//! one connection name.  Data cases: a sender thread (`try_send`, `reclaim`) against a receiver
//! thread (`receive`, `release`).

extern crate iceoryx2_bb_loggers;

use std::sync::{Arc, Mutex};

use iceoryx2_bb_container::semantic_string::SemanticString;
use iceoryx2_bb_system_types::file_name::FileName;
use iceoryx2_cal::named_concept::{NamedConceptBuilder, NamedConceptMgmt};
use iceoryx2_cal::shm_allocator::PointerOffset;
use iceoryx2_cal::zero_copy_connection::process_local::Connection;
use iceoryx2_cal::zero_copy_connection::*;
use ixmc::{pb, Case, Config};

type Sut = Connection;
type Sender = <Sut as ZeroCopyConnection>::Sender;
type Receiver = <Sut as ZeroCopyConnection>::Receiver;

static NAME_COUNTER: std::sync::atomic::AtomicU64 = std::sync::atomic::AtomicU64::new(0);

fn fresh_name() -> FileName {
    let n = NAME_COUNTER.fetch_add(1, std::sync::atomic::Ordering::Relaxed);
    FileName::new(format!("hconn_{}_{}", std::process::id(), n).as_bytes()).unwrap()
}

#[derive(Clone, Copy, Debug, PartialEq, Eq, Hash)]
struct Params {
    buffer: usize,
    borrow: usize,
    overflow: bool,
}

const P0: Params = Params { buffer: 2, borrow: 1, overflow: true };
const P_OTHER_BUFFER: Params = Params { buffer: 3, borrow: 1, overflow: true };

fn builder(name: &FileName, p: Params) -> <Sut as ZeroCopyConnection>::Builder {
    <Sut as ZeroCopyConnection>::Builder::new(name)
        .buffer_size(p.buffer)
        .receiver_max_borrowed_chunks_per_channel(p.borrow)
        .enable_safe_overflow(p.overflow)
        .number_of_chunks_per_segment(8)
}

#[derive(Clone, Debug, PartialEq, Eq, Hash)]
enum Step {
    CreateSender(Params),
    CreateReceiver(Params),
    /// orderly drop of the port this thread holds
    Drop,
    /// the port object is leaked ("its process died") and the role is removed by force
    LeakAndForceRemove,
    /// use the held port once: must work
    Use,
}

#[derive(Clone, Debug)]
struct Ev {
    thread: usize,
    step: Step,
    call: u64,
    ret: u64,
    result: String,
    ok: bool,
}

enum Held {
    None,
    S(Sender),
    R(Receiver),
}

fn allowed_creation_error(e: ZeroCopyCreationError) -> bool {
    // documented outcomes of an attach that races with another attach or with the teardown
    matches!(
        e,
        ZeroCopyCreationError::IsBeingCleanedUp
            | ZeroCopyCreationError::AnotherInstanceIsAlreadyConnected
            | ZeroCopyCreationError::InitializationNotYetFinalized
            | ZeroCopyCreationError::IncompatibleBufferSize
            | ZeroCopyCreationError::IncompatibleMaxBorrowedSamplesPerChannelSetting
            | ZeroCopyCreationError::IncompatibleOverflowSetting
    )
}

fn run_thread(name: FileName, prog: Vec<Step>, log: Arc<Mutex<Vec<Ev>>>) {
    let me = ixmc::current_thread();
    let mut held = Held::None;
    for step in prog {
        let call = ixmc::stamp();
        let (result, ok) = match &step {
            Step::CreateSender(p) => match builder(&name, *p).create_sender() {
                Ok(s) => {
                    held = Held::S(s);
                    ("Ok".to_string(), true)
                }
                Err(e) => {
                    ixmc::check!(allowed_creation_error(e), "undocumented attach error: create_sender returned {:?}", e);
                    (format!("{e:?}"), false)
                }
            },
            Step::CreateReceiver(p) => match builder(&name, *p).create_receiver() {
                Ok(r) => {
                    held = Held::R(r);
                    ("Ok".to_string(), true)
                }
                Err(e) => {
                    ixmc::check!(allowed_creation_error(e), "undocumented attach error: create_receiver returned {:?}", e);
                    (format!("{e:?}"), false)
                }
            },
            Step::Drop => {
                let had = !matches!(held, Held::None);
                held = Held::None;
                ("dropped".to_string(), had)
            }
            Step::LeakAndForceRemove => match std::mem::replace(&mut held, Held::None) {
                Held::S(s) => {
                    std::mem::forget(s);
                    let r = unsafe { Sut::remove_sender(&name, &Default::default()) };
                    (format!("{r:?}"), r.is_ok())
                }
                Held::R(r) => {
                    std::mem::forget(r);
                    let r = unsafe { Sut::remove_receiver(&name, &Default::default()) };
                    (format!("{r:?}"), r.is_ok())
                }
                Held::None => ("nothing held".to_string(), false),
            },
            Step::Use => match &held {
                Held::S(s) => {
                    // the port must be on a live resource
                    let ex = Sut::does_exist_cfg(&name, &Default::default());
                    ixmc::check!(ex == Ok(true), "attached on destroyed resource: a live sender exists but does_exist returns {:?}", ex);
                    let r = s.reclaim(ChannelId::new(0));
                    ixmc::check!(r.is_ok(), "attached on destroyed resource: reclaim on a live sender failed with {:?}", r);
                    ("used".to_string(), true)
                }
                Held::R(r) => {
                    let ex = Sut::does_exist_cfg(&name, &Default::default());
                    ixmc::check!(ex == Ok(true), "attached on destroyed resource: a live receiver exists but does_exist returns {:?}", ex);
                    let x = r.receive(ChannelId::new(0));
                    ixmc::check!(x.is_ok(), "attached on destroyed resource: receive on a live receiver failed with {:?}", x);
                    ("used".to_string(), true)
                }
                Held::None => ("nothing held".to_string(), false),
            },
        };
        let ret = ixmc::stamp();
        log.lock().unwrap().push(Ev { thread: me, step, call, ret, result, ok });
    }
    drop(held);
}

/// intervals during which a role was held: from the return of a successful create to the call of
/// the drop / forced removal of the same thread (a conservative sub-interval of the real one)
fn holding_intervals(evs: &[Ev], sender: bool) -> Vec<(usize, u64, u64)> {
    let mut out = Vec::new();
    let mut threads: Vec<usize> = evs.iter().map(|e| e.thread).collect();
    threads.sort();
    threads.dedup();
    for t in threads {
        let mut start: Option<u64> = None;
        for e in evs.iter().filter(|e| e.thread == t) {
            match &e.step {
                Step::CreateSender(_) if sender && e.ok => start = Some(e.ret),
                Step::CreateReceiver(_) if !sender && e.ok => start = Some(e.ret),
                Step::Drop | Step::LeakAndForceRemove => {
                    if let Some(s) = start.take() {
                        out.push((t, s, e.call));
                    }
                }
                _ => {}
            }
        }
        if let Some(s) = start {
            out.push((t, s, u64::MAX));
        }
    }
    out
}

fn lifecycle_body(progs: Vec<Vec<Step>>) -> impl Fn() + Send + Sync + 'static {
    move || {
        let name = fresh_name();
        let log: Arc<Mutex<Vec<Ev>>> = Arc::new(Mutex::new(Vec::new()));
        let mut hs = Vec::new();
        for p in progs.iter().cloned() {
            let (name, log) = (name, log.clone());
            hs.push(ixmc::spawn(move || run_thread(name, p, log)));
        }
        for h in hs {
            h.join();
        }
        let evs = log.lock().unwrap().clone();
        // one sender, one receiver at any time
        for sender in [true, false] {
            let iv = holding_intervals(&evs, sender);
            for a in 0..iv.len() {
                for b in a + 1..iv.len() {
                    let (ta, sa, ea) = iv[a];
                    let (tb, sb, eb) = iv[b];
                    if sa < eb && sb < ea {
                        ixmc::fail(format!(
                            "two {} attached at the same time: threads T{ta} and T{tb} both held the role (history {:?})",
                            if sender { "senders" } else { "receivers" },
                            evs.iter().map(|e| (e.thread, &e.step, &e.result)).collect::<Vec<_>>()
                        ));
                    }
                }
            }
        }
        // mismatching parameters are refused with the matching error (when the other side was attached
        // for the whole call) – the attached side is checked by its `Use` steps
        // every thread has detached: the resource is gone and the name can be used afresh
        let ex = Sut::does_exist_cfg(&name, &Default::default());
        ixmc::check!(
            ex == Ok(false),
            "resource remains after the last detach: does_exist returns {:?} (history {:?})",
            ex,
            evs.iter().map(|e| (e.thread, &e.step, &e.result)).collect::<Vec<_>>()
        );
        if evs.iter().any(|e| e.result == "IsBeingCleanedUp") {
            ixmc::note("attach-raced-with-teardown");
        }
        if evs.iter().any(|e| e.result == "AnotherInstanceIsAlreadyConnected") {
            ixmc::note("second-attach-refused");
        }
        if evs.iter().any(|e| e.result.starts_with("Incompatible")) {
            ixmc::note("mismatch-refused");
        }
        let s = builder(&name, P_OTHER_BUFFER).create_sender();
        ixmc::check!(s.is_ok(), "name not reusable after the last detach: create_sender with other parameters returned {:?}", s.as_ref().err());
        let r = builder(&name, P_OTHER_BUFFER).create_receiver();
        ixmc::check!(r.is_ok(), "name not reusable after the last detach: create_receiver returned {:?}", r.as_ref().err());
        drop(s);
        drop(r);
        let mut sig: Vec<(usize, Step, String)> = evs.iter().map(|e| (e.thread, e.step.clone(), e.result.clone())).collect();
        sig.sort_by_key(|x| x.0);
        ixmc::observe(ixmc::hash_of(&sig));
    }
}

// ------------------------------------------------------------------------------------------
// data path (C03, connection part)

fn data_body(p: Params, prefill: usize, sends: usize, receives: usize) -> impl Fn() + Send + Sync + 'static {
    move || {
        let name = fresh_name();
        let sender = builder(&name, p).create_sender().expect("sender");
        let receiver = builder(&name, p).create_receiver().expect("receiver");
        let ch = ChannelId::new(0);
        // (offsets sent, offsets handed back by try_send as overflow, reclaimed)
        let s_log: Arc<Mutex<(Vec<u64>, Vec<u64>, Vec<u64>)>> = Arc::new(Mutex::new((vec![], vec![], vec![])));
        let r_log: Arc<Mutex<Vec<u64>>> = Arc::new(Mutex::new(vec![]));
        // samples that are already in flight when the two threads start
        for i in 0..prefill {
            let off = PointerOffset::new((i + 1) * 8);
            match sender.try_send(off, 8, ch) {
                Ok(ev) => {
                    let mut l = s_log.lock().unwrap();
                    l.0.push(off.offset() as u64);
                    if let Some(e) = ev {
                        l.1.push(e.offset() as u64);
                    }
                }
                Err(e) => ixmc::fail(format!("try_send failed: prefill try_send returned {e:?}")),
            }
        }
        let hs = {
            let s_log = s_log.clone();
            ixmc::spawn(move || {
                for i in prefill..prefill + sends {
                    let off = PointerOffset::new((i + 1) * 8);
                    match sender.try_send(off, 8, ch) {
                        Ok(ev) => {
                            let mut l = s_log.lock().unwrap();
                            l.0.push(off.offset() as u64);
                            if let Some(e) = ev {
                                l.1.push(e.offset() as u64);
                            }
                        }
                        Err(ZeroCopySendError::ReceiveBufferFull) => {}
                        Err(e) => ixmc::fail(format!("try_send failed: try_send returned {e:?}")),
                    }
                    match sender.reclaim(ch) {
                        Ok(Some(o)) => s_log.lock().unwrap().2.push(o.offset() as u64),
                        Ok(None) => {}
                        Err(e) => ixmc::fail(format!("reclaim failed: {e:?}")),
                    }
                }
                sender
            })
        };
        let hr = {
            let r_log = r_log.clone();
            ixmc::spawn(move || {
                for _ in 0..receives {
                    match receiver.receive(ch) {
                        Ok(Some(o)) => {
                            r_log.lock().unwrap().push(o.offset() as u64);
                            // a release by the receiver never fails for lack of space
                            if let Err(e) = receiver.release(o, ch) {
                                ixmc::fail(format!("release failed: release returned {e:?}"));
                            }
                        }
                        Ok(None) => {}
                        Err(e) => ixmc::fail(format!("receive failed: {e:?}")),
                    }
                }
                receiver
            })
        };
        let sender = hs.join();
        let receiver = hr.join();
        // quiescence: drain both directions
        let mut received = r_log.lock().unwrap().clone();
        while let Ok(Some(o)) = receiver.receive(ch) {
            received.push(o.offset() as u64);
            if let Err(e) = receiver.release(o, ch) {
                ixmc::fail(format!("release failed: release returned {e:?} during the final drain"));
            }
        }
        let (sent, evicted, mut reclaimed) = s_log.lock().unwrap().clone();
        while let Ok(Some(o)) = sender.reclaim(ch) {
            reclaimed.push(o.offset() as u64);
        }
        // every accepted offset is either received exactly once or handed back as evicted; received in order
        let mut seen = received.clone();
        seen.extend(evicted.iter());
        seen.sort();
        let mut want = sent.clone();
        want.sort();
        ixmc::check!(seen == want, "offset lost or duplicated: sent {:?}, received {:?}, evicted {:?}", sent, received, evicted);
        let mut sorted = received.clone();
        sorted.sort();
        ixmc::check!(sorted == received, "offsets received out of order: {:?}", received);
        // every received offset came back through the completion queue exactly once
        let mut rc = reclaimed.clone();
        rc.sort();
        let mut rv = received.clone();
        rv.sort();
        ixmc::check!(rc == rv, "completion queue lost or duplicated an offset: received {:?}, reclaimed {:?}", received, reclaimed);
        if !evicted.is_empty() {
            ixmc::note("overflow-eviction");
        }
        if sent.len() < sends + prefill {
            ixmc::note("receive-buffer-full");
        }
        if std::env::var("H_CONN_DEBUG").is_ok() {
            eprintln!("OUT sent={sent:?} received={received:?} evicted={evicted:?} reclaimed={reclaimed:?}");
        }
        ixmc::observe(ixmc::hash_of(&(sent, received, evicted, reclaimed)));
    }
}

/// Back-pressure ping-pong without overflow: like a publisher, the sender first reclaims
/// everything that came back and then tries to send, retrying while the buffer is full; the
/// receiver receives and releases at once.  Whatever the receiver manages to release while the
/// sender is stalled anywhere inside its send must fit into the completion queue.
fn pingpong_body(p: Params, count: usize) -> impl Fn() + Send + Sync + 'static {
    move || {
        let name = fresh_name();
        let sender = builder(&name, p).create_sender().expect("sender");
        let receiver = builder(&name, p).create_receiver().expect("receiver");
        let ch = ChannelId::new(0);
        let reclaimed_early: Arc<Mutex<Vec<u64>>> = Arc::new(Mutex::new(Vec::new()));
        let re2 = reclaimed_early.clone();
        let hs = ixmc::spawn(move || {
            let reclaimed_early = re2;
            for i in 0..count {
                let off = PointerOffset::new((i + 1) * 8);
                loop {
                    while let Ok(Some(o)) = sender.reclaim(ch) {
                        reclaimed_early.lock().unwrap().push(o.offset() as u64);
                    }
                    match sender.try_send(off, 8, ch) {
                        Ok(None) => break,
                        Ok(Some(e)) => {
                            ixmc::fail(format!("offset evicted without overflow: try_send handed back {:?}", e.offset()));
                            break;
                        }
                        Err(ZeroCopySendError::ReceiveBufferFull) => {
                            ixmc::note("sender-waited-for-space");
                            ixmc::yield_now();
                        }
                        Err(e) => {
                            ixmc::fail(format!("try_send failed: try_send returned {e:?}"));
                            break;
                        }
                    }
                }
            }
            sender
        });
        let hr = ixmc::spawn(move || {
            let mut got: Vec<u64> = Vec::new();
            let mut idle = 0;
            while got.len() < count && idle < 50 {
                match receiver.receive(ch) {
                    Ok(Some(o)) => {
                        got.push(o.offset() as u64);
                        if let Err(e) = receiver.release(o, ch) {
                            ixmc::fail(format!("release failed: release of offset {} returned {e:?} (received so far {got:?})", o.offset()));
                        }
                    }
                    Ok(None) => {
                        idle += 1;
                        ixmc::yield_now();
                    }
                    Err(e) => {
                        ixmc::fail(format!("receive failed: {e:?}"));
                        break;
                    }
                }
            }
            (receiver, got)
        });
        let sender = hs.join();
        let (receiver, got) = hr.join();
        let want: Vec<u64> = (0..count).map(|i| ((i + 1) * 8) as u64).collect();
        ixmc::check!(got == want, "offset lost or reordered: sent {:?}, received {:?}", want, got);
        let mut reclaimed: Vec<u64> = reclaimed_early.lock().unwrap().clone();
        while let Ok(Some(o)) = sender.reclaim(ch) {
            reclaimed.push(o.offset() as u64);
        }
        reclaimed.sort();
        ixmc::check!(reclaimed == want, "completion queue lost or duplicated an offset: released {:?}, reclaimed {:?}", got, reclaimed);
        ixmc::observe(ixmc::hash_of(&(got, reclaimed)));
        drop(receiver);
    }
}

fn main() {
    iceoryx2_log::set_log_level(iceoryx2_log::LogLevel::Fatal);
    use Step::*;
    let mut cases = Vec::new();
    let cfg = Config { post_load: false, cell_points: true, stale_reads: false, horizon: 8000, ..Config::default() };
    let lifecycle: Vec<(&str, Vec<Vec<Step>>, Vec<&'static str>)> = vec![
        ("sender+receiver", vec![vec![CreateSender(P0), Use, Drop], vec![CreateReceiver(P0), Use, Drop]], vec![]),
        ("two-senders", vec![vec![CreateSender(P0), Use, Drop], vec![CreateSender(P0), Use, Drop]], vec!["second-attach-refused"]),
        ("two-receivers", vec![vec![CreateReceiver(P0), Use, Drop], vec![CreateReceiver(P0), Use, Drop]], vec!["second-attach-refused"]),
        (
            "teardown-vs-attach",
            vec![vec![CreateSender(P0), Drop], vec![CreateReceiver(P0), Use, Drop], vec![CreateSender(P0), Use, Drop]],
            vec![],
        ),
        ("mismatch", vec![vec![CreateSender(P0), Use, Use, Drop], vec![CreateReceiver(P_OTHER_BUFFER), Use, Drop]], vec!["mismatch-refused"]),
        (
            "forced-remove",
            vec![vec![CreateSender(P0), LeakAndForceRemove], vec![CreateReceiver(P0), Use, Drop]],
            vec![],
        ),
        (
            "forced-remove-both",
            vec![vec![CreateSender(P0), LeakAndForceRemove, CreateSender(P0), Drop], vec![CreateReceiver(P0), LeakAndForceRemove]],
            vec![],
        ),
    ];
    for (n, progs, req) in lifecycle {
        let three = progs.len() > 2;
        cases.push(Case {
            name: format!("lifecycle/{n}"),
            cfg: Config { elide: true, ..cfg.clone() },
            quick: if three { pb(&[(0, 0), (1, 0)]) } else { pb(&[(0, 0), (1, 0), (2, 0)]) },
            thorough: if three { pb(&[(0, 0), (1, 0), (2, 0)]) } else { pb(&[(0, 0), (1, 0), (2, 0), (3, 0)]) },
            split: (2, 8),
            body: Arc::new(lifecycle_body(progs)),
            required_notes: req,
        });
    }
    for (buffer, borrow, overflow, prefill) in [(1usize, 1usize, true, 0usize), (2, 1, true, 0), (1, 1, false, 0), (2, 2, false, 0), (1, 1, true, 1), (1, 2, true, 1), (2, 1, true, 2)] {
        let p = Params { buffer, borrow, overflow };
        cases.push(Case {
            name: format!("data/buffer{buffer}/borrow{borrow}/overflow{overflow}/prefill{prefill}"),
            cfg: Config { post_load: true, stale_reads: true, ..cfg.clone() },
            quick: pb(&[(0, 0), (1, 0), (2, 0)]),
            thorough: pb(&[(0, 0), (1, 0), (2, 0), (3, 0), (2, 1)]),
            split: (2, 8),
            body: Arc::new(data_body(p, prefill, 3 - prefill.min(1), 3)),
            required_notes: if overflow { vec!["overflow-eviction"] } else { vec!["receive-buffer-full"] },
        });
    }
    for (buffer, borrow, count) in [(1usize, 1usize, 3usize), (1, 1, 4), (1, 2, 4)] {
        let p = Params { buffer, borrow, overflow: false };
        cases.push(Case {
            name: format!("data/pingpong/buffer{buffer}/borrow{borrow}/count{count}"),
            cfg: Config { post_load: true, stale_reads: false, ..cfg.clone() },
            quick: pb(&[(0, 0), (1, 0)]),
            thorough: pb(&[(0, 0), (1, 0), (2, 0)]),
            split: (2, 8),
            body: Arc::new(pingpong_body(p, count)),
            required_notes: vec!["sender-waited-for-space"],
        });
    }
    ixmc::coord::main("h_conn", "C13", cases);
}
