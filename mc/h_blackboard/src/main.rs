//! C12 (data-structure level): a reader of a blackboard entry (`spmc::UnrestrictedAtomic<T>`)
//! always obtains a value that was written in one piece, successive reads of one reader never go
//! back to an older value, and at most one producer (writer port / write handle) exists at a time
//! - claiming a second one fails without disturbing the first.
//!
//! Subject (real code, built against the atomics drop-in): `UnrestrictedAtomic<T>` for T of 1, 3,
//! 16, 24 and 72 bytes.  All bytes / words of version v of a value equal v.  One writer thread
//! claims the producer and performs k = 2..4 updates alternating `store(value)` and the
//! loan-style API (`__internal_get_ptr_to_write_cell`, user writes the cell, then
//! `__internal_update_write_cell`).  The user-side write is done in two halves with a scheduling
//! point in between, otherwise a half-written cell could never be observed (a memcpy is one
//! step for the scheduler).  1..2 reader threads `load()` 2..3 times each.
//!
//! Oracle per execution:
//!  (1) every loaded value is uniform (no mixture of two writes) and its version is the initial
//!      one or one whose update had been called before the load returned;
//!  (2) the versions seen by one reader never decrease;
//!  (3) a load called after update v returned yields a version >= v (dropped in stale-read
//!      stages for the concurrent loads: C11 gives no real-time promise between unrelated
//!      threads; kept for the load after `join`);
//!  (4) after the writer thread is joined a load yields the last version and the producer can
//!      be claimed again.
//! Producer cases: two threads claim the producer, store and drop it (retrying with yield when
//! refused): the two holding periods never overlap, a refusal always overlaps a holding period of
//! the other thread, the final value is the one of the later holder; and a claim while the main
//! thread holds the producer (and keeps storing) is always refused and disturbs nothing.

extern crate iceoryx2_bb_loggers;

use std::sync::{Arc, Mutex};

use iceoryx2_bb_lock_free::spmc::unrestricted_atomic::UnrestrictedAtomic;
use ixmc::{pb, Case, Config};

/// execution-relative logical time: stamps in oracle messages must not depend on how many
/// executions the worker process ran before (the same schedule must give the same message)
static BASE: std::sync::atomic::AtomicU64 = std::sync::atomic::AtomicU64::new(0);

fn begin_execution() {
    BASE.store(ixmc::stamp(), std::sync::atomic::Ordering::SeqCst);
}

fn now() -> u64 {
    ixmc::stamp() - BASE.load(std::sync::atomic::Ordering::SeqCst)
}

trait Val: Copy + Send + Sync + 'static {
    fn mk(v: u64) -> Self;
    fn units(&self) -> Vec<u64>;
    /// number of bytes of the first half of a user-side two-step write (unit aligned)
    fn split() -> usize;
}

impl<const N: usize> Val for [u64; N] {
    fn mk(v: u64) -> Self {
        [v; N]
    }
    fn units(&self) -> Vec<u64> {
        self.to_vec()
    }
    fn split() -> usize {
        (N / 2) * 8
    }
}

impl<const N: usize> Val for [u8; N] {
    fn mk(v: u64) -> Self {
        [v as u8; N]
    }
    fn units(&self) -> Vec<u64> {
        self.iter().map(|b| *b as u64).collect()
    }
    fn split() -> usize {
        N / 2
    }
}

const INITIAL: u64 = 1;

/// `Some(v)` if all units equal v
fn version(units: &[u64]) -> Option<u64> {
    let v = units[0];
    if units.iter().all(|u| *u == v) {
        Some(v)
    } else {
        None
    }
}

/// deterministic rendering: unknown unit values (uninitialised memory) are shown as '?'
fn render(units: &[u64], last: u64) -> String {
    let parts: Vec<String> = units.iter().map(|u| if (INITIAL..=last).contains(u) { u.to_string() } else { "?".into() }).collect();
    format!("[{}]", parts.join(","))
}

#[derive(Clone, Debug)]
struct Upd {
    v: u64,
    call: u64,
    ret: u64,
    /// two-step updates: stamps after the first / second half of the user-side write
    halves: Option<(u64, u64)>,
}

#[derive(Clone, Debug)]
struct Read {
    call: u64,
    ret: u64,
    units: Vec<u64>,
}

fn two_step_write<T: Val>(p: &iceoryx2_bb_lock_free::spmc::unrestricted_atomic::Producer<'_, T>, v: u64) -> (u64, u64) {
    let val = T::mk(v);
    let size = core::mem::size_of::<T>();
    let h = T::split();
    unsafe {
        let dst = p.__internal_get_ptr_to_write_cell() as *mut u8;
        let src = &val as *const T as *const u8;
        core::ptr::copy_nonoverlapping(src, dst, h);
        let t_half = now();
        ixmc::step();
        core::ptr::copy_nonoverlapping(src.add(h), dst.add(h), size - h);
        let t_full = now();
        p.__internal_update_write_cell();
        (t_half, t_full)
    }
}

fn do_loads<T: Val>(a: &UnrestrictedAtomic<T>, n: usize) -> Vec<Read> {
    let mut out = Vec::new();
    for _ in 0..n {
        let call = now();
        let val = a.load();
        let ret = now();
        out.push(Read { call, ret, units: val.units() });
    }
    out
}

/// checks (1)..(3) for the loads of one thread
fn check_reads(who: &str, reads: &[Read], upds: &[Upd], last: u64, real_time: bool) -> Vec<Option<u64>> {
    let mut seen: Vec<Option<u64>> = Vec::new();
    let mut newest = 0u64;
    for (i, r) in reads.iter().enumerate() {
        let ver = version(&r.units);
        seen.push(ver);
        let v = match ver {
            None => {
                ixmc::fail(format!("{who} load {i} returned a mixture of writes: {}", render(&r.units, last)));
                continue;
            }
            Some(v) => v,
        };
        if !(INITIAL..=last).contains(&v) {
            ixmc::fail(format!("{who} load {i} returned a value that was never written: {}", render(&r.units, last)));
            continue;
        }
        if let Some(u) = upds.iter().find(|u| u.v == v) {
            ixmc::check!(u.call < r.ret, "{who} load {i} returned version {v} before its update was even called");
        }
        ixmc::check!(
            v >= newest,
            "{who} load {i} went back from version {newest} to the older version {v} (sequence {:?})",
            seen
        );
        newest = newest.max(v);
        if real_time {
            for u in upds {
                if u.ret < r.call {
                    ixmc::check!(
                        v >= u.v,
                        "{who} load {i} [{}..{}] returned version {v} although update {} had returned before the load was called [{}..{}]",
                        r.call,
                        r.ret,
                        u.v,
                        u.call,
                        u.ret
                    );
                }
            }
        }
    }
    seen
}

/// `first_two_step`: whether update 1 uses the loan-style API (the kinds alternate)
fn body_updates<T: Val>(k: u64, first_two_step: bool, readers: usize, loads: usize) -> impl Fn() + Send + Sync + 'static {
    move || {
        begin_execution();
        let a: Arc<UnrestrictedAtomic<T>> = Arc::new(UnrestrictedAtomic::new(T::mk(INITIAL)));
        let last = INITIAL + k;
        let upds: Arc<Mutex<Vec<Upd>>> = Arc::new(Mutex::new(Vec::new()));

        let writer = {
            let (a, upds) = (a.clone(), upds.clone());
            ixmc::spawn(move || {
                let p = match a.acquire_producer() {
                    Some(p) => p,
                    None => {
                        ixmc::fail("the producer of a fresh atomic could not be acquired".into());
                        return;
                    }
                };
                for j in 1..=k {
                    let v = INITIAL + j;
                    let two_step = (j % 2 == 1) == first_two_step;
                    let call = now();
                    let halves = if two_step {
                        Some(two_step_write(&p, v))
                    } else {
                        p.store(T::mk(v));
                        None
                    };
                    let ret = now();
                    upds.lock().unwrap().push(Upd { v, call, ret, halves });
                }
            })
        };
        let mut rs = Vec::new();
        for _ in 0..readers {
            let a = a.clone();
            rs.push(ixmc::spawn(move || do_loads(&*a, loads)));
        }
        writer.join();
        let all_reads: Vec<Vec<Read>> = rs.into_iter().map(|r| r.join()).collect();

        let upds = std::mem::take(&mut *upds.lock().unwrap());
        let stale = ixmc::stale_enabled();
        let mut sig = Vec::new();
        for (n, reads) in all_reads.iter().enumerate() {
            let seen = check_reads(&format!("reader {n}"), reads, &upds, last, !stale);
            if seen.iter().any(|v| matches!(v, Some(v) if *v > INITIAL && *v < last)) {
                ixmc::note("reader-saw-intermediate-version");
            }
            for r in reads {
                if upds.iter().any(|u| u.call < r.ret && u.ret > r.call) {
                    ixmc::note("concurrent-update-observed");
                }
                if upds.iter().any(|u| matches!(u.halves, Some((h, f)) if h < r.ret && f > r.call)) {
                    ixmc::note("load-overlaps-half-written-cell");
                }
                // at least two publications inside one load: the cell being copied was rewritten
                if upds.iter().filter(|u| u.ret > r.call && u.ret < r.ret).count() >= 2 {
                    ixmc::note("two-updates-during-one-load");
                }
            }
            sig.push(seen);
        }
        ixmc::observe(ixmc::hash_of(&sig));

        // (4) quiescence: join is a happens-before edge, also in stale-read stages
        let fin = do_loads(&*a, 1);
        let seen = check_reads("final", &fin, &upds, last, true);
        ixmc::check!(seen == vec![Some(last)], "load after the writer finished yields {} instead of version {last}", render(&fin[0].units, last));
        match a.acquire_producer() {
            Some(p) => {
                ixmc::check!(a.acquire_producer().is_none(), "a second producer could be acquired while the first one is alive");
                p.store(T::mk(INITIAL));
                drop(p);
                ixmc::check!(version(&a.load().units()) == Some(INITIAL), "store through the re-acquired producer is not visible");
            }
            None => ixmc::fail("the producer cannot be acquired again after the writer dropped it".into()),
        };
    }
}

#[derive(Clone, Debug)]
struct Hold {
    thread: usize,
    v: u64,
    acq_call: u64,
    got: u64,
    drop_call: u64,
    drop_ret: u64,
}

#[derive(Clone, Debug)]
struct Refusal {
    thread: usize,
    call: u64,
    ret: u64,
}

/// two threads claim the producer (retry with yield when refused), store their value, drop it
fn body_two_claimants() -> impl Fn() + Send + Sync + 'static {
    type T = [u64; 2];
    move || {
        begin_execution();
        let a: Arc<UnrestrictedAtomic<T>> = Arc::new(UnrestrictedAtomic::new(T::mk(INITIAL)));
        let log: Arc<Mutex<(Vec<Hold>, Vec<Refusal>)>> = Arc::new(Mutex::new((Vec::new(), Vec::new())));
        let mut hs = Vec::new();
        for t in 0..2u64 {
            let (a, log) = (a.clone(), log.clone());
            hs.push(ixmc::spawn(move || {
                let v = INITIAL + 1 + t;
                let me = ixmc::current_thread();
                loop {
                    let acq_call = now();
                    let r = a.acquire_producer();
                    let got = now();
                    match r {
                        Some(p) => {
                            p.store(T::mk(v));
                            let drop_call = now();
                            drop(p);
                            let drop_ret = now();
                            log.lock().unwrap().0.push(Hold { thread: me, v, acq_call, got, drop_call, drop_ret });
                            break;
                        }
                        None => {
                            log.lock().unwrap().1.push(Refusal { thread: me, call: acq_call, ret: got });
                            ixmc::yield_now();
                        }
                    }
                }
            }));
        }
        let reader = {
            let a = a.clone();
            ixmc::spawn(move || do_loads(&*a, 2))
        };
        for h in hs {
            h.join();
        }
        let reads = reader.join();
        let (holds, refusals) = std::mem::take(&mut *log.lock().unwrap());
        let last = INITIAL + 2;
        ixmc::check!(holds.len() == 2, "not every claimant got the producer eventually: {:?}", holds);
        for x in &holds {
            for y in &holds {
                if x.thread < y.thread {
                    ixmc::check!(
                        x.drop_call < y.got && x.got < y.got || y.drop_call < x.got && y.got < x.got,
                        "two producers alive at the same time: T{} holds [{}..{}], T{} holds [{}..{}]",
                        x.thread,
                        x.got,
                        x.drop_call,
                        y.thread,
                        y.got,
                        y.drop_call
                    );
                }
            }
        }
        for r in &refusals {
            ixmc::note("second-acquire-refused");
            ixmc::check!(
                holds.iter().any(|h| h.thread != r.thread && h.acq_call < r.ret && h.drop_ret > r.call),
                "T{} was refused the producer [{}..{}] although nobody held it then (holds {:?})",
                r.thread,
                r.call,
                r.ret,
                holds
            );
        }
        // values: uniform, known; the reader may see them only in the order of the holding periods
        let mut seen = Vec::new();
        for (i, r) in reads.iter().enumerate() {
            let ver = version(&r.units);
            seen.push(ver);
            match ver {
                Some(v) if (INITIAL..=last).contains(&v) => {}
                _ => ixmc::fail(format!("reader load {i} returned {} (mixture or never written)", render(&r.units, last))),
            }
        }
        if holds.len() == 2 {
            let (first, second) = if holds[0].got < holds[1].got { (&holds[0], &holds[1]) } else { (&holds[1], &holds[0]) };
            let rank = |v: &Option<u64>| if *v == Some(second.v) { 2 } else if *v == Some(first.v) { 1 } else { 0 };
            ixmc::check!(
                seen.windows(2).all(|w| rank(&w[0]) <= rank(&w[1])),
                "reader went back to an older value: saw {:?}, holders stored {} then {}",
                seen,
                first.v,
                second.v
            );
            if seen.first() == Some(&Some(first.v)) || seen.get(1) == Some(&Some(first.v)) {
                ixmc::note("reader-saw-first-holder");
            }
            let fin = a.load().units();
            ixmc::check!(
                version(&fin) == Some(second.v),
                "final value {} is not the one of the later holder ({})",
                render(&fin, last),
                second.v
            );
            ixmc::observe(ixmc::hash_of(&(first.thread, refusals.len(), &seen)));
        }
        ixmc::check!(a.acquire_producer().is_some(), "the producer is not free after both holders dropped it");
    }
}

/// the main thread holds the producer and keeps storing while another thread tries to claim it
fn body_held_by_main() -> impl Fn() + Send + Sync + 'static {
    type T = [u64; 3];
    move || {
        begin_execution();
        let a: Arc<UnrestrictedAtomic<T>> = Arc::new(UnrestrictedAtomic::new(T::mk(INITIAL)));
        let p = match a.acquire_producer() {
            Some(p) => p,
            None => {
                ixmc::fail("the producer of a fresh atomic could not be acquired".into());
                return;
            }
        };
        let claimant = {
            let a = a.clone();
            ixmc::spawn(move || {
                let mut refused = 0;
                for _ in 0..2 {
                    match a.acquire_producer() {
                        Some(q) => {
                            ixmc::fail("a second producer was handed out while the first one is alive".into());
                            q.store(T::mk(77));
                        }
                        None => refused += 1,
                    }
                }
                (refused, do_loads(&*a, 1))
            })
        };
        let mut upds = Vec::new();
        for v in [INITIAL + 1, INITIAL + 2] {
            let call = now();
            let halves = if v == INITIAL + 1 {
                p.store(T::mk(v));
                None
            } else {
                Some(two_step_write(&p, v))
            };
            let ret = now();
            upds.push(Upd { v, call, ret, halves });
        }
        let (refused, reads) = claimant.join();
        if refused == 2 {
            ixmc::note("second-acquire-refused");
        }
        let last = INITIAL + 2;
        let seen = check_reads("claimant", &reads, &upds, last, !ixmc::stale_enabled());
        ixmc::observe(ixmc::hash_of(&seen));
        let fin = do_loads(&*a, 1);
        let s = check_reads("final", &fin, &upds, last, true);
        ixmc::check!(s == vec![Some(last)], "the first producer was disturbed: final value {}", render(&fin[0].units, last));
        drop(p);
        ixmc::check!(a.acquire_producer().is_some(), "the producer is not free after it was dropped");
    }
}

fn main() {
    let cfg = Config { post_load: true, cell_points: true, stale_reads: true, horizon: 2000, ..Config::default() };
    let mut cases = Vec::new();

    fn add_type<T: Val>(cases: &mut Vec<Case>, cfg: &Config, tname: &str, extra: bool) {
        let notes = || vec!["concurrent-update-observed", "reader-saw-intermediate-version", "load-overlaps-half-written-cell"];
        // k = 2: store, then two-step; one reader, three loads
        cases.push(Case {
            name: format!("{tname}/k2-store-first/r1x3"),
            cfg: cfg.clone(),
            quick: pb(&[(0, 0), (1, 0), (2, 0), (3, 0), (1, 1), (2, 1)]),
            thorough: pb(&[(0, 0), (1, 0), (2, 0), (3, 0), (4, 0), (5, 0), (3, 1), (3, 2)]),
            split: (1, 4),
            body: Arc::new(body_updates::<T>(2, false, 1, 3)),
            required_notes: notes(),
        });
        // k = 3: two-step, store, two-step; two readers, two loads each
        cases.push(Case {
            name: format!("{tname}/k3-loan-first/r2x2"),
            cfg: cfg.clone(),
            quick: pb(&[(0, 0), (1, 0), (2, 0), (1, 1)]),
            thorough: pb(&[(0, 0), (1, 0), (2, 0), (3, 0), (2, 1)]),
            split: (2, 8),
            body: Arc::new(body_updates::<T>(3, true, 2, 2)),
            required_notes: notes(),
        });
        if extra {
            // k = 4: two-step, store, two-step, store: the cell a slow reader copies is rewritten
            let mut n = notes();
            n.push("two-updates-during-one-load");
            cases.push(Case {
                name: format!("{tname}/k4-loan-first/r1x2"),
                cfg: cfg.clone(),
                quick: pb(&[(0, 0), (1, 0), (2, 0), (3, 0), (1, 1), (2, 1)]),
                thorough: pb(&[(0, 0), (1, 0), (2, 0), (3, 0), (4, 0), (5, 0), (3, 1), (3, 2)]),
                split: (1, 4),
                body: Arc::new(body_updates::<T>(4, true, 1, 2)),
                required_notes: n,
            });
        }
    }
    add_type::<[u8; 1]>(&mut cases, &cfg, "u8x1", false);
    add_type::<[u8; 3]>(&mut cases, &cfg, "u8x3", false);
    add_type::<[u64; 2]>(&mut cases, &cfg, "u64x2", true);
    add_type::<[u64; 3]>(&mut cases, &cfg, "u64x3", false);
    add_type::<[u64; 9]>(&mut cases, &cfg, "u64x9", true);

    cases.push(Case {
        name: "producer/two-claimants".into(),
        cfg: cfg.clone(),
        quick: pb(&[(0, 0), (1, 0), (2, 0), (1, 1)]),
        thorough: pb(&[(0, 0), (1, 0), (2, 0), (3, 0), (2, 1)]),
        split: (1, 6),
        body: Arc::new(body_two_claimants()),
        required_notes: vec!["second-acquire-refused", "reader-saw-first-holder"],
    });
    cases.push(Case {
        name: "producer/held-by-main".into(),
        cfg: cfg.clone(),
        quick: pb(&[(0, 0), (1, 0), (2, 0), (3, 0), (4, 0), (2, 1)]),
        thorough: pb(&[(0, 0), (1, 0), (2, 0), (3, 0), (4, 0), (5, 0), (6, 0), (4, 2)]),
        split: (1, 2),
        body: Arc::new(body_held_by_main()),
        required_notes: vec!["second-acquire-refused"],
    });
    ixmc::coord::main("h_blackboard", "C12", cases);
}
