#[path = "/verif/e2/scn.rs"]
mod scn;

fn main() {
    let a: Vec<String> = std::env::args().skip(1).collect();
    let env = scn::parse_env(&a);
    let crash_at: u64 = std::env::var("PTX_CRASH_AT").ok().and_then(|s| s.parse().ok()).unwrap_or(u64::MAX);
    ixmc::crashhook::arm(crash_at);
    let code = scn::victim_main(&env);
    println!("ATOMIC-OPS {}", ixmc::crashhook::count());
    std::process::exit(code);
}
