//! C05: event notification delivery (no lost wake-up, no phantom id, merges allowed).
//!
//! Subject (real code, built against the atomics drop-in): the generic event implementation of
//! `iceoryx2-cal/src/event/common.rs` -- `EventImpl` with its `Handle::notify` and
//! `Waiter::{try_wait, timed_wait, blocking_wait}` / `drain_events` exactly as shipped --
//! instantiated with
//!   * both event states (`RelocatableBitSet`, `RelocatableCountingBitSet`),
//!   * the repository's `dynamic_storage::process_local::Storage` (objects are created in the
//!     setup phase and dropped after all joins; only notify / wait run concurrently),
//!   * a MODEL TRIGGER (this file, `ModelHandle` / `ModelWaiter`) that implements the public
//!     trigger traits `HandlerInterface` / `WaiterInterface` as a counting semaphore kept in a
//!     hooked atomic, so that every access is a scheduling point and a sleeping listener is a
//!     thread the scheduler knows to be waiting for a change of that counter.
//!
//! Threads: 1..3 notifier threads (1..2 notifies each over the ids {0,1}, colliding ids), one
//! listener thread (2..3 wait rounds), main thread (final `try_wait` drain after all joins).
//! Case name: `<event state>/<notifier set>/<listener rounds>`; `blocki` is a blocking wait that
//! is interrupted (InterruptSignal) once no notifier thread is left and the trigger is empty.
//!
//! Oracles
//!   1. lost wake-up: a blocking wait that finds the trigger empty although a notify that has
//!      already returned Ok is undelivered (`sleep_check`; with no notifier left this is the
//!      permanent lost wake-up, which the engine would also report as deadlock / livelock for the
//!      uninterruptible `block` rounds);
//!   2. after all joins + final drain every successful notify is covered by a delivery of its id
//!      that happened after the notify began (stale-read stages: by any delivery of the id);
//!   3. no phantom id, per id never more delivered occurrences than notify calls;
//!   4. (SC stages) at no moment more delivered occurrences than notify calls that have begun.
//!
//! FINDINGS ON THE UNCHANGED TREE (replay files in `findings/C05/`): the harness reports two
//! defects of `common.rs` in the cases where the listener blocks again after an earlier round
//! (`*/try-blocki` with >= 2 notifies, `*/block-blocki` with >= 3 notifies):
//!   F1 `drain_events` resets the state to IDLE *before* `empty_buffer()`: a trigger token that a
//!      notifier posts in between (IDLE->PENDING, trigger) is thrown away, the notifier then
//!      completes PENDING->NOTIFIED, the listener's next blocking wait finds "not NOTIFIED" first
//!      and an empty trigger afterwards, and every later notify sees NOTIFIED and skips the
//!      trigger: permanent lost wake-up (h_event_0.json, 2 threads, 2 preemptions).
//!   F2 ABA on PENDING: a notifier delayed before its PENDING->NOTIFIED CAS promotes the PENDING
//!      of *another* notifier that has not triggered yet; a third notify sees NOTIFIED, skips the
//!      trigger and returns Ok while the listener sleeps on an empty trigger until the second
//!      notifier finally triggers (h_event_1.json).
//! `H_EVENT_SKIP_KNOWN_DEFECT_CASES=1` leaves exactly those cases out (for the mutation demos).

extern crate iceoryx2_bb_loggers;

use core::mem::MaybeUninit;
use core::ptr::NonNull;
use core::time::Duration;
use std::sync::atomic::{AtomicBool as StdAtomicBool, AtomicU64 as StdAtomicU64, Ordering as StdOrdering};
use std::sync::{Arc, Mutex};

use iceoryx2_bb_concurrency::atomic::{AtomicU64, Ordering};
use iceoryx2_bb_container::semantic_string::SemanticString;
use iceoryx2_bb_elementary_traits::testing::abandonable::Abandonable;
use iceoryx2_bb_elementary_traits::zero_copy_send::ZeroCopySend;
use iceoryx2_bb_system_types::file_name::FileName;
use iceoryx2_bb_system_types::path::Path;
use iceoryx2_cal::dynamic_storage::{self, DynamicStorage};
use iceoryx2_cal::event::common::EventImpl;
use iceoryx2_cal::event::event_state::bit_set::RelocatableBitSet;
use iceoryx2_cal::event::event_state::counting_bit_set::RelocatableCountingBitSet;
use iceoryx2_cal::event::event_state::{EventActivation, EventState};
use iceoryx2_cal::event::trigger::{Configuration as TriggerConfiguration, HandlerInterface, State, WaiterInterface};
use iceoryx2_cal::event::{
    Event, EventId, Listener, ListenerBuilder, ListenerCreateError, ListenerWaitError, NamedConceptBuilder, Notifier,
    NotifierBuilder, NotifierNotifyError, NotifierOpenError,
};
use iceoryx2_cal::named_concept::{NamedConceptPathHintRemoveError, NamedConceptRemoveError};
use ixmc::{pb, Case, Config};

// ------------------------------------------------------------------------------------------
// ledger: what happened in this execution (logging only; never blocks, std types are
// invisible to the scheduler).  One execution at a time per process -> a process global.

#[derive(Clone, Debug)]
struct NotifyRec {
    thread: usize,
    id: usize,
    call: u64,
    /// `None` while the call is still running
    ret: Option<u64>,
    ok: bool,
    triggered: bool,
}

#[derive(Clone, Debug)]
struct DeliveryRec {
    /// index into `waits`
    wait: usize,
    id: usize,
    count: u64,
    at: u64,
}

#[derive(Clone, Copy, Debug, PartialEq, Eq, Hash)]
enum WaitKind {
    Try,
    Timed,
    /// uninterruptible blocking wait: if nothing ever wakes it the engine reports the lost wake-up
    Block,
    /// blocking wait that is interrupted (like by a signal) once every notifier thread has
    /// finished and the trigger is still empty -- after the same "nothing undelivered" check
    BlockIntr,
}

#[derive(Clone, Debug)]
struct WaitRec {
    thread: usize,
    kind: WaitKind,
    call: u64,
    ret: Option<u64>,
    /// Ok(sum of counts) / Err
    result: Option<Result<u64, ListenerWaitError>>,
    slept: bool,
}

#[derive(Default)]
struct Ledger {
    base: u64,
    notifies: Vec<NotifyRec>,
    deliveries: Vec<DeliveryRec>,
    waits: Vec<WaitRec>,
    /// model threads whose `handle.notify()` (the trigger) was called, in order
    trigger_calls: Vec<usize>,
    buffer_full: u64,
}

static LEDGER: Mutex<Option<Ledger>> = Mutex::new(None);
/// per-execution parameters of the model trigger (set in the setup phase of the body)
static TRIGGER_CAPACITY: StdAtomicU64 = StdAtomicU64::new(u64::MAX);
/// notifier threads that have not yet finished (invisible to the scheduler on purpose: it is the
/// harness' knowledge that nobody will ever trigger again, not a synchronisation of the subject)
static LIVE_NOTIFIERS: StdAtomicU64 = StdAtomicU64::new(0);
static STALE: StdAtomicBool = StdAtomicBool::new(false);
static NAME_COUNTER: StdAtomicU64 = StdAtomicU64::new(0);

fn with_ledger<R>(f: impl FnOnce(&mut Ledger) -> R) -> R {
    let mut g = match LEDGER.lock() {
        Ok(g) => g,
        Err(p) => p.into_inner(),
    };
    f(g.as_mut().expect("ledger of the running execution"))
}

/// logical time relative to the start of the execution (deterministic per schedule)
fn now() -> u64 {
    let s = ixmc::stamp();
    with_ledger(|l| s - l.base)
}

impl Ledger {
    /// is the successful notify `n` accounted for by some delivery of its id?
    /// SC stages: the delivering callback must have run after the notify began (a wait that
    /// collected its ids before the notify was even called cannot have delivered it).
    /// Stale-read stages: C11 makes no real-time promise between unrelated threads (a relaxed
    /// load in `BitSet::set` may legally observe an older "bit already set"), so any delivery of
    /// the id counts -- "merged but never dropped entirely".
    fn covered(&self, n: &NotifyRec, stale: bool) -> bool {
        self.deliveries.iter().any(|d| d.id == n.id && (stale || d.at > n.call))
    }

    /// successful notifies that returned before `t` and are not covered by any delivery so far
    fn undelivered_before(&self, t: u64, stale: bool) -> Vec<(usize, usize)> {
        self.notifies
            .iter()
            .filter(|n| n.ok && n.ret.map(|r| r < t).unwrap_or(false) && !self.covered(n, stale))
            .map(|n| (n.thread, n.id))
            .collect()
    }
}

/// Called by the model trigger when a *blocking* wait finds the trigger empty, i.e. at the
/// moment the listener goes (or stays) asleep.  `t` was stamped and `live` (number of notifier
/// threads still running) sampled *before* the counter was read -- the read is a scheduling
/// point, other threads may run between it and this check -- so every notify with `ret < t` had
/// returned before the listener looked, and `live == 0` means nobody could trigger any more.
fn sleep_check(t: u64, live: u64) {
    let stale = STALE.load(StdOrdering::Relaxed);
    let missing = with_ledger(|l| {
        if let Some(w) = l.waits.last_mut() {
            w.slept = true;
        }
        l.undelivered_before(t, stale)
    });
    if !missing.is_empty() {
        if live == 0 {
            ixmc::fail(format!(
                "lost wake-up: the listener sleeps in blocking_wait on an empty trigger, every notifier has returned, \
                 but these successful notifies (thread, id) were never delivered: {missing:?}"
            ));
        } else {
            ixmc::fail(format!(
                "sleeps with undelivered notify: blocking_wait sleeps on an empty trigger although notify calls (thread, id) {missing:?} have already \
                 returned Ok and their ids are undelivered ({live} notifier thread(s) still running)"
            ));
        }
    }
}

// ------------------------------------------------------------------------------------------
// model trigger

/// lives inside the shared management segment (`State::handle`), like the semaphore handle of
/// `trigger/semaphore.rs`
#[derive(Debug)]
#[repr(C)]
pub struct ModelMgmt {
    /// number of pending wake-up tokens
    counter: AtomicU64,
    capacity: u64,
}
unsafe impl ZeroCopySend for ModelMgmt {}

#[derive(Debug)]
pub struct ModelHandle {
    mgmt: *const ModelMgmt,
}
unsafe impl Send for ModelHandle {}
unsafe impl Sync for ModelHandle {}
impl Abandonable for ModelHandle {
    unsafe fn abandon_in_place(_this: NonNull<Self>) {}
}

impl<E: EventState, Storage: DynamicStorage<State<E, ModelMgmt>>> HandlerInterface<E, ModelMgmt, Storage> for ModelHandle {
    fn open(_name: &FileName, _config: &TriggerConfiguration, mgmt: &ModelMgmt) -> Result<Self, NotifierOpenError> {
        Ok(ModelHandle { mgmt })
    }

    fn notify(&self) -> Result<(), NotifierNotifyError> {
        let m = unsafe { &*self.mgmt };
        with_ledger(|l| l.trigger_calls.push(ixmc::current_thread()));
        if m.capacity == u64::MAX {
            m.counter.fetch_add(1, Ordering::SeqCst);
            return Ok(());
        }
        // bounded buffer (socket send buffer / semaphore maximum)
        let mut cur = m.counter.load(Ordering::SeqCst);
        loop {
            if cur >= m.capacity {
                with_ledger(|l| l.buffer_full += 1);
                return Err(NotifierNotifyError::BufferIsFull);
            }
            match m.counter.compare_exchange(cur, cur + 1, Ordering::SeqCst, Ordering::SeqCst) {
                Ok(_) => return Ok(()),
                Err(v) => cur = v,
            }
        }
    }
}

#[derive(Debug)]
pub struct ModelWaiter {
    mgmt: *const ModelMgmt,
}
unsafe impl Send for ModelWaiter {}
unsafe impl Sync for ModelWaiter {}
impl Abandonable for ModelWaiter {
    unsafe fn abandon_in_place(_this: NonNull<Self>) {}
}

impl ModelWaiter {
    /// single consumer (only the listener side takes tokens): load + decrement is race free
    fn take_one_if_any(&self) -> bool {
        let m = unsafe { &*self.mgmt };
        if m.counter.load(Ordering::SeqCst) > 0 {
            m.counter.fetch_sub(1, Ordering::SeqCst);
            true
        } else {
            false
        }
    }
}

impl<E: EventState, Storage: DynamicStorage<State<E, ModelMgmt>>> WaiterInterface<E, ModelMgmt, Storage> for ModelWaiter {
    const IS_FILE_DESCRIPTOR_BASED: bool = false;

    unsafe fn remove(_name: &FileName, _config: &TriggerConfiguration) -> Result<bool, NamedConceptRemoveError> {
        Ok(true)
    }

    fn remove_path_hint(_value: &Path) -> Result<(), NamedConceptPathHintRemoveError> {
        Ok(())
    }

    fn create(_name: &FileName, _config: &TriggerConfiguration, mgmt: &mut MaybeUninit<ModelMgmt>) -> Result<Self, ListenerCreateError> {
        mgmt.write(ModelMgmt { counter: AtomicU64::new(0), capacity: TRIGGER_CAPACITY.load(StdOrdering::Relaxed) });
        Ok(ModelWaiter { mgmt: mgmt.as_ptr() })
    }

    fn try_wait(&self) -> Result<(), ListenerWaitError> {
        self.take_one_if_any();
        Ok(())
    }

    /// there is no clock under the scheduler: a timed wait is "let the others run, look again"
    /// (twice), then the timeout expires
    fn timed_wait(&self, _timeout: Duration) -> Result<(), ListenerWaitError> {
        ixmc::yield_now();
        if self.take_one_if_any() {
            return Ok(());
        }
        ixmc::yield_now();
        // an explicit step: the second look is the expiry of the timeout, not an iteration of a
        // spin loop (two identical loads in a row would otherwise be taken for one)
        ixmc::step();
        self.take_one_if_any();
        Ok(())
    }

    fn blocking_wait(&self) -> Result<(), ListenerWaitError> {
        let m = unsafe { &*self.mgmt };
        let interruptible = with_ledger(|l| l.waits.last().map(|w| w.kind == WaitKind::BlockIntr).unwrap_or(false));
        loop {
            let t = now();
            let live = LIVE_NOTIFIERS.load(StdOrdering::Relaxed);
            if m.counter.load(Ordering::SeqCst) > 0 {
                break;
            }
            // the listener was asleep at the moment of that load
            sleep_check(t, live);
            if interruptible && live == 0 {
                // nobody is left who could ever trigger: end the sleep like a signal would
                return Err(ListenerWaitError::InterruptSignal);
            }
            // the engine keeps a yielding + spinning thread disabled until memory changes; if
            // every other thread is finished and the counter is still 0 it reports the
            // deadlock / livelock, i.e. the lost wake-up
            ixmc::yield_now();
        }
        m.counter.fetch_sub(1, Ordering::SeqCst);
        Ok(())
    }

    fn empty_buffer(&self) -> Result<(), ListenerWaitError> {
        let m = unsafe { &*self.mgmt };
        m.counter.store(0, Ordering::SeqCst);
        Ok(())
    }
}

// ------------------------------------------------------------------------------------------
// the event type under test: the generic implementation over (event state, model trigger,
// process-local storage) -- the same shape as `GenericSocketPairTrigger`

type Store<E> = dynamic_storage::process_local::Storage<State<E, ModelMgmt>>;
type ModelEvent<E> = EventImpl<E, ModelMgmt, Store<E>, ModelHandle, ModelWaiter>;
type ListenerOf<E> = <ModelEvent<E> as Event<E>>::Listener;
type NotifierOf<E> = <ModelEvent<E> as Event<E>>::Notifier;

#[derive(Clone)]
struct Params {
    /// ids each notifier thread notifies, in order
    notifiers: Vec<Vec<usize>>,
    /// wait rounds of the listener thread
    rounds: Vec<WaitKind>,
    /// trigger capacity (`u64::MAX`: unbounded)
    capacity: u64,
    fail_when_full: bool,
}

fn do_wait<E: EventState + 'static>(listener: &ListenerOf<E>, kind: WaitKind) {
    let me = ixmc::current_thread();
    let call = now();
    let idx = with_ledger(|l| {
        l.waits.push(WaitRec { thread: me, kind, call, ret: None, result: None, slept: false });
        l.waits.len() - 1
    });
    let cb = |a: EventActivation| {
        let at = now();
        with_ledger(|l| l.deliveries.push(DeliveryRec { wait: idx, id: a.id.as_value(), count: a.count, at }));
    };
    let r = match kind {
        WaitKind::Try => listener.try_wait(cb),
        WaitKind::Timed => listener.timed_wait(cb, Duration::from_millis(1)),
        WaitKind::Block | WaitKind::BlockIntr => listener.blocking_wait(cb),
    };
    let ret = now();
    with_ledger(|l| {
        l.waits[idx].ret = Some(ret);
        l.waits[idx].result = Some(r);
    });
}

fn do_notify<E: EventState + 'static>(notifier: &NotifierOf<E>, id: usize) {
    let me = ixmc::current_thread();
    let call = now();
    let (idx, trig0) = with_ledger(|l| {
        l.notifies.push(NotifyRec { thread: me, id, call, ret: None, ok: false, triggered: false });
        (l.notifies.len() - 1, l.trigger_calls.iter().filter(|t| **t == me).count())
    });
    let r = notifier.notify(EventId::new(id));
    let ret = now();
    with_ledger(|l| {
        let trig1 = l.trigger_calls.iter().filter(|t| **t == me).count();
        let n = &mut l.notifies[idx];
        n.ret = Some(ret);
        n.ok = r.is_ok();
        n.triggered = trig1 > trig0;
    });
}

fn body<E: EventState + 'static>(p: Params) -> impl Fn() + Send + Sync + 'static
where
    ListenerOf<E>: Send + Sync + 'static,
    NotifierOf<E>: Send + Sync + 'static,
{
    move || {
        // ---- setup phase (no scheduling points): every object is created here
        let stale = ixmc::stale_enabled();
        STALE.store(stale, StdOrdering::Relaxed);
        TRIGGER_CAPACITY.store(p.capacity, StdOrdering::Relaxed);
        LIVE_NOTIFIERS.store(p.notifiers.len() as u64, StdOrdering::Relaxed);
        {
            let mut g = match LEDGER.lock() {
                Ok(g) => g,
                Err(poison) => poison.into_inner(),
            };
            *g = Some(Ledger { base: ixmc::stamp(), ..Default::default() });
        }
        let name = FileName::new(
            format!("h_event_{}_{}", std::process::id(), NAME_COUNTER.fetch_add(1, StdOrdering::Relaxed)).as_bytes(),
        )
        .expect("valid name");
        let listener: Arc<ListenerOf<E>> = Arc::new(
            <ModelEvent<E> as Event<E>>::ListenerBuilder::new(&name)
                .event_id_max(EventId::new(1))
                .create()
                .expect("listener can be created"),
        );
        let notifiers: Vec<Arc<NotifierOf<E>>> = p
            .notifiers
            .iter()
            .map(|_| {
                Arc::new(
                    <ModelEvent<E> as Event<E>>::NotifierBuilder::new(&name)
                        .fail_when_buffer_is_full(p.fail_when_full)
                        .open()
                        .expect("notifier can be opened"),
                )
            })
            .collect();

        // ---- concurrent phase: only notify / wait
        let mut hs = Vec::new();
        {
            let (l, rounds) = (listener.clone(), p.rounds.clone());
            hs.push(ixmc::spawn(move || {
                for k in rounds {
                    do_wait::<E>(&l, k);
                }
            }));
        }
        for (n, ids) in notifiers.iter().zip(p.notifiers.iter()) {
            let (n, ids) = (n.clone(), ids.clone());
            hs.push(ixmc::spawn(move || {
                for id in ids {
                    do_notify::<E>(&n, id);
                }
                LIVE_NOTIFIERS.fetch_sub(1, StdOrdering::Relaxed);
            }));
        }
        for h in hs {
            h.join();
        }

        // ---- quiescence: the main thread drains what is left
        do_wait::<E>(&listener, WaitKind::Try);

        let l = with_ledger(|l| std::mem::take(l));
        evaluate(&p, &l, stale);

        // ---- tear down after all joins (process_local storage takes an unmanaged mutex)
        drop(notifiers);
        drop(listener);
    }
}

fn evaluate(p: &Params, l: &Ledger, stale: bool) {
    // outcome signature: what every wait returned, what every notify returned
    let mut sig: Vec<(usize, WaitKind, bool, bool, Vec<(usize, u64)>)> = Vec::new();
    for (i, w) in l.waits.iter().enumerate() {
        let ids: Vec<(usize, u64)> = l.deliveries.iter().filter(|d| d.wait == i).map(|d| (d.id, d.count)).collect();
        sig.push((w.thread, w.kind, matches!(w.result, Some(Ok(_))), w.slept, ids));
    }
    let mut nsig: Vec<(usize, usize, bool, bool)> = l.notifies.iter().map(|n| (n.thread, n.id, n.ok, n.triggered)).collect();
    nsig.sort();
    ixmc::observe(ixmc::hash_of(&sig));
    ixmc::observe(ixmc::hash_of(&nsig));

    // collision notes (vacuity guards)
    let listener_waits: Vec<&WaitRec> = l.waits.iter().filter(|w| w.thread != 0).collect();
    if l.notifies.iter().any(|n| listener_waits.iter().any(|w| n.call < w.ret.unwrap_or(u64::MAX) && w.call < n.ret.unwrap_or(u64::MAX))) {
        ixmc::note("notify-overlapped-wait");
    }
    if l.notifies.iter().any(|n| n.ok && !n.triggered) {
        ixmc::note("trigger-skipped-on-notified");
    }
    if l.waits.iter().any(|w| w.slept) {
        ixmc::note("blocking-wait-slept");
    }
    if l.waits.iter().any(|w| w.kind == WaitKind::BlockIntr && matches!(w.result, Some(Err(_)))) {
        ixmc::note("blocking-wait-interrupted");
    }
    if l.buffer_full > 0 {
        ixmc::note("trigger-buffer-full");
    }
    for id in 0..2usize {
        let sent = l.notifies.iter().filter(|n| n.id == id && n.ok).count();
        let callbacks = l.deliveries.iter().filter(|d| d.id == id).count();
        if callbacks >= 1 && callbacks < sent {
            ixmc::note("merged-notification");
        }
    }
    if l.waits.iter().enumerate().any(|(i, w)| matches!(w.result, Some(Ok(_))) && w.thread != 0 && !l.deliveries.iter().any(|d| d.wait == i)) {
        ixmc::note("wait-returned-empty");
    }
    if l.deliveries.iter().any(|d| l.waits[d.wait].thread == 0) {
        ixmc::note("final-drain-delivered");
    }

    // every wait of this harness must come back without an internal error
    for w in &l.waits {
        match w.result {
            Some(Ok(_)) => {}
            Some(Err(ListenerWaitError::InterruptSignal)) if w.kind == WaitKind::BlockIntr => {}
            ref other => ixmc::fail(format!("{:?} wait of thread T{} ended with {:?}", w.kind, w.thread, other)),
        }
    }
    for n in &l.notifies {
        ixmc::check!(n.ret.is_some(), "notify({}) of T{} never returned", n.id, n.thread);
        if !p.fail_when_full {
            ixmc::check!(n.ok, "notify({}) of T{} failed although the id is valid and a full buffer is to be ignored", n.id, n.thread);
        }
    }

    // (2) no loss: every notify that returned Ok is delivered by some wait (the final drain of
    // the main thread included); merges are fine, dropping entirely is not
    for n in l.notifies.iter().filter(|n| n.ok) {
        ixmc::check!(
            l.covered(n, stale),
            "notification lost: notify({}) of T{} returned Ok (called at t={}) but no wait delivered id {} afterwards; deliveries (wait#, id, count, t): {:?}",
            n.id,
            n.thread,
            n.call,
            n.id,
            l.deliveries.iter().map(|d| (d.wait, d.id, d.count, d.at)).collect::<Vec<_>>()
        );
    }

    // (3) no phantom, never more occurrences than were sent.  "Sent" counts every notify *call*
    // (a notify that failed with BufferIsFull has activated its id all the same).
    for d in &l.deliveries {
        ixmc::check!(d.count >= 1, "wait delivered id {} with an occurrence count of 0", d.id);
        ixmc::check!(
            l.notifies.iter().any(|n| n.id == d.id),
            "phantom id: wait delivered id {} which nobody notified (notified: {:?})",
            d.id,
            p.notifiers
        );
    }
    let mut ids: Vec<usize> = l.deliveries.iter().map(|d| d.id).chain(l.notifies.iter().map(|n| n.id)).collect();
    ids.sort();
    ids.dedup();
    for id in ids {
        let sent = l.notifies.iter().filter(|n| n.id == id).count() as u64;
        let got: u64 = l.deliveries.iter().filter(|d| d.id == id).map(|d| d.count).sum();
        ixmc::check!(got <= sent, "id {} was delivered {} time(s) but notified only {} time(s)", id, got, sent);
    }
    // (4) real-time clause (SC stages only): at the moment of a delivery, the occurrences of
    // the id delivered so far cannot exceed the notifies of it that have at least begun
    if !stale {
        let mut ds: Vec<&DeliveryRec> = l.deliveries.iter().collect();
        ds.sort_by_key(|d| d.at);
        for (i, d) in ds.iter().enumerate() {
            let so_far: u64 = ds[..=i].iter().filter(|x| x.id == d.id).map(|x| x.count).sum();
            let begun = l.notifies.iter().filter(|n| n.id == d.id && n.call < d.at).count() as u64;
            ixmc::check!(
                so_far <= begun,
                "invented notification: at t={} id {} had been delivered {} time(s) although only {} notify call(s) of it had begun",
                d.at,
                d.id,
                so_far,
                begun
            );
        }
    }
}

// ------------------------------------------------------------------------------------------

fn main() {
    iceoryx2_log::set_log_level(iceoryx2_log::LogLevel::Fatal);

    use WaitKind::*;
    let cfg = Config { post_load: true, cell_points: true, stale_reads: true, horizon: 3000, ..Config::default() };
    const UNBOUNDED: u64 = u64::MAX;

    // (name, ids per notifier thread)
    let notifier_sets: Vec<(&str, Vec<Vec<usize>>)> = vec![
        ("n1x1", vec![vec![0]]),
        ("n1x2", vec![vec![0, 0]]),
        ("n2x1", vec![vec![0], vec![0]]),
        ("n2x2-1", vec![vec![0, 1], vec![1]]),
        ("n3x1", vec![vec![0], vec![1], vec![0]]),
    ];
    // (name, listener rounds)
    let listener_sets: Vec<(&str, Vec<WaitKind>)> = vec![
        ("try-try", vec![Try, Try]),
        ("block-try", vec![Block, Try]),
        ("timed-try", vec![Timed, Try]),
        ("try-blocki", vec![Try, BlockIntr]),
        ("block-blocki", vec![Block, BlockIntr]),
        // three rounds, only for the 2-notify sets
        ("try-try-try", vec![Try, Try, Try]),
    ];
    // Opt-in filter for the mutation demos (see the report of this harness): on the unchanged
    // tree the harness finds two defects of `common.rs` in the cases where the listener blocks
    // *again* after an earlier round while >= 2 (try first) / >= 3 (block first) notifies are in
    // flight.  With H_EVENT_SKIP_KNOWN_DEFECT_CASES=1 exactly those cases are left out, so that
    // a mutation can be told apart from the defects that are there already.  Default: run all.
    let skip_known = std::env::var("H_EVENT_SKIP_KNOWN_DEFECT_CASES").map(|v| v == "1").unwrap_or(false);
    let reaches_known_defect = |rounds: &[WaitKind], total: usize| -> bool {
        let reblock = rounds.iter().skip(1).any(|k| matches!(k, Block | BlockIntr));
        reblock && (if matches!(rounds[0], Block | BlockIntr) { total >= 3 } else { total >= 2 })
    };

    let mut cases: Vec<Case> = Vec::new();
    macro_rules! add {
        ($ename:expr, $E:ty, $nname:expr, $lname:expr, $p:expr, $quick:expr, $thorough:expr, $split:expr, $req:expr) => {
            cases.push(Case {
                name: format!("{}/{}/{}", $ename, $nname, $lname),
                cfg: cfg.clone(),
                quick: $quick,
                thorough: $thorough,
                split: $split,
                body: Arc::new(body::<$E>($p)),
                required_notes: $req,
            });
        };
    }

    for (nname, ns) in &notifier_sets {
        for (lname, rounds) in &listener_sets {
            let total: usize = ns.iter().map(|v| v.len()).sum();
            let threads = ns.len();
            if skip_known && reaches_known_defect(rounds, total) {
                continue;
            }
            if rounds.len() > 2 && total != 2 {
                continue;
            }
            let p = Params { notifiers: ns.clone(), rounds: rounds.clone(), capacity: UNBOUNDED, fail_when_full: false };
            let mut req = vec!["notify-overlapped-wait"];
            if total >= 2 {
                req.push("trigger-skipped-on-notified");
                req.push("merged-notification");
            }
            if rounds.contains(&Block) || rounds.contains(&BlockIntr) {
                req.push("blocking-wait-slept");
            }
            let (quick, thorough, split) = match (threads, total) {
                (1, 1) => (pb(&[(0, 0), (1, 0), (2, 0), (1, 1)]), pb(&[(0, 0), (1, 0), (2, 0), (3, 0), (4, 0), (3, 1)]), (1, 2)),
                (1, _) => (pb(&[(0, 0), (1, 0), (2, 0), (1, 1)]), pb(&[(0, 0), (1, 0), (2, 0), (3, 0), (4, 0), (3, 1)]), (1, 4)),
                (2, 2) => (pb(&[(0, 0), (1, 0), (2, 0), (1, 1)]), pb(&[(0, 0), (1, 0), (2, 0), (3, 0), (2, 1)]), (1, 4)),
                (2, _) => (pb(&[(0, 0), (1, 0), (2, 0)]), pb(&[(0, 0), (1, 0), (2, 0), (3, 0), (2, 1)]), (2, 8)),
                _ => (pb(&[(0, 0), (1, 0)]), pb(&[(0, 0), (1, 0), (2, 0), (1, 1)]), (1, 8)),
            };
            add!("bitset", RelocatableBitSet, nname, lname, p.clone(), quick.clone(), thorough.clone(), split, req.clone());
            add!("counting", RelocatableCountingBitSet, nname, lname, p, quick, thorough, split, req);
        }
    }

    // bounded trigger buffer (capacity 1): the "buffer full" path of notify, ignored / reported
    for (fname, fail_when_full, lname, rounds) in
        [("full-ignored", false, "block-try", vec![Block, Try]), ("full-reported", true, "try-try", vec![Try, Try])]
    {
        let p = Params { notifiers: vec![vec![0], vec![1]], rounds: rounds.clone(), capacity: 1, fail_when_full };
        let mut req = vec!["notify-overlapped-wait", "trigger-buffer-full"];
        if rounds.contains(&Block) {
            req.push("blocking-wait-slept");
        }
        let quick = pb(&[(0, 0), (1, 0), (2, 0)]);
        let thorough = pb(&[(0, 0), (1, 0), (2, 0), (3, 0), (2, 1)]);
        add!("bitset", RelocatableBitSet, format!("cap1-{fname}"), lname, p.clone(), quick.clone(), thorough.clone(), (1, 4), req.clone());
        add!("counting", RelocatableCountingBitSet, format!("cap1-{fname}"), lname, p, quick, thorough, (1, 4), req);
    }

    ixmc::coord::main("h_event", "C05", cases);
}
