//! C06, thread leg: several nodes of one process create / open / open_or_create / drop the SAME
//! service (`local::Service`) concurrently.  Real iceoryx2 service builder code; the process-local
//! storages' pthread mutex and the clock are under the scheduler's control.
//!
//! Oracle: at most one `create` succeeds; every successful open reports exactly the creator's
//! static configuration; every call returns a service or a documented error; when all handles are
//! gone the service does not exist and can be created with different settings.

use std::sync::{Arc, Mutex};

use iceoryx2::prelude::*;
use iceoryx2::service::builder::publish_subscribe::{PublishSubscribeCreateError, PublishSubscribeOpenError, PublishSubscribeOpenOrCreateError};
use iceoryx2::service::builder::event::{EventCreateError, EventOpenError, EventOpenOrCreateError};
use iceoryx2::service::builder::request_response::{RequestResponseCreateError, RequestResponseOpenError, RequestResponseOpenOrCreateError};
use iceoryx2::service::builder::blackboard::{BlackboardCreateError, BlackboardOpenError};
use iceoryx2::service::Service as ServiceTrait;
use ixmc::{pb, Case};

type Svc = local::Service;

static NAME_COUNTER: std::sync::atomic::AtomicU64 = std::sync::atomic::AtomicU64::new(0);

#[derive(Clone, Copy, Debug, PartialEq, Eq, Hash)]
enum Call {
    Create(usize),
    Open,
    OpenOrCreate(usize),
    /// open, then drop the handle at once (a user that leaves while others arrive)
    OpenDrop,
    /// create, then drop the handle at once
    CreateDrop(usize),
}

#[derive(Clone, Copy, Debug, PartialEq, Eq, Hash)]
enum Pattern {
    PubSub,
    Event,
    ReqRes,
    /// creator / opener only: the programs with open_or_create are skipped
    Blackboard,
}

#[derive(Clone, Debug, PartialEq, Eq, Hash)]
struct Outcome {
    thread: usize,
    call: Call,
    /// Ok(max value seen in the static config) or the error text
    result: Result<usize, String>,
    created: bool,
}

fn config() -> Config {
    let mut c = Config::default();
    c.global.creation_timeout = core::time::Duration::from_millis(2);
    c.global.node.cleanup_dead_nodes_on_creation = false;
    c.global.node.cleanup_dead_nodes_on_destruction = false;
    c.global.service.cleanup_dead_nodes_on_open = false;
    c
}

enum Handle {
    P(iceoryx2::service::port_factory::publish_subscribe::PortFactory<Svc, u64, ()>),
    E(iceoryx2::service::port_factory::event::PortFactory<Svc>),
    R(iceoryx2::service::port_factory::request_response::PortFactory<Svc, u64, (), u64, ()>),
    B(iceoryx2::service::port_factory::blackboard::PortFactory<Svc, u64>),
}

impl Handle {
    fn setting(&self) -> usize {
        match self {
            Handle::P(h) => h.static_config().max_subscribers(),
            Handle::E(h) => h.static_config().max_listeners(),
            Handle::R(h) => h.static_config().max_clients(),
            Handle::B(h) => h.static_config().max_readers(),
        }
    }
}

fn documented_ps_open(e: &PublishSubscribeOpenError) -> bool {
    use PublishSubscribeOpenError::*;
    matches!(e, DoesNotExist | IsMarkedForDestruction | HangsInCreation)
}
fn documented_ps_create(e: &PublishSubscribeCreateError) -> bool {
    use PublishSubscribeCreateError::*;
    matches!(e, AlreadyExists | IsBeingCreatedByAnotherInstance | HangsInCreation)
}
fn documented_ev_open(e: &EventOpenError) -> bool {
    use EventOpenError::*;
    matches!(e, DoesNotExist | IsMarkedForDestruction | HangsInCreation)
}
fn documented_ev_create(e: &EventCreateError) -> bool {
    use EventCreateError::*;
    matches!(e, AlreadyExists | IsBeingCreatedByAnotherInstance)
}

fn documented_rr_open(e: &RequestResponseOpenError) -> bool {
    use RequestResponseOpenError::*;
    matches!(e, DoesNotExist | IsMarkedForDestruction | HangsInCreation)
}
fn documented_rr_create(e: &RequestResponseCreateError) -> bool {
    use RequestResponseCreateError::*;
    matches!(e, AlreadyExists | IsBeingCreatedByAnotherInstance | HangsInCreation)
}
fn documented_bb_open(e: &BlackboardOpenError) -> bool {
    use BlackboardOpenError::*;
    // ServiceInCorruptedState: the blackboard's payload segments are created after the static config
    // is finalised; an opener in between finds them "missing", which is what the variant documents
    if matches!(e, ServiceInCorruptedState) {
        ixmc::note("blackboard-open-saw-missing-resources");
    }
    matches!(e, DoesNotExist | IsMarkedForDestruction | HangsInCreation | ServiceInCorruptedState)
}
fn documented_bb_create(e: &BlackboardCreateError) -> bool {
    use BlackboardCreateError::*;
    matches!(e, AlreadyExists | IsBeingCreatedByAnotherInstance | HangsInCreation)
}

/// returns (handle or error text, was it a creation, documented error?)
fn perform(node: &Node<Svc>, name: &ServiceName, pattern: Pattern, call: Call) -> (Result<Handle, String>, bool, bool) {
    let setting = |v: usize| 2 + v;
    match pattern {
        Pattern::PubSub => {
            let b = || node.service_builder(name).publish_subscribe::<u64>();
            match call {
                Call::Create(v) | Call::CreateDrop(v) => match b().max_subscribers(setting(v)).create() {
                    Ok(h) => (Ok(Handle::P(h)), true, true),
                    Err(e) => (Err(format!("{e:?}")), false, documented_ps_create(&e)),
                },
                Call::Open | Call::OpenDrop => match b().open() {
                    Ok(h) => (Ok(Handle::P(h)), false, true),
                    Err(e) => (Err(format!("{e:?}")), false, documented_ps_open(&e)),
                },
                Call::OpenOrCreate(v) => match b().max_subscribers(setting(v)).open_or_create() {
                    Ok(h) => (Ok(Handle::P(h)), false, true),
                    Err(e) => {
                        let ok = match &e {
                            PublishSubscribeOpenOrCreateError::PublishSubscribeOpenError(o) => {
                                documented_ps_open(o) || matches!(o, PublishSubscribeOpenError::DoesNotSupportRequestedAmountOfSubscribers)
                            }
                            PublishSubscribeOpenOrCreateError::PublishSubscribeCreateError(c) => documented_ps_create(c),
                            PublishSubscribeOpenOrCreateError::SystemInFlux => true,
                        };
                        (Err(format!("{e:?}")), false, ok)
                    }
                },
            }
        }
        Pattern::ReqRes => {
            let b = || node.service_builder(name).request_response::<u64, u64>();
            match call {
                Call::Create(v) | Call::CreateDrop(v) => match b().max_clients(setting(v)).create() {
                    Ok(h) => (Ok(Handle::R(h)), true, true),
                    Err(e) => (Err(format!("{e:?}")), false, documented_rr_create(&e)),
                },
                Call::Open | Call::OpenDrop => match b().open() {
                    Ok(h) => (Ok(Handle::R(h)), false, true),
                    Err(e) => (Err(format!("{e:?}")), false, documented_rr_open(&e)),
                },
                Call::OpenOrCreate(v) => match b().max_clients(setting(v)).open_or_create() {
                    Ok(h) => (Ok(Handle::R(h)), false, true),
                    Err(e) => {
                        let ok = match &e {
                            RequestResponseOpenOrCreateError::RequestResponseOpenError(o) => {
                                documented_rr_open(o) || matches!(o, RequestResponseOpenError::DoesNotSupportRequestedAmountOfClients)
                            }
                            RequestResponseOpenOrCreateError::RequestResponseCreateError(c) => documented_rr_create(c),
                            RequestResponseOpenOrCreateError::SystemInFlux => true,
                        };
                        (Err(format!("{e:?}")), false, ok)
                    }
                },
            }
        }
        Pattern::Blackboard => match call {
            Call::Create(v) | Call::CreateDrop(v) => match node.service_builder(name).blackboard_creator::<u64>().add::<u64>(0, 0).max_readers(setting(v)).create() {
                Ok(h) => (Ok(Handle::B(h)), true, true),
                Err(e) => (Err(format!("{e:?}")), false, documented_bb_create(&e)),
            },
            Call::Open | Call::OpenDrop => match node.service_builder(name).blackboard_opener::<u64>().open() {
                Ok(h) => (Ok(Handle::B(h)), false, true),
                Err(e) => (Err(format!("{e:?}")), false, documented_bb_open(&e)),
            },
            Call::OpenOrCreate(_) => unreachable!("blackboard has no open_or_create"),
        },
        Pattern::Event => {
            let b = || node.service_builder(name).event();
            match call {
                Call::Create(v) | Call::CreateDrop(v) => match b().max_listeners(setting(v)).create() {
                    Ok(h) => (Ok(Handle::E(h)), true, true),
                    Err(e) => (Err(format!("{e:?}")), false, documented_ev_create(&e)),
                },
                Call::Open | Call::OpenDrop => match b().open() {
                    Ok(h) => (Ok(Handle::E(h)), false, true),
                    Err(e) => (Err(format!("{e:?}")), false, documented_ev_open(&e)),
                },
                Call::OpenOrCreate(v) => match b().max_listeners(setting(v)).open_or_create() {
                    Ok(h) => (Ok(Handle::E(h)), false, true),
                    Err(e) => {
                        let ok = match &e {
                            EventOpenOrCreateError::EventOpenError(o) => documented_ev_open(o) || matches!(o, EventOpenError::DoesNotSupportRequestedAmountOfListeners),
                            EventOpenOrCreateError::EventCreateError(c) => documented_ev_create(c),
                            EventOpenOrCreateError::SystemInFlux => true,
                        };
                        (Err(format!("{e:?}")), false, ok)
                    }
                },
            }
        }
    }
}

fn body(pattern: Pattern, calls: Vec<Call>) -> impl Fn() + Send + Sync + 'static {
    move || {
        let cfg = config();
        let n = NAME_COUNTER.fetch_add(1, std::sync::atomic::Ordering::Relaxed);
        let name = ServiceName::new(&format!("hsvc_{}_{}", std::process::id(), n)).unwrap();
        let mp = match pattern {
            Pattern::PubSub => MessagingPattern::PublishSubscribe,
            Pattern::Event => MessagingPattern::Event,
            Pattern::ReqRes => MessagingPattern::RequestResponse,
            Pattern::Blackboard => MessagingPattern::Blackboard,
        };
        // one node per thread, created in the setup phase
        let nodes: Vec<Node<Svc>> = calls.iter().map(|_| NodeBuilder::new().config(&cfg).create::<Svc>().expect("node")).collect();
        let outcomes: Arc<Mutex<Vec<Outcome>>> = Arc::new(Mutex::new(Vec::new()));
        let mut hs = Vec::new();
        for (node, call) in nodes.into_iter().zip(calls.iter().copied()) {
            let (name, outcomes) = (name.clone(), outcomes.clone());
            hs.push(ixmc::spawn(move || {
                let me = ixmc::current_thread();
                let (r, created, documented) = perform(&node, &name, pattern, call);
                if let Err(e) = &r {
                    ixmc::check!(documented, "undocumented error: {:?} returned {}", call, e);
                }
                let result = r.as_ref().map(|h| h.setting()).map_err(|e| e.clone());
                outcomes.lock().unwrap().push(Outcome { thread: me, call, result, created });
                let keep = match call {
                    Call::OpenDrop | Call::CreateDrop(_) => None,
                    _ => r.ok(),
                };
                (node, keep)
            }));
        }
        let mut kept: Vec<(Node<Svc>, Option<Handle>)> = Vec::new();
        for h in hs {
            kept.push(h.join());
        }
        let outs = outcomes.lock().unwrap().clone();
        // at most one creation wins while the service exists: with only immediate drops absent,
        // two successful `create` calls are impossible
        let creates_ok = outs.iter().filter(|o| matches!(o.call, Call::Create(_)) && o.result.is_ok()).count();
        let dropping = outs.iter().any(|o| matches!(o.call, Call::CreateDrop(_) | Call::OpenDrop));
        if !dropping {
            ixmc::check!(creates_ok <= 1, "two creations succeeded: {:?}", outs);
        }
        // every handle that is still alive shows one and the same static configuration, and it is
        // the one some creating call asked for
        let live: Vec<usize> = kept.iter().filter_map(|(_, h)| h.as_ref().map(|h| h.setting())).collect();
        if let Some(first) = live.first() {
            ixmc::check!(live.iter().all(|s| s == first), "settings differ between users: live handles report {:?} ({:?})", live, outs);
            let requested: Vec<usize> = outs
                .iter()
                .filter_map(|o| match o.call {
                    Call::Create(v) | Call::OpenOrCreate(v) | Call::CreateDrop(v) => Some(2 + v),
                    _ => None,
                })
                .collect();
            ixmc::check!(requested.contains(first), "settings nobody asked for: static config reports {} but creators asked for {:?}", first, requested);
            let ex = Svc::does_exist(&name, &cfg, mp);
            ixmc::check!(ex == Ok(true), "service vanished under its users: {} live handle(s) but does_exist returns {:?} ({:?})", live.len(), ex, outs);
        }
        if creates_ok + outs.iter().filter(|o| matches!(o.call, Call::OpenOrCreate(_)) && o.result.is_ok()).count() > 1 {
            ixmc::note("several-users");
        }
        if outs.iter().any(|o| o.result.is_err()) {
            ixmc::note("a-call-failed");
        }
        let mut sig: Vec<(usize, Call, Result<usize, String>)> = outs.iter().map(|o| (o.thread, o.call, o.result.clone())).collect();
        sig.sort_by_key(|x| x.0);
        ixmc::observe(ixmc::hash_of(&sig));
        // the last user leaves: the service disappears and the name is free for other settings
        let mut nodes: Vec<Node<Svc>> = Vec::new();
        for (n, h) in kept {
            drop(h);
            nodes.push(n);
        }
        let ex = Svc::does_exist(&name, &cfg, mp);
        ixmc::check!(ex == Ok(false), "service remains after its last user left: does_exist returns {:?} ({:?})", ex, outs);
        let (r, _, _) = perform(&nodes[0], &name, pattern, Call::Create(7));
        ixmc::check!(r.is_ok(), "name not reusable after the last user left: create with other settings returned {:?}", r.as_ref().err());
        drop(r);
        drop(nodes);
    }
}

fn main() {
    set_log_level(LogLevel::Fatal);
    use Call::*;
    let mut cases = Vec::new();
    let cfg = ixmc::Config { post_load: false, cell_points: true, stale_reads: false, elide: true, horizon: 20000, ..ixmc::Config::default() };
    let progs: Vec<(&str, Vec<Call>, Vec<&'static str>)> = vec![
        ("create+create", vec![Create(0), Create(1)], vec!["a-call-failed"]),
        ("create+open", vec![Create(0), Open], vec![]),
        ("ooc+ooc", vec![OpenOrCreate(0), OpenOrCreate(0)], vec!["several-users"]),
        ("ooc+ooc-other-settings", vec![OpenOrCreate(0), OpenOrCreate(1)], vec![]),
        ("create+ooc", vec![Create(0), OpenOrCreate(0)], vec![]),
        ("createdrop+open", vec![CreateDrop(0), Open], vec![]),
        ("createdrop+ooc", vec![CreateDrop(0), OpenOrCreate(1)], vec![]),
        ("create+opendrop+open", vec![Create(0), OpenDrop, Open], vec![]),
    ];
    for (pname, pattern) in [("pubsub", Pattern::PubSub), ("event", Pattern::Event), ("reqres", Pattern::ReqRes), ("blackboard", Pattern::Blackboard)] {
        for (n, calls, req) in &progs {
            if pattern == Pattern::Blackboard && calls.iter().any(|c| matches!(c, OpenOrCreate(_))) {
                continue;
            }
            let three = calls.len() > 2;
            cases.push(Case {
                name: format!("{pname}/{n}"),
                cfg: cfg.clone(),
                quick: if three { pb(&[(0, 0)]) } else { pb(&[(0, 0), (1, 0)]) },
                thorough: if three { pb(&[(0, 0), (1, 0)]) } else { pb(&[(0, 0), (1, 0), (2, 0)]) },
                split: (2, 8),
                body: Arc::new(body(pattern, calls.clone())),
                required_notes: req.clone(),
            });
        }
    }
    ixmc::coord::main("h_service_mt", "C06", cases);
}
