//! C01 / C02, thread leg: a publisher thread sends while a subscriber thread receives (and a
//! second subscriber may be created concurrently) on a `local::Service` – the real ports, the
//! real zero-copy connection and data segment, every atomic operation a scheduling point.
//!
//! Oracle per (publisher, subscriber) pair: what the subscriber receives is a subsequence of what
//! was sent, in order, no duplicate, nothing invented, payload intact (value and its complement);
//! after both threads are done a final drain delivers the rest; without overflow nothing that the
//! send reported as delivered is missing; with overflow the newest `buffer` samples survive.

use std::sync::{Arc, Mutex};

use iceoryx2::prelude::*;
use ixmc::{pb, Case};

type Svc = local_threadsafe::Service;

static NAME_COUNTER: std::sync::atomic::AtomicU64 = std::sync::atomic::AtomicU64::new(0);

#[derive(Debug, Clone, Copy, PartialEq, Eq, ZeroCopySend)]
#[repr(C)]
struct Payload {
    v: u64,
    not_v: u64,
}

fn config() -> Config {
    let mut c = Config::default();
    c.global.node.cleanup_dead_nodes_on_creation = false;
    c.global.node.cleanup_dead_nodes_on_destruction = false;
    c.global.service.cleanup_dead_nodes_on_open = false;
    c
}

#[derive(Clone, Copy)]
struct P {
    buffer: usize,
    overflow: bool,
    sends: usize,
    receives: usize,
    late_subscriber: bool,
    history: usize,
}

fn body(p: P) -> impl Fn() + Send + Sync + 'static {
    move || {
        let cfg = config();
        let n = NAME_COUNTER.fetch_add(1, std::sync::atomic::Ordering::Relaxed);
        let name = ServiceName::new(&format!("hpsmt_{}_{}", std::process::id(), n)).unwrap();
        let node = NodeBuilder::new().config(&cfg).create::<Svc>().expect("node");
        let service = node
            .service_builder(&name)
            .publish_subscribe::<Payload>()
            .max_publishers(1)
            .max_subscribers(2)
            .subscriber_max_buffer_size(p.buffer)
            .subscriber_max_borrowed_samples(1)
            .history_size(p.history)
            .enable_safe_overflow(p.overflow)
            .create()
            .expect("service");
        let publisher = service
            .publisher_builder()
            .max_loaned_samples(1)
            .backpressure_strategy(BackpressureStrategy::DiscardData)
            .create()
            .expect("publisher");
        let subscriber = service.subscriber_builder().buffer_size(p.buffer).create().expect("subscriber");
        let service = Arc::new(service);

        // (value, number of recipients reported by send)
        let sent: Arc<Mutex<Vec<(u64, usize)>>> = Arc::new(Mutex::new(Vec::new()));
        let got: Arc<Mutex<Vec<u64>>> = Arc::new(Mutex::new(Vec::new()));
        let got_late: Arc<Mutex<Vec<u64>>> = Arc::new(Mutex::new(Vec::new()));

        let hp = {
            let sent = sent.clone();
            ixmc::spawn(move || {
                for i in 0..p.sends {
                    let v = 100 + i as u64;
                    match publisher.send_copy(Payload { v, not_v: !v }) {
                        Ok(n) => sent.lock().unwrap().push((v, n)),
                        Err(e) => ixmc::fail(format!("send failed: send_copy returned {e:?}")),
                    }
                }
                publisher
            })
        };
        let recv = |s: &iceoryx2::port::subscriber::Subscriber<Svc, Payload, ()>, into: &Arc<Mutex<Vec<u64>>>, k: usize| {
            for _ in 0..k {
                match s.receive() {
                    Ok(Some(sample)) => {
                        let pl = *sample;
                        ixmc::check!(pl.not_v == !pl.v, "payload corrupted: received ({:#x}, {:#x})", pl.v, pl.not_v);
                        into.lock().unwrap().push(pl.v);
                    }
                    Ok(None) => {}
                    Err(e) => ixmc::fail(format!("receive failed: receive returned {e:?}")),
                }
            }
        };
        let hs = {
            let got = got.clone();
            ixmc::spawn(move || {
                recv(&subscriber, &got, p.receives);
                subscriber
            })
        };
        let hl = if p.late_subscriber {
            let (service, got_late) = (service.clone(), got_late.clone());
            Some(ixmc::spawn(move || {
                let s = service.subscriber_builder().buffer_size(p.buffer).create().expect("late subscriber");
                recv(&s, &got_late, 1);
                s
            }))
        } else {
            None
        };
        let publisher = hp.join();
        let subscriber = hs.join();
        let late = hl.map(|h| h.join());
        // final drain
        recv(&subscriber, &got, p.sends + 2);
        if let Some(l) = &late {
            recv(l, &got_late, p.sends + 2);
        }
        let sent = sent.lock().unwrap().clone();
        let sent_values: Vec<u64> = sent.iter().map(|x| x.0).collect();
        let check_stream = |who: &str, got: &[u64], must_have_all_if_no_loss: bool| {
            // in order, no duplicates, nothing invented
            let mut idx = 0usize;
            for g in got {
                match sent_values[idx..].iter().position(|s| s == g) {
                    Some(pos) => idx += pos + 1,
                    None => {
                        ixmc::fail(format!(
                            "delivery order broken: {who} received {got:?} which is not an in-order, duplicate-free subsequence of the sent {sent_values:?}"
                        ));
                        return;
                    }
                }
            }
            if must_have_all_if_no_loss {
                if p.overflow {
                    // the newest min(sent, buffer) samples must have survived
                    let keep = p.buffer.min(sent_values.len());
                    let newest = &sent_values[sent_values.len() - keep..];
                    // the subscriber interleaved receives with sends, so it holds at least the newest ones
                    for v in newest {
                        if !got.contains(v) {
                            ixmc::fail(format!(
                                "overflow evicted a newest sample: {who} received {got:?}, sent {sent_values:?}, buffer {}: {v} must have survived",
                                p.buffer
                            ));
                        }
                    }
                } else {
                    // without overflow a sample is missing only if the send reported fewer recipients
                    let full: Vec<u64> = sent.iter().filter(|x| x.1 >= 1).map(|x| x.0).collect();
                    for v in &full {
                        if !got.contains(v) {
                            ixmc::fail(format!(
                                "sample lost without notice: send reported a recipient for {v} but {who} received only {got:?} (sent {sent:?})"
                            ));
                        }
                    }
                }
            }
        };
        let got_v = got.lock().unwrap().clone();
        check_stream("subscriber", &got_v, !p.late_subscriber);
        if p.late_subscriber {
            let gl = got_late.lock().unwrap().clone();
            check_stream("late subscriber", &gl, false);
            if !gl.is_empty() {
                ixmc::note("late-subscriber-received");
            }
        }
        if sent.iter().any(|x| x.1 == 0) {
            ixmc::note("send-without-recipient");
        }
        if got_v.len() < sent_values.len() {
            ixmc::note("sample-evicted-or-skipped");
        }
        if std::env::var("H_PSMT_DEBUG").is_ok() {
            eprintln!("OUT sent={sent:?} got={got_v:?} late={:?}", got_late.lock().unwrap());
        }
        ixmc::observe(ixmc::hash_of(&(sent, got_v, got_late.lock().unwrap().clone())));
        drop(late);
        drop(subscriber);
        drop(publisher);
    }
}

fn main() {
    set_log_level(LogLevel::Fatal);
    let mut cases = Vec::new();
    let cfg = ixmc::Config { post_load: false, cell_points: true, stale_reads: false, elide: true, horizon: 20000, states: false, ..ixmc::Config::default() };
    for (buffer, overflow, sends, receives, late, history) in [
        (1usize, true, 3usize, 2usize, false, 0usize),
        (2, true, 3, 2, false, 0),
        (1, false, 3, 2, false, 0),
        (2, false, 3, 3, false, 0),
        (2, true, 2, 1, true, 1),
        (1, false, 2, 1, true, 0),
    ] {
        let p = P { buffer, overflow, sends, receives, late_subscriber: late, history };
        cases.push(Case {
            name: format!("buffer{buffer}/overflow{overflow}/send{sends}/recv{receives}/late{late}/history{history}"),
            cfg: cfg.clone(),
            quick: if late { pb(&[(0, 0)]) } else { pb(&[(0, 0), (1, 0)]) },
            thorough: if late { pb(&[(0, 0), (1, 0)]) } else { pb(&[(0, 0), (1, 0), (2, 0)]) },
            split: (2, 8),
            body: Arc::new(body(p)),
            required_notes: if late { vec![] } else { vec!["sample-evicted-or-skipped"] },
        });
    }
    ixmc::coord::main("h_pubsub_mt", "C01", cases);
}
