//! Coordinator: fans the cases of one harness out over worker *processes* (iceoryx2 has process
//! global state, so concurrently explored executions must not share a process), merges the
//! results and writes the evidence part that `/verif/check` turns into `evidence/<id>.json`.

use std::collections::{BTreeMap, HashSet};
use std::io::{Read, Write};
use std::path::{Path, PathBuf};
use std::process::{Child, Command, Stdio};
use std::time::Instant;

use serde::{Deserialize, Serialize};
use serde_json::{json, Value};

use crate::explore::{self, Bounds, Limits, StageStats, ViolationRec};
use crate::rt::{self, Body, Config};

pub struct Case {
    pub name: String,
    pub cfg: Config,
    pub quick: Vec<Bounds>,
    pub thorough: Vec<Bounds>,
    /// number of worker processes the case is split over (quick, thorough)
    pub split: (u32, u32),
    pub body: Body,
    /// vacuity guard: each of these notes must have been recorded by at least one execution
    pub required_notes: Vec<&'static str>,
}

pub fn pb(list: &[(u32, u32)]) -> Vec<Bounds> {
    list.iter().map(|&(pb, sb)| Bounds { pb, sb }).collect()
}

#[derive(Serialize, Deserialize, Default)]
struct WorkerOut {
    case: usize,
    k: u32,
    stages: Vec<StageStats>,
    executions: u64,
    outcomes: Vec<u64>,
    notes: BTreeMap<String, u64>,
    violation: Option<ViolationRec>,
    transitions: u64,
    states: u64,
    states_capped: bool,
    timed_out: bool,
    non_elidable: Vec<u32>,
    restarts: u32,
    samples: Vec<Value>,
    #[serde(default)]
    known_hits: BTreeMap<String, (u64, ViolationRec)>,
}

#[derive(Serialize, Deserialize)]
pub struct ReplayFile {
    pub engine: String,
    pub harness: String,
    pub property: String,
    pub case: String,
    pub kind: String,
    pub message: String,
    pub choices: Vec<u32>,
    pub non_elidable: Vec<u32>,
    pub pb: u32,
    pub sb: u32,
}

struct Args {
    tier: String,
    out: Option<PathBuf>,
    replays: PathBuf,
    jobs: usize,
    budget: Option<f64>,
    job: Option<(usize, u32, u32)>,
    job_ne: Vec<u32>,
    job_first_stage_only: bool,
    replay: Option<PathBuf>,
    only: Option<String>,
    list: bool,
    known_file: Option<PathBuf>,
    prop: Option<String>,
}

fn parse_args() -> Args {
    let mut a = Args {
        tier: std::env::var("VERIF_TIER").unwrap_or_else(|_| "quick".into()),
        out: None,
        replays: PathBuf::from("/verif/replays"),
        jobs: std::thread::available_parallelism().map(|n| n.get()).unwrap_or(8),
        budget: None,
        job: None,
        job_ne: Vec::new(),
        job_first_stage_only: false,
        replay: None,
        only: None,
        list: false,
        known_file: None,
        prop: None,
    };
    let v: Vec<String> = std::env::args().skip(1).collect();
    let mut i = 0;
    while i < v.len() {
        match v[i].as_str() {
            "--tier" => {
                a.tier = v[i + 1].clone();
                i += 1;
            }
            "--out" => {
                a.out = Some(PathBuf::from(&v[i + 1]));
                i += 1;
            }
            "--replays" => {
                a.replays = PathBuf::from(&v[i + 1]);
                i += 1;
            }
            "--jobs" => {
                a.jobs = v[i + 1].parse().unwrap();
                i += 1;
            }
            "--budget" => {
                a.budget = Some(v[i + 1].parse().unwrap());
                i += 1;
            }
            "--job" => {
                a.job = Some((v[i + 1].parse().unwrap(), v[i + 2].parse().unwrap(), v[i + 3].parse().unwrap()));
                i += 3;
            }
            "--ne" => {
                a.job_ne = v[i + 1].split(',').filter(|s| !s.is_empty()).map(|s| s.parse().unwrap()).collect();
                i += 1;
            }
            "--first-stage-only" => a.job_first_stage_only = true,
            "--replay" => {
                a.replay = Some(PathBuf::from(&v[i + 1]));
                i += 1;
            }
            "--only" => {
                a.only = Some(v[i + 1].clone());
                i += 1;
            }
            "--list" => a.list = true,
            "--known-file" => {
                a.known_file = Some(PathBuf::from(&v[i + 1]));
                i += 1;
            }
            "--prop" => {
                a.prop = Some(v[i + 1].clone());
                i += 1;
            }
            other => rt::machinery_error(&format!("unknown argument {other}")),
        }
        i += 1;
    }
    a
}

/// signatures `harness|case|tag` with status "known" from known_findings.json
fn known_signatures(args: &Args, property: &str) -> Vec<String> {
    let Some(p) = &args.known_file else { return Vec::new() };
    let Ok(txt) = std::fs::read_to_string(p) else { return Vec::new() };
    let Ok(v) = serde_json::from_str::<Value>(&txt) else { return Vec::new() };
    v["findings"]
        .as_array()
        .map(|a| {
            a.iter()
                .filter(|f| f["status"] == "known" && f["property"] == property)
                .filter_map(|f| f["signature"].as_str().map(|s| s.to_string()))
                .collect()
        })
        .unwrap_or_default()
}


/// minimal glob: `*` matches any (possibly empty) substring; everything else is literal
pub fn glob_match(pat: &str, s: &str) -> bool {
    let parts: Vec<&str> = pat.split('*').collect();
    if parts.len() == 1 {
        return pat == s;
    }
    let mut pos = 0usize;
    for (i, p) in parts.iter().enumerate() {
        if i == 0 {
            if !s.starts_with(p) {
                return false;
            }
            pos = p.len();
        } else if i == parts.len() - 1 {
            return s.len() >= pos + p.len() && s[pos..].ends_with(p);
        } else {
            match s[pos..].find(p) {
                Some(j) => pos += j + p.len(),
                None => return false,
            }
        }
    }
    true
}


fn tier_budget(tier: &str) -> f64 {
    if tier == "thorough" {
        1200.0
    } else {
        45.0
    }
}

/// Entry point of every E1 harness binary.
pub fn main(harness: &str, property: &str, cases: Vec<Case>) -> ! {
    let args = parse_args();
    // a harness that serves a second property with a subset of its cases is started with
    // `--prop <id> --only <substring>`
    let property_owned = args.prop.clone().unwrap_or_else(|| property.to_string());
    let property = property_owned.as_str();
    if args.list {
        for (i, c) in cases.iter().enumerate() {
            println!("{i}\t{}", c.name);
        }
        std::process::exit(0);
    }
    if let Some(p) = &args.replay {
        std::process::exit(replay_main(harness, p, &cases));
    }
    if let Some((case, k, kk)) = args.job {
        let sigs = known_signatures(&args, property);
        let prefix = format!("{}|{}|", harness, cases[case].name);
        worker_main(&args, &cases[case], case, k, kk, (prefix, sigs));
    }
    std::process::exit(parent_main(harness, property, &args, &cases));
}

fn worker_main(args: &Args, case: &Case, idx: usize, k: u32, kk: u32, known: (String, Vec<String>)) -> ! {
    rt::init_session(3_000_000);
    let mut stages = if args.tier == "thorough" { case.thorough.clone() } else { case.quick.clone() };
    if args.job_first_stage_only {
        stages.truncate(1);
    }
    let budget = args.budget.unwrap_or_else(|| tier_budget(&args.tier));
    let limits = Limits { known_prefix: known.0, known_globs: known.1, deadline: explore::deadline_in(budget), worker: (k, kk) };
    let mut case_cfg = case.cfg.clone();
    if std::env::var("IXMC_NO_ELIDE").is_ok() {
        case_cfg.elide = false;
    }
    let r = explore::explore(&case_cfg, &stages, &limits, &args.job_ne, case.body.clone());
    let (nstates, transitions, capped) = rt::session_counts();
    let out = args.out.clone().expect("--out");
    // states file: sorted u64 LE
    {
        let sess = rt::take_session();
        let mut v: Vec<u64> = sess.states.into_iter().collect();
        v.sort_unstable();
        let mut f = std::io::BufWriter::new(std::fs::File::create(out.with_extension("states")).unwrap());
        for x in &v {
            f.write_all(&x.to_le_bytes()).unwrap();
        }
        f.flush().unwrap();
    }
    let mut outcomes: Vec<u64> = r.outcomes.iter().copied().collect();
    outcomes.sort_unstable();
    outcomes.truncate(200_000);
    let samples: Vec<Value> = r
        .samples
        .iter()
        .map(|(c, t)| {
            let head: Vec<String> = t
                .iter()
                .take(24)
                .map(|e| format!("T{} {} {} {:#x}->{:#x} {}", e.thread, e.op, e.loc, e.old, e.new, e.ord))
                .collect();
            let nondefault: Vec<(usize, u32)> = c.iter().enumerate().filter(|(_, x)| **x != 0).map(|(i, x)| (i, *x)).collect();
            json!({"case": case.name, "choice_points": c.len(), "non_default_choices(point,alt)": nondefault, "steps": t.len(), "step_log_head": head })
        })
        .collect();
    let fatal = r.violation.as_ref().map(|v| v.fatal).unwrap_or(false);
    let w = WorkerOut {
        case: idx,
        k,
        stages: r.stages,
        executions: r.executions,
        outcomes,
        notes: r.notes,
        violation: r.violation,
        transitions,
        states: nstates as u64,
        states_capped: capped,
        timed_out: r.timed_out,
        non_elidable: r.non_elidable,
        restarts: r.restarts,
        samples,
        known_hits: r.known_hits,
    };
    std::fs::write(&out, serde_json::to_vec(&w).unwrap()).unwrap();
    let _ = fatal;
    // parked model threads of a fatal execution may still exist: leave without running destructors
    unsafe { libc::_exit(0) }
}

fn replay_main(harness: &str, path: &Path, cases: &[Case]) -> i32 {
    let txt = match std::fs::read_to_string(path) {
        Ok(t) => t,
        Err(e) => rt::machinery_error(&format!("cannot read replay file {}: {e}", path.display())),
    };
    let rf: ReplayFile = match serde_json::from_str(&txt) {
        Ok(r) => r,
        Err(e) => rt::machinery_error(&format!("bad replay file: {e}")),
    };
    if rf.harness != harness {
        rt::machinery_error(&format!("replay file is for harness {}, this is {harness}", rf.harness));
    }
    let case = match cases.iter().find(|c| c.name == rf.case) {
        Some(c) => c,
        None => rt::machinery_error(&format!("unknown case {}", rf.case)),
    };
    rt::init_session(0);
    let mut cfg = case.cfg.clone();
    cfg.stale_reads = cfg.stale_reads && rf.sb > 0;
    cfg.states = false;
    {
        // same warm-up as the explorer
        let mut c = cfg.clone();
        c.states = false;
        let ne = std::sync::Arc::new(rf.non_elidable.iter().copied().collect::<HashSet<u32>>());
        let _ = rt::run_once(&c, &[], &[], &ne, &case.body);
        let _ = rt::run_once(&c, &[], &[], &ne, &case.body);
    }
    let r = explore::replay(&cfg, &rf.choices, &rf.non_elidable, case.body.clone());
    println!("replay of {} case {} ({} choices, {} steps)", harness, rf.case, rf.choices.len(), r.steps);
    for t in &r.trace {
        println!(
            "  step {:4} T{} {:10} {:10} old={:#x} new={:#x} {}",
            t.step, t.thread, t.op, t.loc, t.old, t.new, t.ord
        );
    }
    {
        let free = r.points.iter().filter(|p| p.alt_pre == 0 && p.alt_stale == 0).count();
        println!("choice points: {} (of which free: {})", r.points.len(), free);
        if std::env::var("IXMC_SHOW_POINTS").is_ok() {
            for (i, p) in r.points.iter().enumerate() {
                println!("  point {i}: kind {:?} n {} cost(pre {}, stale {}) chosen {}", p.kind, p.n, p.alt_pre, p.alt_stale, r.choices.get(i).copied().unwrap_or(0));
            }
        }
    }
    // The digest that two replays must agree on covers WHO did WHAT in which order (thread and
    // operation of every step) and the observable outcome, not the raw values moved by the atomic
    // operations: port-level harnesses store process ids and unique ids in atomics, which differ
    // between the replay processes although the execution is the same. The values are digested
    // separately for information.
    let (digest, value_digest) = {
        let mut h: u64 = 0;
        let mut hv: u64 = 0;
        for t in &r.trace {
            h = h.wrapping_mul(0x100000001b3) ^ (t.thread as u64);
            hv = hv.wrapping_mul(0x100000001b3) ^ (t.old << 8) ^ (t.new << 24);
            for b in t.op.bytes().chain(t.loc.bytes()) {
                h = h.wrapping_mul(0x100000001b3) ^ b as u64;
            }
        }
        (h, hv)
    };
    let code = match &r.failure {
        Some(f) => {
            println!("REPLAY-RESULT: failure {f:?}");
            1
        }
        None => {
            println!("REPLAY-RESULT: no failure");
            0
        }
    };
    println!("REPLAY-DIGEST: {digest:016x} outcome={:016x}", r.outcome);
    println!("REPLAY-VALUES: {value_digest:016x}");
    if r.fatal {
        unsafe { libc::_exit(code) }
    }
    code
}

struct Running {
    child: Child,
    case: usize,
    k: u32,
    out: PathBuf,
    learn: bool,
}

#[derive(Default)]
struct CaseAgg {
    outs: Vec<WorkerOut>,
    ne: Vec<u32>,
    learned: bool,
    rounds: u32,
}

fn parent_main(harness: &str, property: &str, args: &Args, cases: &[Case]) -> i32 {
    let t0 = Instant::now();
    let exe = std::env::current_exe().unwrap();
    let scratch = PathBuf::from(format!("/verif/.run/ixmc-{}-{}", harness, std::process::id()));
    std::fs::create_dir_all(&scratch).unwrap();
    let thorough = args.tier == "thorough";
    let selected: Vec<usize> = cases
        .iter()
        .enumerate()
        .filter(|(_, c)| args.only.as_ref().map(|o| c.name.contains(o.as_str())).unwrap_or(true))
        .map(|(i, _)| i)
        .collect();

    // job queue: (case, k, K, learn)
    let mut queue: std::collections::VecDeque<(usize, u32, u32, bool)> = Default::default();
    let mut agg: BTreeMap<usize, CaseAgg> = BTreeMap::new();
    for &i in &selected {
        agg.insert(i, CaseAgg::default());
        if cases[i].cfg.elide {
            queue.push_back((i, 0, 1, true));
        } else {
            let kk = if thorough { cases[i].split.1 } else { cases[i].split.0 }.max(1);
            for k in 0..kk {
                queue.push_back((i, k, kk, false));
            }
        }
    }
    let mut running: Vec<Running> = Vec::new();
    let mut machinery: Vec<String> = Vec::new();
    let mut violation: Option<(usize, ViolationRec, Vec<u32>)> = None;
    let budget = args.budget.unwrap_or_else(|| tier_budget(&args.tier));

    while !queue.is_empty() || !running.is_empty() {
        while running.len() < args.jobs && !queue.is_empty() && violation.is_none() {
            let (case, k, kk, learn) = queue.pop_front().unwrap();
            let out = scratch.join(format!("c{case}_k{k}_{}.json", if learn { "learn" } else { "run" }));
            let mut cmd = Command::new(&exe);
            cmd.arg("--job").arg(case.to_string()).arg(k.to_string()).arg(kk.to_string());
            cmd.arg("--tier").arg(&args.tier).arg("--out").arg(&out);
            cmd.arg("--budget").arg(budget.to_string());
            if let Some(kf) = &args.known_file {
                cmd.arg("--known-file").arg(kf);
            }
            if let Some(p) = &args.prop {
                cmd.arg("--prop").arg(p);
            }
            let ne = &agg[&case].ne;
            if !ne.is_empty() {
                cmd.arg("--ne").arg(ne.iter().map(|x| x.to_string()).collect::<Vec<_>>().join(","));
            }
            if learn {
                cmd.arg("--first-stage-only");
            }
            cmd.stdin(Stdio::null());
            match cmd.spawn() {
                Ok(child) => running.push(Running { child, case, k, out, learn }),
                Err(e) => machinery.push(format!("cannot spawn worker: {e}")),
            }
        }
        if violation.is_some() && !running.is_empty() {
            // a violation ends the run: stop the other workers
            for r in running.iter_mut() {
                let _ = r.child.kill();
                let _ = r.child.wait();
            }
            running.clear();
            queue.clear();
            break;
        }
        // wait for any child
        let mut finished: Vec<usize> = Vec::new();
        for (i, r) in running.iter_mut().enumerate() {
            if let Ok(Some(_st)) = r.child.try_wait() {
                finished.push(i);
            }
        }
        if finished.is_empty() {
            std::thread::sleep(std::time::Duration::from_millis(20));
            continue;
        }
        for &i in finished.iter().rev() {
            let mut r = running.remove(i);
            let st = r.child.wait().ok();
            let data = std::fs::read(&r.out).ok();
            let w: Option<WorkerOut> = data.and_then(|d| serde_json::from_slice(&d).ok());
            let w = match w {
                Some(w) => w,
                None => {
                    machinery.push(format!(
                        "worker for case {} ({}/{}) ended without a result (status {:?})",
                        cases[r.case].name, r.k, "?", st
                    ));
                    continue;
                }
            };
            let a = agg.get_mut(&r.case).unwrap();
            if let Some(v) = &w.violation {
                if violation.is_none() {
                    violation = Some((r.case, v.clone(), w.non_elidable.clone()));
                }
            }
            if r.learn {
                a.ne = w.non_elidable.clone();
                a.learned = true;
                if w.violation.is_none() {
                    let kk = if thorough { cases[r.case].split.1 } else { cases[r.case].split.0 }.max(1);
                    for k in 0..kk {
                        queue.push_back((r.case, k, kk, false));
                    }
                } else {
                    a.outs.push(w);
                }
                continue;
            }
            a.outs.push(w);
            let kk = if thorough { cases[r.case].split.1 } else { cases[r.case].split.0 }.max(1);
            if a.outs.len() as u32 == kk && cases[r.case].cfg.elide {
                // all workers must have explored under the same (stable) elision set
                let mut union: HashSet<u32> = a.ne.iter().copied().collect();
                let mut grew = false;
                for o in &a.outs {
                    for x in &o.non_elidable {
                        if union.insert(*x) {
                            grew = true;
                        }
                    }
                }
                if grew && a.rounds < 8 && violation.is_none() {
                    a.rounds += 1;
                    let mut v: Vec<u32> = union.into_iter().collect();
                    v.sort();
                    a.ne = v;
                    a.outs.clear();
                    for k in 0..kk {
                        queue.push_back((r.case, k, kk, false));
                    }
                } else if grew {
                    machinery.push(format!("elision set of case {} did not stabilise", cases[r.case].name));
                }
            }
        }
    }

    // ---- merge
    let mut total_exec = 0u64;
    let mut total_trans = 0u64;
    let mut total_states = 0u64;
    let mut all_complete = true;
    let mut case_rows: Vec<Value> = Vec::new();
    let mut samples: Vec<Value> = Vec::new();
    let mut total_outcomes = 0u64;
    let mut states_capped = false;
    let mut known_json: Vec<Value> = Vec::new();
    for (&ci, a) in &agg {
        let c = &cases[ci];
        let mut exec = 0u64;
        let mut outcomes: HashSet<u64> = HashSet::new();
        let mut notes: BTreeMap<String, u64> = BTreeMap::new();
        let mut stages: Vec<StageStats> = Vec::new();
        let mut states: Vec<u64> = Vec::new();
        let mut complete = !a.outs.is_empty();
        let mut known_here: BTreeMap<String, (u64, ViolationRec)> = BTreeMap::new();
        for o in &a.outs {
            for (tag, (n, v)) in &o.known_hits {
                let e = known_here.entry(tag.clone()).or_insert((0, v.clone()));
                e.0 += n;
                if v.choices.len() < e.1.choices.len() {
                    e.1 = v.clone();
                }
            }
        }
        for (tag, (n, v)) in &known_here {
            let dir = args.replays.join(property);
            let _ = std::fs::create_dir_all(&dir);
            let path = dir.join(format!("{harness}_known_{}_{}.json", sanitize(&c.name), sanitize(tag)));
            let rf = ReplayFile {
                engine: "ixmc".into(),
                harness: harness.into(),
                property: property.into(),
                case: c.name.clone(),
                kind: v.kind.clone(),
                message: v.message.clone(),
                choices: v.choices.clone(),
                non_elidable: a.ne.clone(),
                pb: v.pb,
                sb: v.sb,
            };
            let _ = std::fs::write(&path, serde_json::to_vec_pretty(&rf).unwrap());
            known_json.push(json!({
                "signature": format!("{}|{}|{}", harness, c.name, tag),
                "violating_schedules": n, "replay": path, "message": v.message,
            }));
        }
        for o in &a.outs {
            exec += o.executions;
            total_trans += o.transitions;
            states_capped |= o.states_capped;
            for x in &o.outcomes {
                outcomes.insert(*x);
            }
            for (k, v) in &o.notes {
                *notes.entry(k.clone()).or_insert(0) += v;
            }
            for (i, s) in o.stages.iter().enumerate() {
                if stages.len() <= i {
                    stages.push(StageStats { pb: s.pb, sb: s.sb, complete: true, ..Default::default() });
                }
                stages[i].executions += s.executions;
                stages[i].complete &= s.complete;
                stages[i].max_choice_points = stages[i].max_choice_points.max(s.max_choice_points);
                stages[i].max_steps = stages[i].max_steps.max(s.max_steps);
            }
            if o.timed_out {
                complete = false;
            }
            if samples.len() < 6 {
                for s in o.samples.iter().take(1) {
                    samples.push(s.clone());
                }
            }
            let sf = scratch.join(format!("c{ci}_k{}_run.states", o.k));
            if let Ok(mut f) = std::fs::File::open(&sf) {
                let mut buf = Vec::new();
                let _ = f.read_to_end(&mut buf);
                for ch in buf.chunks_exact(8) {
                    states.push(u64::from_le_bytes(ch.try_into().unwrap()));
                }
            }
        }
        let planned = if thorough { &c.thorough } else { &c.quick };
        if stages.len() < planned.len() {
            complete = false;
        }
        complete &= stages.iter().all(|s| s.complete);
        states.sort_unstable();
        states.dedup();
        let nstates = states.len() as u64;
        total_exec += exec;
        total_states += nstates;
        total_outcomes += outcomes.len() as u64;
        all_complete &= complete;
        let completed_bound = stages.iter().filter(|s| s.complete).last().map(|s| json!({"pb": s.pb, "sb": s.sb}));
        for n in &c.required_notes {
            if notes.get(*n).copied().unwrap_or(0) == 0 && violation.is_none() && !a.outs.is_empty() {
                machinery.push(format!(
                    "vacuity guard: case {} never exercised the collision '{}'",
                    c.name, n
                ));
            }
        }
        case_rows.push(json!({
            "case": c.name,
            "schedules": exec,
            "states": nstates,
            "distinct_outcomes": outcomes.len(),
            "collisions": notes,
            "stages": stages,
            "largest_completed_bound": completed_bound,
            "complete": complete,
            "elision_non_elidable": a.ne,
            "elision_rounds": a.rounds,
        }));
    }

    // ---- violation: write the replay artefact and confirm it twice
    let mut violations_json: Vec<Value> = Vec::new();
    let mut exit = 0;
    if let Some((ci, v, ne)) = &violation {
        let dir = args.replays.join(property);
        let _ = std::fs::create_dir_all(&dir);
        let mut n = 0;
        let path = loop {
            let p = dir.join(format!("{harness}_{n}.json"));
            if !p.exists() {
                break p;
            }
            n += 1;
        };
        let rf = ReplayFile {
            engine: "ixmc".into(),
            harness: harness.into(),
            property: property.into(),
            case: cases[*ci].name.clone(),
            kind: v.kind.clone(),
            message: v.message.clone(),
            choices: v.choices.clone(),
            non_elidable: ne.clone(),
            pb: v.pb,
            sb: v.sb,
        };
        std::fs::write(&path, serde_json::to_vec_pretty(&rf).unwrap()).unwrap();
        let mut digests = Vec::new();
        for _ in 0..2 {
            let o = Command::new(&exe).arg("--replay").arg(&path).output();
            match o {
                Ok(o) => {
                    let s = String::from_utf8_lossy(&o.stdout).to_string();
                    let res = s.lines().find(|l| l.starts_with("REPLAY-RESULT:")).unwrap_or("").to_string();
                    let dig = s.lines().find(|l| l.starts_with("REPLAY-DIGEST:")).unwrap_or("").to_string();
                    digests.push((o.status.code(), res, dig));
                }
                Err(e) => machinery.push(format!("cannot run replay: {e}")),
            }
        }
        let reproduced = digests.len() == 2 && digests[0] == digests[1] && digests[0].0 == Some(1);
        if reproduced {
            violations_json.push(json!({
                "harness": harness, "case": cases[*ci].name, "kind": v.kind, "message": v.message,
                "replay": path, "pb": v.pb, "sb": v.sb,
                "signature": format!("{}|{}|{}", harness, cases[*ci].name, explore::tag_of(&v.kind, &v.message)),
            }));
            exit = 1;
        } else {
            machinery.push(format!(
                "violation in case {} did not reproduce identically from its replay file {} ({:?})",
                cases[*ci].name,
                path.display(),
                digests
            ));
        }
    }
    if !machinery.is_empty() {
        exit = 2.max(exit);
        if exit == 1 {
            exit = 2;
        }
    }
    let part = json!({
        "engine": "ixmc",
        "harness": harness,
        "property": property,
        "tier": args.tier,
        "states": total_states,
        "states_capped": states_capped,
        "transitions": total_trans,
        "schedules": total_exec,
        "distinct_outcomes": total_outcomes,
        "exhaustive": all_complete && violation.is_none(),
        "cases": case_rows,
        "samples": samples,
        "violations": violations_json,
        "known_hits": known_json,
        "machinery_errors": machinery,
        "wall_s": t0.elapsed().as_secs_f64(),
    });
    if let Some(out) = &args.out {
        std::fs::write(out, serde_json::to_vec_pretty(&part).unwrap()).unwrap();
    } else {
        println!("{}", serde_json::to_string_pretty(&part).unwrap());
    }
    let _ = std::fs::remove_dir_all(&scratch);
    for m in &machinery {
        eprintln!("MACHINERY: {m}");
    }
    exit
}

fn sanitize(s: &str) -> String {
    s.chars().map(|c| if c.is_ascii_alphanumeric() || c == '-' || c == '_' { c } else { '_' }).collect()
}

/// strip numbers that vary between runs (addresses) from a failure message
pub fn normalise(m: &str) -> String {
    let mut out = String::new();
    let mut chars = m.chars().peekable();
    while let Some(c) = chars.next() {
        if c == '0' && chars.peek() == Some(&'x') {
            chars.next();
            while chars.peek().map(|c| c.is_ascii_hexdigit()).unwrap_or(false) {
                chars.next();
            }
            out.push_str("0x#");
        } else {
            out.push(c);
        }
    }
    out.chars().take(200).collect()
}
