//! Runtime of the controlled scheduler.
//!
//! Model threads are OS threads; only the one holding the *baton* (`Exec::current`) runs.  All
//! runtime state sits behind one std mutex (`RT`), per-thread condition variables hand the baton
//! over.  The hook table installed into the atomics drop-in routes every atomic operation and
//! every `UnsafeCell::get` of the code under test into [`hook_atomic`] / [`hook_cell`].
//!
//! The runtime never calls hooked primitives itself (std / core only).

use core::sync::atomic::Ordering;
use std::cell::Cell;
use std::collections::{HashMap, HashSet};
use std::sync::{Arc, Condvar, Mutex, MutexGuard};

use iceoryx2_pal_concurrency_sync::verif::{HookTable, Op, OpResult};

pub const MAX_THREADS: usize = 8;
const NO_TID: usize = usize::MAX;
const MAX_STALE_ALTS: usize = 3;
const MAX_PERIOD: usize = 6;
const LIVELOCK_OPS: u64 = 3000;
// A thread is parked as a spinner only after this many identical periods of change-free
// operations: bounded loops of the code under test re-read one location (a relocatable pointer's
// distance, a length) hundreds of times, and parking such a thread loses schedules.
const SPIN_PERIODS: usize = 150;

thread_local! {
    static TID: Cell<usize> = const { Cell::new(NO_TID) };
}

#[derive(Clone, Debug)]
pub struct Config {
    /// scheduling point after every atomic load / RMW / failed CAS
    pub post_load: bool,
    /// scheduling point at every `UnsafeCell::get`
    pub cell_points: bool,
    /// keep store histories and offer stale reads as (costed) choices
    pub stale_reads: bool,
    /// skip scheduling points on setup-named locations in `non_elidable`'s complement
    pub elide: bool,
    /// maximal number of executed hook steps of one execution
    pub horizon: u64,
    /// record a step log (replay / samples)
    pub trace: bool,
    /// record state signatures
    pub states: bool,
}

impl Default for Config {
    fn default() -> Self {
        Config {
            post_load: true,
            cell_points: true,
            stale_reads: false,
            elide: false,
            horizon: 5000,
            trace: false,
            states: true,
        }
    }
}

#[derive(Clone, Copy, Debug, PartialEq, Eq)]
pub enum PointKind {
    Sched,
    Stale,
    Choose,
}

#[derive(Clone, Debug)]
pub struct Point {
    pub n: u32,
    pub kind: PointKind,
    /// cost of taking an alternative (> 0) here
    pub alt_pre: u32,
    pub alt_stale: u32,
    pub sig: u64,
    /// cost consumed by the choices before this point
    pub cum_pre: u32,
    pub cum_stale: u32,
}

#[derive(Clone, Debug, PartialEq, Eq)]
pub enum Failure {
    /// harness oracle or panic inside the code under test
    Violation(String),
    Deadlock(String),
    Livelock(String),
    Horizon(String),
}

#[derive(Clone, Copy, PartialEq, Eq, Debug)]
enum Status {
    Runnable,
    BlockedJoin(usize),
    BlockedMutex(usize),
    Finished,
}

type View = Vec<u32>;

fn view_join(a: &mut View, b: &View) {
    if a.len() < b.len() {
        a.resize(b.len(), 0);
    }
    for (x, y) in a.iter_mut().zip(b.iter()) {
        if *y > *x {
            *x = *y;
        }
    }
}

fn view_get(v: &View, i: usize) -> u32 {
    v.get(i).copied().unwrap_or(0)
}

fn view_set(v: &mut View, i: usize, x: u32) {
    if v.len() <= i {
        v.resize(i + 1, 0);
    }
    v[i] = x;
}

struct ThreadState {
    status: Status,
    yielding: bool,
    spin_epoch: Option<u64>,
    /// set when the thread was re-enabled although it looks like a spinner (nobody else could
    /// run): no re-flagging until some memory location changes
    spin_immune_epoch: Option<u64>,
    nochange_ops: u64,
    recent: Vec<(usize, u8, u64)>,
    recent_epoch: u64,
    steps: u64,
    first_touch_ordinal: u32,
    view: View,
    acq_pending: View,
    rel_fence: Option<Arc<View>>,
    final_view: Option<View>,
}

impl ThreadState {
    fn new(view: View) -> Self {
        ThreadState {
            status: Status::Runnable,
            yielding: false,
            spin_epoch: None,
            spin_immune_epoch: None,
            nochange_ops: 0,
            recent: Vec::new(),
            recent_epoch: 0,
            steps: 0,
            first_touch_ordinal: 0,
            view,
            acq_pending: Vec::new(),
            rel_fence: None,
            final_view: None,
        }
    }
}

struct StoreRec {
    val: u64,
    view: Option<Arc<View>>,
}

struct Loc {
    id: usize,
    key: u64,
    setup_idx: Option<u32>,
    post_threads: u8,
    post_written: bool,
    is_cell: bool,
    stores: Vec<StoreRec>,
}

#[derive(Clone, Debug, serde::Serialize)]
pub struct TraceEntry {
    pub step: u64,
    pub thread: usize,
    pub op: String,
    pub loc: String,
    pub old: u64,
    pub new: u64,
    pub ord: String,
}

pub struct Exec {
    cfg: Config,
    threads: Vec<ThreadState>,
    current: usize,
    prefix: Vec<u32>,
    expect_sigs: Vec<u64>,
    pub choices: Vec<u32>,
    pub points: Vec<Point>,
    pre_used: u32,
    stale_used: u32,
    pub steps: u64,
    epoch: u64,
    locs: HashMap<usize, Loc>,
    n_locs: usize,
    setup_phase: bool,
    n_setup_locs: u32,
    sc_view: View,
    mutex_owner: HashMap<usize, usize>,
    mutex_view: HashMap<usize, View>,
    state_hash: u64,
    pub failure: Option<Failure>,
    aborting: bool,
    pub done: bool,
    pub fatal: bool,
    pub trace: Vec<TraceEntry>,
    pub outcome: u64,
    pub notes: Vec<&'static str>,
    /// setup indices of locations found to be shared+written (elision learning)
    pub conflicting: Vec<u32>,
    non_elidable: Arc<HashSet<u32>>,
}

pub struct Session {
    pub states: HashSet<u64>,
    pub states_capped: bool,
    pub max_states: usize,
    pub transitions: u64,
}

struct Rt {
    exec: Option<Box<Exec>>,
    session: Session,
}

static RT: Mutex<Option<Rt>> = Mutex::new(None);
static CVS: [Condvar; MAX_THREADS] = [const { Condvar::new() }; MAX_THREADS];
static DONE_CV: Condvar = Condvar::new();

static TABLE: HookTable = HookTable {
    atomic: hook_atomic,
    fence: hook_fence,
    cell: hook_cell,
};

fn lock_rt() -> MutexGuard<'static, Option<Rt>> {
    match RT.lock() {
        Ok(g) => g,
        Err(p) => p.into_inner(),
    }
}

pub fn machinery_error(msg: &str) -> ! {
    eprintln!("IXMC-MACHINERY-ERROR: {msg}");
    std::process::exit(2);
}

fn mix(mut x: u64) -> u64 {
    x ^= x >> 33;
    x = x.wrapping_mul(0xff51afd7ed558ccd);
    x ^= x >> 33;
    x = x.wrapping_mul(0xc4ceb9fe1a85ec53);
    x ^= x >> 33;
    x
}

fn h2(a: u64, b: u64) -> u64 {
    mix(a.wrapping_mul(0x9E3779B97F4A7C15) ^ mix(b))
}

pub fn init_session(max_states: usize) {
    let mut g = lock_rt();
    *g = Some(Rt {
        exec: None,
        session: Session {
            states: HashSet::new(),
            states_capped: false,
            max_states,
            transitions: 0,
        },
    });
    iceoryx2_pal_concurrency_sync::verif::install(&TABLE);
    let _ = crate::interpose::link_me();
    std::panic::set_hook(Box::new(|info| {
        // model-thread panics are captured by catch_unwind; keep stderr quiet for them
        if TID.with(|t| t.get()) == NO_TID && !in_explorer_quiet() {
            eprintln!("{info}");
        }
    }));
}

thread_local! {
    static QUIET: Cell<bool> = const { Cell::new(false) };
}
fn in_explorer_quiet() -> bool {
    QUIET.with(|q| q.get())
}

pub fn take_session() -> Session {
    let mut g = lock_rt();
    let rt = g.as_mut().expect("session");
    std::mem::replace(
        &mut rt.session,
        Session {
            states: HashSet::new(),
            states_capped: false,
            max_states: 0,
            transitions: 0,
        },
    )
}

pub fn session_counts() -> (usize, u64, bool) {
    let g = lock_rt();
    let rt = g.as_ref().expect("session");
    (
        rt.session.states.len(),
        rt.session.transitions,
        rt.session.states_capped,
    )
}

impl Exec {
    fn new(cfg: Config, prefix: Vec<u32>, expect_sigs: Vec<u64>, non_elidable: Arc<HashSet<u32>>) -> Self {
        Exec {
            cfg,
            threads: vec![ThreadState::new(Vec::new())],
            current: 0,
            prefix,
            expect_sigs,
            choices: Vec::new(),
            points: Vec::new(),
            pre_used: 0,
            stale_used: 0,
            steps: 0,
            epoch: 0,
            locs: HashMap::new(),
            n_locs: 0,
            setup_phase: true,
            n_setup_locs: 0,
            sc_view: Vec::new(),
            mutex_owner: HashMap::new(),
            mutex_view: HashMap::new(),
            state_hash: 0,
            failure: None,
            aborting: false,
            done: false,
            fatal: false,
            trace: Vec::new(),
            outcome: 0,
            notes: Vec::new(),
            conflicting: Vec::new(),
            non_elidable,
        }
    }

    fn enabled(&self, t: usize) -> bool {
        let th = &self.threads[t];
        th.status == Status::Runnable && th.spin_epoch.is_none()
    }

    fn fail(&mut self, f: Failure) {
        if self.failure.is_none() {
            self.failure = Some(f);
        }
        self.aborting = true;
    }

    fn describe_threads(&self) -> String {
        let mut s = String::new();
        for (i, t) in self.threads.iter().enumerate() {
            let st = match t.status {
                Status::BlockedMutex(_) => "BlockedOnMutex".to_string(),
                x => format!("{x:?}"),
            };
            s.push_str(&format!("T{i}:{st}{} ", if t.spin_epoch.is_some() { "(spinning)" } else { "" }));
        }
        s
    }

    /// Decide who runs next.  `None` = execution is over (done or fatal).
    /// `elidable`: the pending operation of `me` commutes with everything other threads do.
    fn schedule(&mut self, me: usize, elidable: bool, tag: u64) -> Option<usize> {
        let epoch = self.epoch;
        for t in self.threads.iter_mut() {
            if let Some(e) = t.spin_epoch {
                if e != epoch {
                    t.spin_epoch = None;
                }
            }
        }
        let n = self.threads.len();
        let me_enabled = self.enabled(me);
        let mut list: Vec<usize> = Vec::with_capacity(n);
        let free;
        if me_enabled && !self.threads[me].yielding {
            if elidable && !self.aborting {
                return Some(me);
            }
            list.push(me);
            for t in 0..n {
                if t != me && self.enabled(t) {
                    list.push(t);
                }
            }
            free = false;
        } else {
            for t in 0..n {
                if t != me && self.enabled(t) {
                    list.push(t);
                }
            }
            if me_enabled && list.is_empty() {
                // a yielding thread runs again only when nobody else can (re-running its
                // loop iteration from an unchanged state cannot produce anything new)
                list.push(me);
            }
            free = true;
        }
        if list.is_empty() {
            // only spinners, blocked or finished threads are left
            let mut spinners: Vec<usize> = Vec::new();
            if self.threads[me].status == Status::Runnable {
                spinners.push(me);
            }
            for t in 0..n {
                if t != me && self.threads[t].status == Status::Runnable {
                    spinners.push(t);
                }
            }
            if spinners.is_empty() {
                if self.threads.iter().all(|t| t.status == Status::Finished) {
                    self.done = true;
                    return None;
                }
                let d = self.describe_threads();
                self.fail(Failure::Deadlock(format!("no enabled thread: {d}")));
                self.done = true;
                self.fatal = true;
                return None;
            }
            // Nobody else can run.  What looks like a spin loop may be a bounded loop that re-reads
            // the same locations (e.g. a relocatable pointer inside an initialisation loop), so
            // the threads are re-enabled and not flagged again until something changes.  Only a
            // thread that then goes on for very long without any change is a livelock.
            let epoch = self.epoch;
            for &t in &spinners {
                if self.threads[t].spin_immune_epoch == Some(epoch) && self.threads[t].nochange_ops > LIVELOCK_OPS {
                    let d = self.describe_threads();
                    self.fail(Failure::Livelock(format!(
                        "only spinning threads are left and no memory location changes any more: {d}"
                    )));
                    self.done = true;
                    self.fatal = true;
                    return None;
                }
            }
            for &t in &spinners {
                self.threads[t].spin_epoch = None;
                if self.threads[t].spin_immune_epoch != Some(epoch) {
                    self.threads[t].spin_immune_epoch = Some(epoch);
                    self.threads[t].nochange_ops = 0;
                }
                self.threads[t].recent.clear();
            }
            list = spinners;
        }
        if self.aborting || list.len() == 1 {
            return Some(list[0]);
        }
        if free && std::env::var("IXMC_DEBUG_SCHED").is_ok() {
            eprintln!("free choice at step {}: me T{me} ({:?}, yielding {}) candidates {:?} tag {tag:#x}", self.steps, self.threads[me].status, self.threads[me].yielding, list);
        }
        let idx = self.choice_point(PointKind::Sched, list.len(), if free { 0 } else { 1 }, 0, {
            let mut s = h2(me as u64, tag);
            for &t in &list {
                s = h2(s, t as u64);
            }
            s
        });
        Some(list[idx])
    }

    fn choice_point(&mut self, kind: PointKind, n: usize, alt_pre: u32, alt_stale: u32, sig: u64) -> usize {
        let k = self.choices.len();
        let idx = if k < self.prefix.len() { self.prefix[k] as usize } else { 0 };
        let sig = h2(sig, (n as u64) << 8 | kind as u64);
        if idx >= n {
            machinery_error(&format!(
                "divergence while replaying: choice {idx} at point {k} but only {n} alternatives (kind {kind:?})"
            ));
        }
        if k < self.expect_sigs.len() && self.expect_sigs[k] != sig {
            machinery_error(&format!(
                "divergence while replaying: point {k} has a different shape than in the parent execution (kind {kind:?}, n {n})"
            ));
        }
        self.points.push(Point {
            n: n as u32,
            kind,
            alt_pre,
            alt_stale,
            sig,
            cum_pre: self.pre_used,
            cum_stale: self.stale_used,
        });
        self.choices.push(idx as u32);
        if idx > 0 {
            self.pre_used += alt_pre;
            self.stale_used += alt_stale;
        }
        idx
    }

    fn loc_entry(&mut self, me: usize, addr: usize, is_cell: bool) -> &mut Loc {
        if !self.locs.contains_key(&addr) {
            let id = self.n_locs;
            self.n_locs += 1;
            let (setup_idx, key) = if self.setup_phase {
                let i = self.n_setup_locs;
                self.n_setup_locs += 1;
                (Some(i), h2(0x5e70, i as u64))
            } else {
                let th = &mut self.threads[me];
                let o = th.first_touch_ordinal;
                th.first_touch_ordinal += 1;
                (None, h2(0x1000 + me as u64, o as u64))
            };
            self.locs.insert(
                addr,
                Loc {
                    id,
                    key,
                    setup_idx,
                    post_threads: 0,
                    post_written: false,
                    is_cell,
                    stores: Vec::new(),
                },
            );
        }
        self.locs.get_mut(&addr).unwrap()
    }

    /// bookkeeping of who touches what after the setup phase; returns whether a scheduling
    /// point before this access may be elided
    fn touch(&mut self, me: usize, addr: usize, is_cell: bool, writes: bool) -> bool {
        let setup = self.setup_phase;
        let elide = self.cfg.elide;
        let non_elidable = self.non_elidable.clone();
        let l = self.loc_entry(me, addr, is_cell);
        if setup {
            return true;
        }
        l.post_threads |= 1u8 << me;
        if writes {
            l.post_written = true;
        }
        let conflict = l.post_threads.count_ones() > 1 && l.post_written;
        match l.setup_idx {
            Some(i) => {
                if elide && conflict && !non_elidable.contains(&i) {
                    if !self.conflicting.contains(&i) {
                        self.conflicting.push(i);
                    }
                }
                elide && !non_elidable.contains(&i)
            }
            None => false,
        }
    }

    fn note_step(&mut self, me: usize, session: &mut Session) {
        self.steps += 1;
        let th = &mut self.threads[me];
        self.state_hash ^= h2(0x7000 + me as u64, th.steps) ^ h2(0x7000 + me as u64, th.steps + 1);
        th.steps += 1;
        th.yielding = false;
        session.transitions += 1;
        if self.cfg.states && !self.aborting {
            if session.states.len() < session.max_states {
                session.states.insert(self.state_hash);
            } else {
                session.states_capped = true;
            }
        }
    }
}

fn wait_for_baton(mut g: MutexGuard<'static, Option<Rt>>, me: usize) -> MutexGuard<'static, Option<Rt>> {
    loop {
        {
            let e = g.as_ref().unwrap().exec.as_ref().unwrap();
            if e.current == me {
                return g;
            }
        }
        g = match CVS[me].wait(g) {
            Ok(g) => g,
            Err(p) => p.into_inner(),
        };
    }
}

/// hand the baton to `next` (if different) and wait until it comes back
fn pass_baton(mut g: MutexGuard<'static, Option<Rt>>, me: usize, next: Option<usize>) -> Option<MutexGuard<'static, Option<Rt>>> {
    match next {
        None => {
            // execution over; wake the explorer. The caller must not touch the runtime again.
            DONE_CV.notify_all();
            let fatal = g.as_ref().unwrap().exec.as_ref().unwrap().fatal;
            if fatal {
                drop(g);
                // this thread can never continue consistently: park for ever
                TID.with(|t| t.set(NO_TID));
                loop {
                    std::thread::park();
                }
            }
            Some(g)
        }
        Some(n) if n == me => Some(g),
        Some(n) => {
            g.as_mut().unwrap().exec.as_mut().unwrap().current = n;
            CVS[n].notify_all();
            Some(wait_for_baton(g, me))
        }
    }
}

fn sched_point(me: usize, elidable: bool, tag: u64) {
    let mut g = lock_rt();
    let next = {
        let e = g.as_mut().unwrap().exec.as_mut().unwrap();
        if e.steps > e.cfg.horizon {
            let d = e.describe_threads();
            e.fail(Failure::Horizon(format!("step horizon {} exceeded: {d}", e.cfg.horizon)));
            e.done = true;
            e.fatal = true;
            None
        } else {
            e.schedule(me, elidable, tag)
        }
    };
    let _g = pass_baton(g, me, next);
}

fn ord_name(o: Ordering) -> &'static str {
    match o {
        Ordering::Relaxed => "rlx",
        Ordering::Acquire => "acq",
        Ordering::Release => "rel",
        Ordering::AcqRel => "acqrel",
        _ => "sc",
    }
}

fn is_acq(o: Ordering) -> bool {
    matches!(o, Ordering::Acquire | Ordering::AcqRel | Ordering::SeqCst)
}
fn is_rel(o: Ordering) -> bool {
    matches!(o, Ordering::Release | Ordering::AcqRel | Ordering::SeqCst)
}

unsafe fn mem_load(addr: *mut u8, width: u8) -> u64 {
    use core::sync::atomic::*;
    match width {
        1 => (*(addr as *const AtomicU8)).load(Ordering::SeqCst) as u64,
        2 => (*(addr as *const AtomicU16)).load(Ordering::SeqCst) as u64,
        4 => (*(addr as *const AtomicU32)).load(Ordering::SeqCst) as u64,
        _ => (*(addr as *const AtomicU64)).load(Ordering::SeqCst),
    }
}

unsafe fn mem_store(addr: *mut u8, width: u8, v: u64) {
    use core::sync::atomic::*;
    match width {
        1 => (*(addr as *const AtomicU8)).store(v as u8, Ordering::SeqCst),
        2 => (*(addr as *const AtomicU16)).store(v as u16, Ordering::SeqCst),
        4 => (*(addr as *const AtomicU32)).store(v as u32, Ordering::SeqCst),
        _ => (*(addr as *const AtomicU64)).store(v, Ordering::SeqCst),
    }
}

fn mask(width: u8) -> u64 {
    if width >= 8 {
        u64::MAX
    } else {
        (1u64 << (8 * width as u32)) - 1
    }
}

fn sext(v: u64, width: u8) -> i64 {
    match width {
        1 => v as u8 as i8 as i64,
        2 => v as u16 as i16 as i64,
        4 => v as u32 as i32 as i64,
        _ => v as i64,
    }
}

fn compute(op: Op, old: u64, a: u64, b: u64, width: u8) -> (u64, bool) {
    let m = mask(width);
    match op {
        Op::Load => (old, true),
        Op::Store | Op::Swap => (a & m, true),
        Op::Cas => {
            if old == (a & m) {
                (b & m, true)
            } else {
                (old, false)
            }
        }
        Op::Add => (old.wrapping_add(a) & m, true),
        Op::Sub => (old.wrapping_sub(a) & m, true),
        Op::And => (old & a & m, true),
        Op::Or => ((old | a) & m, true),
        Op::Xor => ((old ^ a) & m, true),
        Op::Nand => (!(old & a) & m, true),
        Op::MaxU => (old.max(a & m), true),
        Op::MinU => (old.min(a & m), true),
        Op::MaxS => {
            if sext(a, width) > sext(old, width) {
                (a & m, true)
            } else {
                (old, true)
            }
        }
        Op::MinS => {
            if sext(a, width) < sext(old, width) {
                (a & m, true)
            } else {
                (old, true)
            }
        }
    }
}

pub unsafe fn raw_op(addr: *mut u8, width: u8, op: Op, a: u64, b: u64) -> OpResult {
    // outside an execution: plain sequentially consistent operation
    use core::sync::atomic::*;
    macro_rules! doit {
        ($at:ident, $t:ty) => {{
            let x = &*(addr as *const $at);
            let a_ = a as $t;
            let b_ = b as $t;
            let o = Ordering::SeqCst;
            match op {
                Op::Load => OpResult { old: x.load(o) as u64, ok: true },
                Op::Store => {
                    x.store(a_, o);
                    OpResult { old: 0, ok: true }
                }
                Op::Swap => OpResult { old: x.swap(a_, o) as u64, ok: true },
                Op::Cas => match x.compare_exchange(a_, b_, o, o) {
                    Ok(v) => OpResult { old: v as u64, ok: true },
                    Err(v) => OpResult { old: v as u64, ok: false },
                },
                Op::Add => OpResult { old: x.fetch_add(a_, o) as u64, ok: true },
                Op::Sub => OpResult { old: x.fetch_sub(a_, o) as u64, ok: true },
                Op::And => OpResult { old: x.fetch_and(a_, o) as u64, ok: true },
                Op::Or => OpResult { old: x.fetch_or(a_, o) as u64, ok: true },
                Op::Xor => OpResult { old: x.fetch_xor(a_, o) as u64, ok: true },
                Op::Nand => OpResult { old: x.fetch_nand(a_, o) as u64, ok: true },
                Op::MaxU => OpResult { old: x.fetch_max(a_, o) as u64, ok: true },
                Op::MinU => OpResult { old: x.fetch_min(a_, o) as u64, ok: true },
                Op::MaxS | Op::MinS => {
                    let mut cur = x.load(o);
                    loop {
                        let (n, _) = compute(op, cur as u64, a, b, width);
                        match x.compare_exchange(cur, n as $t, o, o) {
                            Ok(v) => break OpResult { old: v as u64, ok: true },
                            Err(v) => cur = v,
                        }
                    }
                }
            }
        }};
    }
    match width {
        1 => doit!(AtomicU8, u8),
        2 => doit!(AtomicU16, u16),
        4 => doit!(AtomicU32, u32),
        _ => doit!(AtomicU64, u64),
    }
}

unsafe fn hook_atomic(addr: *mut u8, width: u8, op: Op, a: u64, b: u64, so: Ordering, fo: Ordering) -> OpResult {
    let me = TID.with(|t| t.get());
    if me == NO_TID {
        return raw_op(addr, width, op, a, b);
    }
    let writes = !matches!(op, Op::Load);
    // bookkeeping + scheduling point before the operation
    let elidable = {
        let mut g = lock_rt();
        let e = g.as_mut().unwrap().exec.as_mut().unwrap();
        e.touch(me, addr as usize, false, writes)
    };
    sched_point(me, elidable, op as u64);

    // we hold the baton: perform the operation
    let mut g = lock_rt();
    let rt = g.as_mut().unwrap();
    let e = rt.exec.as_mut().unwrap();
    let cur = mem_load(addr, width);
    let stale = e.cfg.stale_reads;
    let mut observed = cur;
    let loc_id;
    let loc_key;
    {
        let nthreads = e.threads.len();
        let l = e.locs.get_mut(&(addr as usize)).unwrap();
        loc_id = l.id;
        loc_key = l.key;
        if stale {
            if l.stores.last().map(|s| s.val) != Some(cur) {
                // first touch or modified by non-atomic means: nothing older may be observed
                l.stores.push(StoreRec { val: cur, view: None });
                let idx = (l.stores.len() - 1) as u32;
                for t in 0..nthreads {
                    view_set(&mut e.threads[t].view, loc_id, idx);
                }
            }
        }
    }
    if stale {
        // synchronisation on the way in
        let sc = so == Ordering::SeqCst || (op == Op::Load && fo == Ordering::SeqCst);
        if sc {
            let scv = e.sc_view.clone();
            view_join(&mut e.threads[me].view, &scv);
        }
        let latest = (e.locs[&(addr as usize)].stores.len() - 1) as u32;
        let mut read_idx = latest;
        if op == Op::Load && !e.aborting {
            let min = view_get(&e.threads[me].view, loc_id);
            if latest > min {
                let n = ((latest - min) as usize + 1).min(MAX_STALE_ALTS + 1);
                let k = e.choice_point(PointKind::Stale, n, 0, 1, h2(me as u64, 0x57a1e));
                read_idx = latest - k as u32;
            }
        }
        let (val, sview) = {
            let s = &e.locs[&(addr as usize)].stores[read_idx as usize];
            (s.val, s.view.clone())
        };
        observed = val;
        let (newv, ok) = compute(op, observed, a, b, width);
        let read_order = if op == Op::Cas && !ok { fo } else { so };
        view_set(&mut e.threads[me].view, loc_id, read_idx);
        if op != Op::Store {
            if let Some(sv) = &sview {
                if is_acq(read_order) {
                    view_join(&mut e.threads[me].view, sv);
                } else {
                    view_join(&mut e.threads[me].acq_pending, sv);
                }
            }
        }
        if writes && ok {
            let idx = latest + 1;
            view_set(&mut e.threads[me].view, loc_id, idx);
            let mut carried: Option<View> = None;
            if is_rel(so) {
                carried = Some(e.threads[me].view.clone());
            } else if let Some(rf) = &e.threads[me].rel_fence {
                carried = Some((**rf).clone());
            }
            if !matches!(op, Op::Store) {
                // RMW continues the release sequence of the store it read from
                if let Some(sv) = &sview {
                    match &mut carried {
                        Some(c) => view_join(c, sv),
                        None => carried = Some((**sv).clone()),
                    }
                }
            }
            let l = e.locs.get_mut(&(addr as usize)).unwrap();
            l.stores.push(StoreRec { val: newv, view: carried.map(Arc::new) });
        }
        if sc {
            let v = e.threads[me].view.clone();
            view_join(&mut e.sc_view, &v);
        }
    }
    let (newv, ok) = compute(op, observed, a, b, width);
    if writes && ok && newv != cur {
        mem_store(addr, width, newv);
        e.epoch += 1;
        e.state_hash ^= h2(loc_key, cur) ^ h2(loc_key, newv);
        e.threads[me].recent.clear();
        e.threads[me].nochange_ops = 0;
    } else if !e.setup_phase {
        // an operation that changed nothing: candidate for a spin iteration
        let epoch = e.epoch;
        let th = &mut e.threads[me];
        if th.recent_epoch != epoch {
            th.recent.clear();
            th.recent_epoch = epoch;
            th.nochange_ops = 0;
        }
        th.recent.push((addr as usize, op as u8, observed));
        th.nochange_ops += 1;
        let len = th.recent.len();
        if th.spin_immune_epoch != Some(epoch) {
            // SPIN_PERIODS identical periods in a row (the code under test re-reads cursor pairs
            // two or three times in a row in bounded, straight-line code: that is not spinning)
            for p in 1..=MAX_PERIOD {
                if len >= SPIN_PERIODS * p {
                    let last = &th.recent[len - p..];
                    if (2..=SPIN_PERIODS).all(|k| &th.recent[len - k * p..len - (k - 1) * p] == last) {
                        th.spin_epoch = Some(epoch);
                        break;
                    }
                }
            }
        } else if th.nochange_ops > LIVELOCK_OPS {
            // still no change after a very long time: let the scheduler look at it again
            th.spin_epoch = Some(epoch);
        }
        if th.recent.len() > 4 * SPIN_PERIODS * MAX_PERIOD {
            let cut = th.recent.len() - SPIN_PERIODS * MAX_PERIOD;
            th.recent.drain(..cut);
        }
    }
    if e.cfg.trace {
        let step = e.steps;
        e.trace.push(TraceEntry {
            step,
            thread: me,
            op: format!("{op:?}{}", if op == Op::Cas && !ok { "-fail" } else { "" }),
            loc: format!("L{loc_id}/w{width}"),
            old: observed,
            new: if writes && ok { newv } else { observed },
            ord: ord_name(so).to_string(),
        });
    }
    e.note_step(me, &mut rt.session);
    let post = e.cfg.post_load && !matches!(op, Op::Store) && !e.setup_phase;
    drop(g);
    if post {
        sched_point(me, false, 0x9057);
    }
    OpResult { old: observed, ok }
}

fn hook_fence(order: Ordering) {
    let me = TID.with(|t| t.get());
    if me == NO_TID {
        core::sync::atomic::fence(order);
        return;
    }
    core::sync::atomic::fence(Ordering::SeqCst);
    let mut g = lock_rt();
    let e = g.as_mut().unwrap().exec.as_mut().unwrap();
    if !e.cfg.stale_reads {
        return;
    }
    if is_acq(order) {
        let p = e.threads[me].acq_pending.clone();
        view_join(&mut e.threads[me].view, &p);
    }
    if order == Ordering::SeqCst {
        let scv = e.sc_view.clone();
        view_join(&mut e.threads[me].view, &scv);
        let v = e.threads[me].view.clone();
        view_join(&mut e.sc_view, &v);
    }
    if is_rel(order) {
        e.threads[me].rel_fence = Some(Arc::new(e.threads[me].view.clone()));
    }
}

fn hook_cell(addr: *const u8, _size: usize) {
    let me = TID.with(|t| t.get());
    if me == NO_TID {
        return;
    }
    let (elidable, do_point) = {
        let mut g = lock_rt();
        let rt = g.as_mut().unwrap();
        let e = rt.exec.as_mut().unwrap();
        if !e.cfg.cell_points || e.setup_phase {
            // still record the location name during setup so that names stay deterministic
            if e.setup_phase {
                e.touch(me, addr as usize, true, true);
            }
            (true, false)
        } else {
            let el = e.touch(me, addr as usize, true, true);
            (el, true)
        }
    };
    if do_point {
        sched_point(me, elidable, 0xce11);
        let mut g = lock_rt();
        let rt = g.as_mut().unwrap();
        let e = rt.exec.as_mut().unwrap();
        if e.cfg.trace {
            let step = e.steps;
            let id = e.locs[&(addr as usize)].id;
            e.trace.push(TraceEntry {
                step,
                thread: me,
                op: "CellGet".into(),
                loc: format!("L{id}"),
                old: 0,
                new: 0,
                ord: String::new(),
            });
        }
        // a cell access may write: it ends any spin-iteration signature of this thread
        e.threads[me].recent.clear();
        e.note_step(me, &mut rt.session);
    }
}

// ------------------------------------------------------------------------------------------
// OS thread pool: model thread i of every execution runs on pool thread i (thread creation
// dominated the cost of short executions)

type Job = Box<dyn FnOnce() + Send>;
static POOL: Mutex<Vec<Option<std::sync::mpsc::Sender<Job>>>> = Mutex::new(Vec::new());

/// after a fatal execution (deadlock, livelock, horizon) the pool threads that took part in it
/// are parked for ever: forget them, fresh ones are created on demand
pub fn abandon_pool() {
    let mut p = POOL.lock().unwrap();
    for s in p.iter_mut() {
        if let Some(tx) = s.take() {
            std::mem::forget(tx);
        }
    }
}

fn run_on_pool(tid: usize, job: Job) {
    let mut p = POOL.lock().unwrap();
    while p.len() <= tid {
        p.push(None);
    }
    if p[tid].is_none() {
        let (tx, rx) = std::sync::mpsc::channel::<Job>();
        std::thread::Builder::new()
            .name(format!("ixmc-T{tid}"))
            .stack_size(8 << 20)
            .spawn(move || {
                for job in rx {
                    job();
                }
            })
            .expect("spawn OS thread");
        p[tid] = Some(tx);
    }
    p[tid].as_ref().unwrap().send(job).expect("pool thread alive");
}

// ------------------------------------------------------------------------------------------
// API for harness bodies

pub struct JoinHandle<T> {
    tid: usize,
    slot: Arc<Mutex<Option<T>>>,
}

fn finish_thread(me: usize, panic_msg: Option<String>) {
    let mut g = lock_rt();
    let next = {
        let e = g.as_mut().unwrap().exec.as_mut().unwrap();
        if let Some(m) = panic_msg {
            e.fail(Failure::Violation(m));
        }
        e.threads[me].status = Status::Finished;
        let v = std::mem::take(&mut e.threads[me].view);
        e.threads[me].final_view = Some(v);
        for t in 0..e.threads.len() {
            if e.threads[t].status == Status::BlockedJoin(me) {
                e.threads[t].status = Status::Runnable;
            }
        }
        e.schedule(me, false, 0xf1)
    };
    TID.with(|t| t.set(NO_TID));
    match next {
        None => {
            DONE_CV.notify_all();
        }
        Some(n) => {
            g.as_mut().unwrap().exec.as_mut().unwrap().current = n;
            CVS[n].notify_all();
        }
    }
    drop(g);
}

fn panic_message(p: Box<dyn std::any::Any + Send>) -> String {
    if let Some(s) = p.downcast_ref::<&str>() {
        s.to_string()
    } else if let Some(s) = p.downcast_ref::<String>() {
        s.clone()
    } else {
        "panic with non-string payload".to_string()
    }
}

fn thread_main<T: Send + 'static>(tid: usize, slot: Arc<Mutex<Option<T>>>, f: Box<dyn FnOnce() -> T + Send>) {
    TID.with(|t| t.set(tid));
    {
        let g = lock_rt();
        let _g = wait_for_baton(g, tid);
    }
    let r = std::panic::catch_unwind(std::panic::AssertUnwindSafe(f));
    match r {
        Ok(v) => {
            *slot.lock().unwrap() = Some(v);
            finish_thread(tid, None);
        }
        Err(p) => {
            let m = panic_message(p);
            if m == ABORT_MARKER {
                finish_thread(tid, None);
            } else {
                finish_thread(tid, Some(format!("panic in model thread T{tid}: {m}")));
            }
        }
    }
}

const ABORT_MARKER: &str = "ixmc: joined thread did not produce a value";

pub fn spawn<T: Send + 'static, F: FnOnce() -> T + Send + 'static>(f: F) -> JoinHandle<T> {
    let me = TID.with(|t| t.get());
    assert!(me != NO_TID, "ixmc::spawn outside of a model execution");
    let slot = Arc::new(Mutex::new(None));
    let slot2 = slot.clone();
    let mut g = lock_rt();
    let e = g.as_mut().unwrap().exec.as_mut().unwrap();
    let tid = e.threads.len();
    assert!(tid < MAX_THREADS, "too many model threads");
    e.setup_phase = false;
    let view = e.threads[me].view.clone();
    e.threads.push(ThreadState::new(view));
    drop(g);
    run_on_pool(tid, Box::new(move || thread_main(tid, slot2, Box::new(f))));
    JoinHandle { tid, slot }
}

impl<T> JoinHandle<T> {
    pub fn join(self) -> T {
        let me = TID.with(|t| t.get());
        let mut g = lock_rt();
        let finished = g.as_ref().unwrap().exec.as_ref().unwrap().threads[self.tid].status == Status::Finished;
        if !finished {
            let next = {
                let e = g.as_mut().unwrap().exec.as_mut().unwrap();
                e.threads[me].status = Status::BlockedJoin(self.tid);
                e.schedule(me, false, 0x101)
            };
            g = pass_baton(g, me, next).unwrap();
        }
        {
            let e = g.as_mut().unwrap().exec.as_mut().unwrap();
            if let Some(fv) = e.threads[self.tid].final_view.clone() {
                view_join(&mut e.threads[me].view, &fv);
            }
        }
        drop(g);
        let v = self.slot.lock().unwrap().take();
        match v {
            Some(v) => v,
            None => std::panic::panic_any(ABORT_MARKER.to_string()),
        }
    }
}

// ------------------------------------------------------------------------------------------
// pthread mutexes (called from `interpose`)

/// Scheduling point before a lock attempt.  With `block` the calling thread waits (disabled)
/// until the mutex is free and then owns it (returns true); without, returns whether it got it.
pub fn mutex_lock(addr: usize, block: bool) -> bool {
    let me = TID.with(|t| t.get());
    {
        let mut g = lock_rt();
        let e = g.as_mut().unwrap().exec.as_mut().unwrap();
        e.touch(me, addr, false, true);
    }
    sched_point(me, false, 0x10c4);
    loop {
        let mut g = lock_rt();
        let rt = g.as_mut().unwrap();
        let e = rt.exec.as_mut().unwrap();
        match e.mutex_owner.get(&addr).copied() {
            None => {
                e.mutex_owner.insert(addr, me);
                if let Some(v) = e.mutex_view.get(&addr).cloned() {
                    view_join(&mut e.threads[me].view, &v);
                }
                e.epoch += 1;
                e.threads[me].recent.clear();
                if e.cfg.trace {
                    let step = e.steps;
                    e.trace.push(TraceEntry { step, thread: me, op: "MutexLock".into(), loc: format!("M{:x}", addr & 0xfff), old: 0, new: 1, ord: String::new() });
                }
                e.note_step(me, &mut rt.session);
                return true;
            }
            Some(o) if o == me => {
                // recursive / error-checking mutex: let the real function decide
                return true;
            }
            Some(_) => {
                if !block {
                    e.note_step(me, &mut rt.session);
                    return false;
                }
                e.threads[me].status = Status::BlockedMutex(addr);
                let next = e.schedule(me, false, 0xb10c);
                let _g = pass_baton(g, me, next);
                // woken up: the mutex was released, try again
            }
        }
    }
}

pub fn mutex_lock_failed(addr: usize) {
    let me = TID.with(|t| t.get());
    let mut g = lock_rt();
    let e = g.as_mut().unwrap().exec.as_mut().unwrap();
    if e.mutex_owner.get(&addr) == Some(&me) {
        e.mutex_owner.remove(&addr);
    }
}

/// scheduling point before an unlock
pub fn mutex_unlock_point(addr: usize) {
    let me = TID.with(|t| t.get());
    {
        let mut g = lock_rt();
        let e = g.as_mut().unwrap().exec.as_mut().unwrap();
        e.touch(me, addr, false, true);
    }
    sched_point(me, false, 0x0c4);
}

pub fn mutex_unlocked(addr: usize) {
    let me = TID.with(|t| t.get());
    let mut g = lock_rt();
    let rt = g.as_mut().unwrap();
    let e = rt.exec.as_mut().unwrap();
    if e.mutex_owner.get(&addr) == Some(&me) {
        e.mutex_owner.remove(&addr);
    }
    let v = e.threads[me].view.clone();
    e.mutex_view.insert(addr, v);
    for t in 0..e.threads.len() {
        if e.threads[t].status == Status::BlockedMutex(addr) {
            e.threads[t].status = Status::Runnable;
        }
    }
    e.epoch += 1;
    if e.cfg.trace {
        let step = e.steps;
        e.trace.push(TraceEntry { step, thread: me, op: "MutexUnlock".into(), loc: format!("M{:x}", addr & 0xfff), old: 1, new: 0, ord: String::new() });
    }
    e.note_step(me, &mut rt.session);
}

/// explicit scheduling point (e.g. between the two halves of a user-side write)
pub fn step() {
    let me = TID.with(|t| t.get());
    if me == NO_TID {
        return;
    }
    {
        let g = lock_rt();
        if g.as_ref().unwrap().exec.as_ref().unwrap().setup_phase {
            return;
        }
    }
    sched_point(me, false, 0x57e9);
    let mut g = lock_rt();
    let rt = g.as_mut().unwrap();
    let e = rt.exec.as_mut().unwrap();
    e.threads[me].recent.clear();
    e.note_step(me, &mut rt.session);
}

/// cooperative yield: other threads run first (free switch)
pub fn yield_now() {
    let me = TID.with(|t| t.get());
    if me == NO_TID {
        std::thread::yield_now();
        return;
    }
    {
        let mut g = lock_rt();
        let e = g.as_mut().unwrap().exec.as_mut().unwrap();
        if e.setup_phase {
            return;
        }
        e.threads[me].yielding = true;
        // a loop that yields explicitly is rescheduled only after somebody else has run: it is
        // not a spin loop, its repeated observations must not be taken for one
        e.threads[me].recent.clear();
        e.threads[me].nochange_ops = 0;
    }
    sched_point(me, false, 0x71e1d);
    let mut g = lock_rt();
    let rt = g.as_mut().unwrap();
    let e = rt.exec.as_mut().unwrap();
    e.note_step(me, &mut rt.session);
}

/// harness nondeterminism: returns a value in 0..n, every value is explored
pub fn choose(n: usize) -> usize {
    let me = TID.with(|t| t.get());
    assert!(me != NO_TID);
    if n <= 1 {
        return 0;
    }
    let mut g = lock_rt();
    let e = g.as_mut().unwrap().exec.as_mut().unwrap();
    if e.aborting {
        return 0;
    }
    e.choice_point(PointKind::Choose, n, 0, 0, h2(me as u64, 0xc005e))
}

/// report a property violation found by a harness oracle
pub fn fail(msg: String) {
    let mut g = lock_rt();
    if let Some(e) = g.as_mut().unwrap().exec.as_mut() {
        e.fail(Failure::Violation(msg));
    }
}

/// fold an observation into the outcome signature of this execution (vacuity guard)
pub fn observe(x: u64) {
    let mut g = lock_rt();
    if let Some(e) = g.as_mut().unwrap().exec.as_mut() {
        e.outcome = h2(e.outcome, x);
    }
}

/// count an execution as having exercised the named interesting collision
pub fn note(tag: &'static str) {
    let mut g = lock_rt();
    if let Some(e) = g.as_mut().unwrap().exec.as_mut() {
        if !e.notes.contains(&tag) {
            e.notes.push(tag);
        }
    }
}

/// whether this execution explores stale reads (weak-memory stage)
pub fn stale_enabled() -> bool {
    let g = lock_rt();
    g.as_ref().and_then(|r| r.exec.as_ref()).map(|e| e.cfg.stale_reads).unwrap_or(false)
}

pub fn in_model() -> bool {
    TID.with(|t| t.get()) != NO_TID
}

pub fn current_thread() -> usize {
    TID.with(|t| t.get())
}

// ------------------------------------------------------------------------------------------
// one execution

pub struct ExecResult {
    pub choices: Vec<u32>,
    pub points: Vec<Point>,
    pub steps: u64,
    pub failure: Option<Failure>,
    pub fatal: bool,
    pub trace: Vec<TraceEntry>,
    pub outcome: u64,
    pub notes: Vec<&'static str>,
    pub conflicting: Vec<u32>,
}

pub type Body = Arc<dyn Fn() + Send + Sync + 'static>;

pub fn run_once(
    cfg: &Config,
    prefix: &[u32],
    expect_sigs: &[u64],
    non_elidable: &Arc<HashSet<u32>>,
    body: &Body,
) -> ExecResult {
    crate::interpose::reset_virtual_clock();
    {
        let mut g = lock_rt();
        let rt = g.as_mut().expect("ixmc::init_session not called");
        rt.exec = Some(Box::new(Exec::new(
            cfg.clone(),
            prefix.to_vec(),
            expect_sigs.to_vec(),
            non_elidable.clone(),
        )));
    }
    let slot = Arc::new(Mutex::new(None));
    let b = body.clone();
    run_on_pool(0, Box::new(move || thread_main(0, slot, Box::new(move || (b)()))));
    let mut g = lock_rt();
    loop {
        if g.as_ref().unwrap().exec.as_ref().unwrap().done {
            break;
        }
        g = match DONE_CV.wait(g) {
            Ok(g) => g,
            Err(p) => p.into_inner(),
        };
    }
    let mut e = g.as_mut().unwrap().exec.take().unwrap();
    drop(g);
    if prefix.len() > e.choices.len() && e.failure.is_none() {
        machinery_error(&format!(
            "divergence while replaying: execution ended after {} choice points, prefix has {}",
            e.choices.len(),
            prefix.len()
        ));
    }
    ExecResult {
        choices: std::mem::take(&mut e.choices),
        points: std::mem::take(&mut e.points),
        steps: e.steps,
        failure: e.failure.take(),
        fatal: e.fatal,
        trace: std::mem::take(&mut e.trace),
        outcome: e.outcome,
        notes: std::mem::take(&mut e.notes),
        conflicting: std::mem::take(&mut e.conflicting),
    }
}
