//! Link-time interposition of the libc primitives that iceoryx2 uses to block or to read time.
//!
//! The definitions below are strong symbols of the harness executable and therefore win over
//! libc.so for every reference in the process.  Outside a model execution (or on threads that are
//! not model threads) they forward to the real functions (`dlsym(RTLD_NEXT)`).  Inside:
//!
//! * `pthread_mutex_lock/trylock/timedlock/unlock` – the scheduler knows the owner of every mutex;
//!   a thread whose mutex is held is *blocked* (not enabled) instead of really blocking while it
//!   holds the baton; lock and unlock are scheduling points and release/acquire edges.
//! * `sched_yield`, `nanosleep`, `clock_nanosleep` – cooperative yield; sleeping advances the
//!   virtual clock by the requested time.
//! * `clock_gettime` – virtual clock (deterministic; advances a little on every query so that
//!   polling loops with a time-out terminate).

#![allow(clippy::missing_safety_doc)]

use libc::{c_int, c_void, clockid_t, pthread_mutex_t, timespec};
use std::sync::atomic::{AtomicU64, AtomicUsize, Ordering};

use crate::rt;

fn real(name: &'static [u8], slot: &AtomicUsize) -> usize {
    let mut p = slot.load(Ordering::Relaxed);
    if p == 0 {
        p = unsafe { libc::dlsym(libc::RTLD_NEXT, name.as_ptr() as *const libc::c_char) } as usize;
        if p == 0 {
            rt::machinery_error("dlsym(RTLD_NEXT) failed for an interposed libc function");
        }
        slot.store(p, Ordering::Relaxed);
    }
    p
}

macro_rules! real_fn {
    ($name:literal, $ty:ty) => {{
        static SLOT: AtomicUsize = AtomicUsize::new(0);
        let p = real(concat!($name, "\0").as_bytes(), &SLOT);
        unsafe { std::mem::transmute::<usize, $ty>(p) }
    }};
}

type MtxFn = unsafe extern "C" fn(*mut pthread_mutex_t) -> c_int;
type MtxTimedFn = unsafe extern "C" fn(*mut pthread_mutex_t, *const timespec) -> c_int;

#[no_mangle]
pub unsafe extern "C" fn pthread_mutex_lock(m: *mut pthread_mutex_t) -> c_int {
    if !rt::in_model() {
        return real_fn!("pthread_mutex_lock", MtxFn)(m);
    }
    rt::mutex_lock(m as usize, true);
    let r = real_fn!("pthread_mutex_trylock", MtxFn)(m);
    if r != 0 {
        rt::mutex_lock_failed(m as usize);
    }
    r
}

#[no_mangle]
pub unsafe extern "C" fn pthread_mutex_trylock(m: *mut pthread_mutex_t) -> c_int {
    if !rt::in_model() {
        return real_fn!("pthread_mutex_trylock", MtxFn)(m);
    }
    if !rt::mutex_lock(m as usize, false) {
        return libc::EBUSY;
    }
    let r = real_fn!("pthread_mutex_trylock", MtxFn)(m);
    if r != 0 {
        rt::mutex_lock_failed(m as usize);
    }
    r
}

#[no_mangle]
pub unsafe extern "C" fn pthread_mutex_timedlock(m: *mut pthread_mutex_t, t: *const timespec) -> c_int {
    if !rt::in_model() {
        return real_fn!("pthread_mutex_timedlock", MtxTimedFn)(m, t);
    }
    // modelled as a blocking lock: a time-out can only fire if the holder never releases, which
    // the scheduler reports as a deadlock
    rt::mutex_lock(m as usize, true);
    let r = real_fn!("pthread_mutex_trylock", MtxFn)(m);
    if r != 0 {
        rt::mutex_lock_failed(m as usize);
    }
    r
}

#[no_mangle]
pub unsafe extern "C" fn pthread_mutex_unlock(m: *mut pthread_mutex_t) -> c_int {
    if !rt::in_model() {
        return real_fn!("pthread_mutex_unlock", MtxFn)(m);
    }
    rt::mutex_unlock_point(m as usize);
    let r = real_fn!("pthread_mutex_unlock", MtxFn)(m);
    rt::mutex_unlocked(m as usize);
    r
}

#[no_mangle]
pub unsafe extern "C" fn sched_yield() -> c_int {
    if !rt::in_model() {
        type F = unsafe extern "C" fn() -> c_int;
        return real_fn!("sched_yield", F)();
    }
    rt::yield_now();
    0
}

static VCLOCK_NS: AtomicU64 = AtomicU64::new(1_000_000_000_000);

pub fn reset_virtual_clock() {
    VCLOCK_NS.store(1_000_000_000_000, Ordering::SeqCst);
}

fn advance(ns: u64) -> u64 {
    VCLOCK_NS.fetch_add(ns, Ordering::SeqCst) + ns
}

#[no_mangle]
pub unsafe extern "C" fn nanosleep(req: *const timespec, rem: *mut timespec) -> c_int {
    if !rt::in_model() {
        type F = unsafe extern "C" fn(*const timespec, *mut timespec) -> c_int;
        return real_fn!("nanosleep", F)(req, rem);
    }
    if !req.is_null() {
        advance((*req).tv_sec as u64 * 1_000_000_000 + (*req).tv_nsec as u64);
    }
    rt::yield_now();
    0
}

#[no_mangle]
pub unsafe extern "C" fn clock_nanosleep(clk: clockid_t, flags: c_int, req: *const timespec, rem: *mut timespec) -> c_int {
    if !rt::in_model() {
        type F = unsafe extern "C" fn(clockid_t, c_int, *const timespec, *mut timespec) -> c_int;
        return real_fn!("clock_nanosleep", F)(clk, flags, req, rem);
    }
    if !req.is_null() {
        let t = (*req).tv_sec as u64 * 1_000_000_000 + (*req).tv_nsec as u64;
        if flags & libc::TIMER_ABSTIME != 0 {
            let now = VCLOCK_NS.load(Ordering::SeqCst);
            if t > now {
                advance(t - now);
            }
        } else {
            advance(t);
        }
    }
    rt::yield_now();
    0
}

#[no_mangle]
pub unsafe extern "C" fn clock_gettime(clk: clockid_t, tp: *mut timespec) -> c_int {
    if !rt::in_model() {
        type F = unsafe extern "C" fn(clockid_t, *mut timespec) -> c_int;
        return real_fn!("clock_gettime", F)(clk, tp);
    }
    // every query moves time on by 10 µs: polling loops with a time-out terminate, and two
    // executions with the same schedule see the same times
    let now = advance(10_000);
    if !tp.is_null() {
        (*tp).tv_sec = (now / 1_000_000_000) as libc::time_t;
        (*tp).tv_nsec = (now % 1_000_000_000) as libc::c_long;
    }
    0
}

/// referenced from `rt` so that the object file (and with it the interposing symbols) is always
/// linked into the harness executable
pub fn link_me() -> *const c_void {
    pthread_mutex_lock as *const c_void
}
