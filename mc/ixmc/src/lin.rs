//! Brute-force linearizability check for short histories.

use std::collections::HashSet;
use std::hash::Hash;

#[derive(Clone, Debug)]
pub struct Ev<O> {
    pub thread: usize,
    pub call: u64,
    pub ret: u64,
    /// operation *including its observed result*
    pub op: O,
}

/// `step(state, op)` returns the successor state if `op` (with the result it observed) is legal
/// in `state` according to the sequential specification, `None` otherwise.
pub fn linearizable<S: Clone + Eq + Hash, O>(init: S, evs: &[Ev<O>], step: &dyn Fn(&S, &O) -> Option<S>) -> bool {
    assert!(evs.len() <= 24);
    let mut seen: HashSet<(u32, S)> = HashSet::new();
    rec(init, 0, evs, step, &mut seen)
}

/// Sequential consistency instead of linearizability: the order must respect each thread's
/// program order and `hb(a, b)` (happens-before edges the harness knows about, e.g. spawn and
/// join), but *not* the real-time order between unrelated threads.  This is the oracle for
/// executions with stale reads: C11 does not promise that a load observes a store just because
/// the store returned earlier in wall-clock time.
pub fn sequentially_consistent<S: Clone + Eq + Hash, O>(
    init: S,
    evs: &[Ev<O>],
    step: &dyn Fn(&S, &O) -> Option<S>,
    hb: &dyn Fn(&Ev<O>, &Ev<O>) -> bool,
) -> bool {
    assert!(evs.len() <= 24);
    let mut seen: HashSet<(u32, S)> = HashSet::new();
    rec_sc(init, 0, evs, step, hb, &mut seen)
}

fn rec_sc<S: Clone + Eq + Hash, O>(
    st: S,
    done: u32,
    evs: &[Ev<O>],
    step: &dyn Fn(&S, &O) -> Option<S>,
    hb: &dyn Fn(&Ev<O>, &Ev<O>) -> bool,
    seen: &mut HashSet<(u32, S)>,
) -> bool {
    if done.count_ones() as usize == evs.len() {
        return true;
    }
    if !seen.insert((done, st.clone())) {
        return false;
    }
    for (i, e) in evs.iter().enumerate() {
        if done & (1 << i) != 0 {
            continue;
        }
        let blocked = evs.iter().enumerate().any(|(j, o)| {
            j != i && done & (1 << j) == 0 && ((o.thread == e.thread && o.call < e.call) || hb(o, e))
        });
        if blocked {
            continue;
        }
        if let Some(ns) = step(&st, &e.op) {
            if rec_sc(ns, done | (1 << i), evs, step, hb, seen) {
                return true;
            }
        }
    }
    false
}

fn rec<S: Clone + Eq + Hash, O>(
    st: S,
    done: u32,
    evs: &[Ev<O>],
    step: &dyn Fn(&S, &O) -> Option<S>,
    seen: &mut HashSet<(u32, S)>,
) -> bool {
    if done.count_ones() as usize == evs.len() {
        return true;
    }
    if !seen.insert((done, st.clone())) {
        return false;
    }
    // an event may be linearised next iff no other pending event returned before it was called
    let min_ret = evs
        .iter()
        .enumerate()
        .filter(|(i, _)| done & (1 << i) == 0)
        .map(|(_, e)| e.ret)
        .min()
        .unwrap();
    for (i, e) in evs.iter().enumerate() {
        if done & (1 << i) != 0 || e.call > min_ret {
            continue;
        }
        if let Some(ns) = step(&st, &e.op) {
            if rec(ns, done | (1 << i), evs, step, seen) {
                return true;
            }
        }
    }
    false
}

/// records call/return histories from several model threads
pub struct Recorder<O> {
    evs: std::sync::Mutex<Vec<Ev<O>>>,
}

impl<O: Clone> Default for Recorder<O> {
    fn default() -> Self {
        Self::new()
    }
}

impl<O: Clone> Recorder<O> {
    pub fn new() -> Self {
        Recorder { evs: std::sync::Mutex::new(Vec::new()) }
    }

    /// runs `f` between a call and a return stamp and records the operation built from its result
    pub fn call<R>(&self, f: impl FnOnce() -> R, mk: impl FnOnce(&R) -> O) -> R {
        let c = crate::stamp();
        let r = f();
        let t = crate::stamp();
        let op = mk(&r);
        self.evs.lock().unwrap().push(Ev { thread: crate::current_thread(), call: c, ret: t, op });
        r
    }

    pub fn take(&self) -> Vec<Ev<O>> {
        std::mem::take(&mut *self.evs.lock().unwrap())
    }
}
