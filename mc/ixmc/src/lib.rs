//! ixmc – E1 of /verif: a stateless model checker for the *real* iceoryx2 code.
//!
//! See /verif/DESIGN.md §3.1.  `rt` is the controlled scheduler behind the atomics drop-in,
//! `explore` the bounded depth-first search by re-execution, `coord` the multi-process
//! coordinator every harness binary uses as its `main`, `lin` a brute-force linearizability
//! checker for the short call/return histories the harness bodies record.

pub mod coord;
pub mod crashhook;
pub mod explore;
pub mod interpose;
pub mod lin;
pub mod rt;

pub use coord::{pb, Case};
pub use explore::Bounds;
pub use rt::{choose, current_thread, fail, in_model, note, observe, spawn, stale_enabled, step, yield_now, Config, JoinHandle};

use std::sync::atomic::{AtomicU64, Ordering};

static CLOCK: AtomicU64 = AtomicU64::new(1);

/// logical time stamp for call/return histories (only one model thread runs at a time, so the
/// order of stamps is the real-time order of the execution)
pub fn stamp() -> u64 {
    CLOCK.fetch_add(1, Ordering::SeqCst)
}

/// hash helper for `observe`
pub fn hash_of<T: std::hash::Hash>(t: &T) -> u64 {
    use std::hash::Hasher;
    let mut h = std::collections::hash_map::DefaultHasher::new();
    t.hash(&mut h);
    h.finish()
}

#[macro_export]
macro_rules! check {
    ($cond:expr, $($arg:tt)*) => {
        if !($cond) {
            $crate::fail(format!($($arg)*));
        }
    };
}
