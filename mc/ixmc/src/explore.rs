//! Stateless depth-first exploration by re-execution, bounded by preemptions and stale reads.

use std::collections::{BTreeMap, HashSet};
use std::sync::Arc;
use std::time::{Duration, Instant};

use crate::rt::{self, Body, Config, ExecResult, Failure, Point, TraceEntry};

#[derive(Clone, Debug)]
pub struct Bounds {
    pub pb: u32,
    pub sb: u32,
}

#[derive(Clone, Debug, Default, serde::Serialize, serde::Deserialize)]
pub struct StageStats {
    pub pb: u32,
    pub sb: u32,
    pub executions: u64,
    pub complete: bool,
    pub max_choice_points: u64,
    pub max_steps: u64,
}

#[derive(Clone, Debug, serde::Serialize, serde::Deserialize)]
pub struct ViolationRec {
    pub kind: String,
    pub message: String,
    pub choices: Vec<u32>,
    pub pb: u32,
    pub sb: u32,
    pub fatal: bool,
}

#[derive(Default)]
pub struct ExploreResult {
    pub stages: Vec<StageStats>,
    pub executions: u64,
    pub outcomes: HashSet<u64>,
    pub notes: BTreeMap<String, u64>,
    pub violation: Option<ViolationRec>,
    /// tag -> (number of violating schedules, first witness)
    pub known_hits: BTreeMap<String, (u64, ViolationRec)>,
    pub samples: Vec<(Vec<u32>, Vec<TraceEntry>)>,
    pub timed_out: bool,
    pub non_elidable: Vec<u32>,
    pub restarts: u32,
}

pub struct Limits {
    /// tags of violations that are listed as known findings for this case: they are counted
    /// and the exploration continues (anything else ends the exploration)
    /// `harness|case|` – prepended to a violation's tag to form its signature
    pub known_prefix: String,
    /// signatures (globs) listed as known findings for this property
    pub known_globs: Vec<String>,
    pub deadline: Instant,
    /// (worker index, worker count): top-level sub-trees are dealt round robin
    pub worker: (u32, u32),
}

struct Frame {
    choices: Vec<u32>,
    points: Vec<Point>,
    next_i: usize,
    next_alt: u32,
}

/// `tag: details` -> tag (the stable part of an oracle message); other messages: kind only
pub fn tag_of(kind: &str, message: &str) -> String {
    match message.split_once(':') {
        Some((t, _)) if t.len() <= 48 && !t.contains(&['[', '(', '{'][..]) => format!("{kind}/{t}"),
        _ => kind.to_string(),
    }
}

fn failure_kind(f: &Failure) -> (&'static str, String) {
    match f {
        Failure::Violation(m) => ("violation", m.clone()),
        Failure::Deadlock(m) => ("deadlock", m.clone()),
        Failure::Livelock(m) => ("livelock", m.clone()),
        Failure::Horizon(m) => ("horizon", m.clone()),
    }
}

/// Explore every schedule of `body` within each stage's bounds (stages are run in order, each
/// from scratch; a later stage subsumes the earlier ones – iterating the bound means that the
/// first counterexample has the fewest deviations).
pub fn explore(
    cfg: &Config,
    stages: &[Bounds],
    limits: &Limits,
    initial_non_elidable: &[u32],
    body: Body,
) -> ExploreResult {
    let mut res = ExploreResult::default();
    let mut non_elidable: HashSet<u32> = initial_non_elidable.iter().copied().collect();
    // warm-up: process-global lazies of the code under test (loggers, process-local registries)
    // are initialised by the first execution; it must not be part of the explored tree, whose
    // executions all have to start from the same process state
    {
        let mut c = cfg.clone();
        c.states = false;
        c.stale_reads = false;
        let _ = rt::run_once(&c, &[], &[], &Arc::new(non_elidable.clone()), &body);
        let _ = rt::run_once(&c, &[], &[], &Arc::new(non_elidable.clone()), &body);
    }
    'restart: loop {
        res.stages.clear();
        res.outcomes.clear();
        res.notes.clear();
        res.samples.clear();
        res.executions = 0;
        let ne = Arc::new(non_elidable.clone());
        for b in stages {
            let mut st = StageStats { pb: b.pb, sb: b.sb, complete: true, ..Default::default() };
            let mut cfg = cfg.clone();
            cfg.stale_reads = cfg.stale_reads && b.sb > 0;
            let mut stack: Vec<Frame> = Vec::new();
            let mut top_counter: u64 = 0;
            // root execution
            let r = rt::run_once(&cfg, &[], &[], &ne, &body);
            if let Some(v) = account(&mut res, &mut st, &r, b, &cfg, &ne, &body) {
                if !known(&mut res, limits, v) {
                    res.stages.push(st);
                    res.non_elidable = sorted(&non_elidable);
                    return res;
                }
            }
            if learn(&mut non_elidable, &r) {
                res.restarts += 1;
                continue 'restart;
            }
            stack.push(Frame { choices: r.choices, points: r.points, next_i: 0, next_alt: 1 });
            while let Some(depth) = stack.len().checked_sub(1) {
                if Instant::now() > limits.deadline {
                    st.complete = false;
                    res.timed_out = true;
                    break;
                }
                // find the next alternative of the top frame that fits the bounds
                let mut found: Option<(usize, u32)> = None;
                {
                    let f = &mut stack[depth];
                    while f.next_i < f.points.len() {
                        let p = &f.points[f.next_i];
                        if f.next_alt < p.n
                            && p.cum_pre + p.alt_pre <= b.pb
                            && p.cum_stale + p.alt_stale <= b.sb
                        {
                            found = Some((f.next_i, f.next_alt));
                            f.next_alt += 1;
                            break;
                        }
                        f.next_i += 1;
                        f.next_alt = 1;
                    }
                }
                let (i, alt) = match found {
                    None => {
                        stack.pop();
                        continue;
                    }
                    Some(x) => x,
                };
                if depth == 0 {
                    let mine = top_counter % limits.worker.1 as u64 == limits.worker.0 as u64;
                    top_counter += 1;
                    if !mine {
                        continue;
                    }
                }
                let (prefix, sigs) = {
                    let f = &stack[depth];
                    let mut p = f.choices[..i].to_vec();
                    p.push(alt);
                    let s: Vec<u64> = f.points[..=i].iter().map(|p| p.sig).collect();
                    (p, s)
                };
                let r = rt::run_once(&cfg, &prefix, &sigs, &ne, &body);
                if let Some(v) = account(&mut res, &mut st, &r, b, &cfg, &ne, &body) {
                    if !known(&mut res, limits, v) {
                        res.stages.push(st);
                        res.non_elidable = sorted(&non_elidable);
                        return res;
                    }
                }
                if learn(&mut non_elidable, &r) {
                    res.restarts += 1;
                    continue 'restart;
                }
                // children only deviate after point i
                stack.push(Frame { choices: r.choices, points: r.points, next_i: i + 1, next_alt: 1 });
            }
            res.stages.push(st);
            if res.timed_out {
                break;
            }
        }
        break;
    }
    res.non_elidable = sorted(&non_elidable);
    res
}

/// a violation listed as a known finding is counted and the search goes on; returns false for
/// an unlisted one (which is stored as THE violation of this exploration)
fn known(res: &mut ExploreResult, limits: &Limits, v: ViolationRec) -> bool {
    let tag = tag_of(&v.kind, &v.message);
    let sig = format!("{}{}", limits.known_prefix, tag);
    if limits.known_globs.iter().any(|g| crate::coord::glob_match(g, &sig)) {
        if v.fatal {
            // parked model threads of the abandoned execution can never be reused
            rt::abandon_pool();
        }
        let e = res.known_hits.entry(tag).or_insert((0, v));
        e.0 += 1;
        true
    } else {
        res.violation = Some(v);
        false
    }
}

fn sorted(s: &HashSet<u32>) -> Vec<u32> {
    let mut v: Vec<u32> = s.iter().copied().collect();
    v.sort();
    v
}

fn learn(non_elidable: &mut HashSet<u32>, r: &ExecResult) -> bool {
    let mut grew = false;
    for c in &r.conflicting {
        if non_elidable.insert(*c) {
            grew = true;
        }
    }
    grew
}

fn account(
    res: &mut ExploreResult,
    st: &mut StageStats,
    r: &ExecResult,
    b: &Bounds,
    cfg: &Config,
    ne: &Arc<HashSet<u32>>,
    body: &Body,
) -> Option<ViolationRec> {
    st.executions += 1;
    res.executions += 1;
    st.max_choice_points = st.max_choice_points.max(r.points.len() as u64);
    st.max_steps = st.max_steps.max(r.steps);
    res.outcomes.insert(r.outcome);
    for n in &r.notes {
        *res.notes.entry(n.to_string()).or_insert(0) += 1;
    }
    if let Some(f) = &r.failure {
        let (kind, message) = failure_kind(f);
        return Some(ViolationRec {
            kind: kind.to_string(),
            message,
            choices: r.choices.clone(),
            pb: b.pb,
            sb: b.sb,
            fatal: r.fatal,
        });
    }
    // keep the first, and every 2^k-th, execution as written-out samples (traced re-run)
    let n = res.executions;
    if res.samples.len() < 3 && (n == 1 || n == 64 || n == 4096) {
        let mut c = cfg.clone();
        c.trace = true;
        c.states = false;
        let t = rt::run_once(&c, &r.choices, &[], ne, body);
        res.samples.push((r.choices.clone(), t.trace));
    }
    None
}

/// replay a single execution given by its complete choice list; returns the result with trace
pub fn replay(
    cfg: &Config,
    choices: &[u32],
    non_elidable: &[u32],
    body: Body,
) -> ExecResult {
    let mut c = cfg.clone();
    c.trace = true;
    let ne = Arc::new(non_elidable.iter().copied().collect::<HashSet<u32>>());
    rt::run_once(&c, choices, &[], &ne, &body)
}

pub fn deadline_in(secs: f64) -> Instant {
    Instant::now() + Duration::from_secs_f64(secs)
}
