//! Crash-at-N mode of the atomics drop-in (E2, C04): every atomic operation of the process is
//! counted; when the counter reaches the armed value the process kills itself with SIGKILL
//! *before* performing the operation.  Used by `crash_child_mc` so that crash points between two
//! shared-memory writes (which no system call separates) can be enumerated.

use core::sync::atomic::{AtomicU64, Ordering};
use iceoryx2_pal_concurrency_sync::verif::{HookTable, Op, OpResult};

static COUNT: AtomicU64 = AtomicU64::new(0);
static CRASH_AT: AtomicU64 = AtomicU64::new(u64::MAX);

unsafe fn atomic(addr: *mut u8, width: u8, op: Op, a: u64, b: u64, _s: Ordering, _f: Ordering) -> OpResult {
    let n = COUNT.fetch_add(1, Ordering::SeqCst);
    if n == CRASH_AT.load(Ordering::SeqCst) {
        libc::kill(libc::getpid(), libc::SIGKILL);
        loop {
            libc::pause();
        }
    }
    crate::rt::raw_op(addr, width, op, a, b)
}

fn fence(order: Ordering) {
    core::sync::atomic::fence(order);
}

fn cell(_addr: *const u8, _size: usize) {}

static TABLE: HookTable = HookTable { atomic, fence, cell };

/// start counting atomic operations; the process dies before operation number `crash_at`
/// (u64::MAX = never)
pub fn arm(crash_at: u64) {
    CRASH_AT.store(crash_at, Ordering::SeqCst);
    COUNT.store(0, Ordering::SeqCst);
    iceoryx2_pal_concurrency_sync::verif::install(&TABLE);
}

pub fn count() -> u64 {
    COUNT.load(Ordering::SeqCst)
}
