//! C09: concurrent index allocation is exclusive, bounded and leak-free.
//!
//! Subjects (real code, built against the atomics drop-in):
//!  * `FixedSizeUniqueIndexSet` (plain tagged free-list, raw-index API),
//!  * `StaticRobustUniqueIndexSet` (crash-robust set: owner cells + generation counter, `recover`),
//!  * bb-memory `FixedSizePoolAllocator` over a heap buffer,
//!  * cal `shm_allocator::PoolAllocator` over a heap buffer (offset based, non-fixed bb allocator).
//!
//! 2..3 model threads run short acquire / release / release-and-lock / recover programs on
//! capacities 1..4 (the programs are chosen so that the free-list head is contended and the ABA
//! shapes "pop i, pop j, push i while a third pop is in flight" exist, including the one where
//! the borrowed counter is back at its old value and only the ABA tag tells the heads apart).
//! In the recover cases the first thread ends while holding indices (the dead owner); after it
//! was joined a third thread recovers its owner id while the second thread keeps running.
//! Oracles:
//!  * direct, memory-model independent: every index < capacity, every bucket inside the managed
//!    region / aligned / disjoint from all live buckets, nobody is handed an index that another
//!    holder has not given back yet (harness side owner table), bucket patterns survive,
//!    `recover` of a dead owner hands back exactly the indices this owner still held;
//!  * the call/return history (threads + drain probe of the main thread at quiescence) is
//!    linearizable against the sequential specification "owner per index + locked flag";
//!  * at quiescence exactly `capacity - still held` indices can be acquired (zero when locked).
//!
//! In stale-read stages only what C11 does not promise is weakened: sequential consistency plus
//! the spawn/join edges instead of real-time order, and an "out of indices" may be spurious.

extern crate iceoryx2_bb_loggers;

use core::alloc::Layout;
use core::ptr::NonNull;
use std::sync::atomic::{AtomicU8, Ordering as StdOrdering};
use std::sync::{Arc, Mutex};

use iceoryx2_bb_elementary::bump_allocator::BumpAllocator;
use iceoryx2_bb_elementary_traits::allocator::{Allocate, Deallocate};
use iceoryx2_bb_lock_free::mpmc::robust_unique_index_set::{OwnerId, StaticRobustUniqueIndexSet};
use iceoryx2_bb_lock_free::mpmc::unique_index_set::FixedSizeUniqueIndexSet;
use iceoryx2_bb_lock_free::mpmc::unique_index_set_enums::{ReleaseMode, ReleaseState, UniqueIndexSetAcquireFailure};
use iceoryx2_bb_memory::pool_allocator::FixedSizePoolAllocator;
use iceoryx2_cal::shm_allocator::pool_allocator::{Config as ShmPoolConfig, PoolAllocator as ShmPoolAllocator};
use iceoryx2_cal::shm_allocator::{PointerOffset, ShmAllocator};
use ixmc::lin::{linearizable, sequentially_consistent, Ev};
use ixmc::{pb, Case, Config};

const MAX_CAP: usize = 4;
/// `who` of the main thread's drain probe (model threads use their thread id 1..3)
const MAIN: u8 = 8;

/// holder name for messages
fn hn(who: u8) -> String {
    if who == MAIN {
        "the drain probe of the main thread".to_string()
    } else {
        format!("T{who}")
    }
}

// ------------------------------------------------------------------------------------------
// sequential specification

#[derive(Clone, Copy, Debug, PartialEq, Eq, Hash)]
enum Fail {
    Out,
    Locked,
}

#[derive(Clone, Debug, PartialEq, Eq, Hash)]
enum Op {
    Acquire { who: u8, res: Result<u32, Fail> },
    /// atomic release (plain set, pool allocators); `locked`: the call reported `Locked`
    Release { who: u8, idx: u32, lock_if_last: bool, locked: bool },
    /// robust set, first half of `release`: the owner cell is cleared
    Free { who: u8, idx: u32, then_lock: bool },
    /// robust set, second half of `release(.., LockIfLastIndex)`: the lock attempt
    TryLock { who: u8, locked: bool },
    /// robust set: `recover` of everything `target` owns
    Recover { who: u8, target: u8, got: Vec<u32>, then_lock: bool },
    /// robust set: lock attempts and final state report of `recover(LockIfLastIndex, ..)`
    RecLock { who: u8, locked: bool, recovered_any: bool },
}

#[derive(Clone, Debug, PartialEq, Eq, Hash)]
struct St {
    /// 0 = free, otherwise the holder
    owner: [u8; MAX_CAP],
    locked: bool,
    /// threads whose `Free{then_lock}` is linearised but whose `TryLock` is not yet
    pend: u16,
}

impl St {
    fn new() -> Self {
        St { owner: [0; MAX_CAP], locked: false, pend: 0 }
    }
}

/// `weak` (stale-read stages): a thread need not observe another thread's release yet, so an
/// out-of-indices result is legal in every state.  Everything else stays strict.
fn spec(cap: u32, weak: bool) -> impl Fn(&St, &Op) -> Option<St> {
    move |s, op| {
        let cap = cap as usize;
        let none_held = |s: &St| s.owner[..cap].iter().all(|o| *o == 0);
        let mut n = s.clone();
        match op {
            Op::Acquire { who, res: Ok(i) } => {
                let i = *i as usize;
                if i >= cap || s.locked || s.owner[i] != 0 {
                    return None;
                }
                n.owner[i] = *who;
            }
            Op::Acquire { res: Err(Fail::Out), .. } if weak => {}
            Op::Acquire { res: Err(_), .. } => {
                // the property does not distinguish the two failure kinds
                let all_taken = s.owner[..cap].iter().all(|o| *o != 0);
                if !(s.locked || all_taken) {
                    return None;
                }
            }
            Op::Release { who, idx, lock_if_last, locked } => {
                let i = *idx as usize;
                if i >= cap || s.owner[i] != *who {
                    return None;
                }
                n.owner[i] = 0;
                let must_lock = *lock_if_last && none_held(&n);
                if must_lock != *locked {
                    return None;
                }
                if must_lock {
                    n.locked = true;
                }
            }
            Op::Free { who, idx, then_lock } => {
                let i = *idx as usize;
                if i >= cap || s.owner[i] != *who {
                    return None;
                }
                n.owner[i] = 0;
                if *then_lock {
                    n.pend |= 1u16 << *who;
                }
            }
            Op::TryLock { who, locked } => {
                if s.pend & (1u16 << *who) == 0 {
                    return None;
                }
                n.pend &= !(1u16 << *who);
                if *locked {
                    if !(s.locked || none_held(s)) {
                        return None;
                    }
                    n.locked = true;
                } else if s.locked || none_held(s) {
                    return None;
                }
            }
            Op::Recover { who, target, got, then_lock } => {
                // `recover` frees the cells of the target one by one, so the indices it hands back are
                // separate events of one call (competing recoverers each get a part); that together
                // they get exactly what the dead owner held is checked at quiescence
                let owned: Vec<u32> = (0..cap).filter(|i| s.owner[*i] == *target).map(|i| i as u32).collect();
                if !got.iter().all(|g| owned.contains(g)) {
                    return None;
                }
                for i in got {
                    n.owner[*i as usize] = 0;
                }
                if *then_lock {
                    n.pend |= 1u16 << *who;
                }
            }
            Op::RecLock { who, locked, recovered_any } => {
                if s.pend & (1u16 << *who) == 0 {
                    return None;
                }
                n.pend &= !(1u16 << *who);
                if *locked {
                    // recover locks only after it took an index away; otherwise it merely reports
                    if !(s.locked || (*recovered_any && none_held(s))) {
                        return None;
                    }
                    n.locked = true;
                } else if weak && s.locked {
                    // the final report is a relaxed load: another thread's lock need not be visible yet
                } else if s.locked || (*recovered_any && none_held(s)) {
                    return None;
                }
            }
        }
        Some(n)
    }
}

// ------------------------------------------------------------------------------------------
// history recorder (like ixmc::lin::Recorder, but one call may yield two events: the two halves
// of the robust set's release share the call/return stamps)

struct Rec {
    evs: Mutex<Vec<Ev<Op>>>,
}

impl Rec {
    fn new() -> Self {
        Rec { evs: Mutex::new(Vec::new()) }
    }
    fn call<R>(&self, f: impl FnOnce() -> R, mk: impl FnOnce(&R) -> Vec<Op>) -> R {
        let c = ixmc::stamp();
        let r = f();
        let t = ixmc::stamp();
        let thread = ixmc::current_thread();
        let mut g = self.evs.lock().unwrap();
        for op in mk(&r) {
            g.push(Ev { thread, call: c, ret: t, op });
        }
        r
    }
    fn take(&self) -> Vec<Ev<Op>> {
        std::mem::take(&mut *self.evs.lock().unwrap())
    }
}

// ------------------------------------------------------------------------------------------
// subjects

trait Subject: Send + Sync {
    fn capacity(&self) -> u32;
    fn acquire(&self, who: u8) -> Result<u32, Fail>;
    /// returns whether the call reported `Locked`
    fn release(&self, who: u8, idx: u32, lock_if_last: bool) -> bool;
    fn release_ops(&self, who: u8, idx: u32, lock_if_last: bool, locked: bool) -> Vec<Op> {
        vec![Op::Release { who, idx, lock_if_last, locked }]
    }
    /// `about_to_free(i)` is called right before index i is taken away from the dead owner
    fn recover(&self, _target: u8, _lock_if_last: bool, _about_to_free: &dyn Fn(u32)) -> (Vec<u32>, bool) {
        unreachable!("recover is only offered by the robust set")
    }
    /// user side of a hold (pool allocators: fill the bucket with a holder specific pattern)
    fn on_acquired(&self, _who: u8, _idx: u32) {}
    /// pool allocators: the pattern must have survived
    fn verify_held(&self, _who: u8, _idx: u32) {}
    /// whether a hold comes with memory the holder uses
    fn has_memory(&self) -> bool {
        false
    }
}

fn map_fail(f: UniqueIndexSetAcquireFailure) -> Fail {
    match f {
        UniqueIndexSetAcquireFailure::OutOfIndices => Fail::Out,
        UniqueIndexSetAcquireFailure::IsLocked => Fail::Locked,
    }
}

fn mode(lock_if_last: bool) -> ReleaseMode {
    if lock_if_last {
        ReleaseMode::LockIfLastIndex
    } else {
        ReleaseMode::Default
    }
}

struct Plain {
    set: FixedSizeUniqueIndexSet<MAX_CAP>,
}

impl Subject for Plain {
    fn capacity(&self) -> u32 {
        self.set.capacity()
    }
    fn acquire(&self, _who: u8) -> Result<u32, Fail> {
        // SAFETY: the harness releases every index it acquired at most once
        unsafe { self.set.acquire_raw_index() }.map_err(map_fail)
    }
    fn release(&self, _who: u8, idx: u32, lock_if_last: bool) -> bool {
        // SAFETY: idx was returned by acquire_raw_index to this thread and is released once
        unsafe { self.set.release_raw_index(idx, mode(lock_if_last)) == ReleaseState::Locked }
    }
}

struct Robust {
    set: StaticRobustUniqueIndexSet<MAX_CAP>,
}

fn owner(who: u8) -> OwnerId {
    OwnerId::new(who as u64).unwrap()
}

impl Subject for Robust {
    fn capacity(&self) -> u32 {
        self.set.capacity() as u32
    }
    fn acquire(&self, who: u8) -> Result<u32, Fail> {
        self.set.acquire(owner(who)).map(|i| i as u32).map_err(map_fail)
    }
    fn release(&self, who: u8, idx: u32, lock_if_last: bool) -> bool {
        match self.set.release(idx as usize, owner(who), mode(lock_if_last)) {
            Ok(st) => st == ReleaseState::Locked,
            Err(e) => {
                ixmc::fail(format!("T{who} could not release index {idx} it holds: {e:?}"));
                false
            }
        }
    }
    fn release_ops(&self, who: u8, idx: u32, lock_if_last: bool, locked: bool) -> Vec<Op> {
        if lock_if_last {
            vec![Op::Free { who, idx, then_lock: true }, Op::TryLock { who, locked }]
        } else {
            ixmc::check!(!locked, "release({idx}, Default) by T{who} reported Locked");
            vec![Op::Free { who, idx, then_lock: false }]
        }
    }
    fn recover(&self, target: u8, lock_if_last: bool, about_to_free: &dyn Fn(u32)) -> (Vec<u32>, bool) {
        let t = owner(target);
        let mut got: Vec<u32> = Vec::new();
        let st = self.set.recover(
            mode(lock_if_last),
            |o, _i| o == t,
            |o, i| {
                ixmc::check!(o == t, "recover of owner {target} reported index {i} of another owner {o:?}");
                // called after the cell was freed (the predicate runs BEFORE the freeing CAS, which
                // may still fail when a competing recoverer was faster and the index has a new owner)
                about_to_free(i as u32);
                got.push(i as u32)
            },
        );
        got.sort();
        (got, st == ReleaseState::Locked)
    }
}

const BUCKET_SIZE: usize = 16;
const BUCKET_ALIGN: usize = 8;

/// Const capacity of the fixed-size pool allocator.  It must exceed the number of buckets of the
/// managed memory: `FixedSizePoolAllocator::<N>::new` hands only `N * 4` bytes of its `N + 1`
/// link cells to the index set, so with `N` or more buckets its constructor panics ("All required
/// memory is preallocated.: OutOfMemory").  That is a sequential construction defect outside
/// C09 (allocator arithmetic is C15's subject); the harness stays clear of it.
const FIXED_POOL_N: usize = 2 * MAX_CAP;

enum PoolImpl {
    Fixed(FixedSizePoolAllocator<FIXED_POOL_N>),
    Shm { sut: Box<ShmPoolAllocator>, _mgmt: Box<[u64; 64]> },
}

struct Pool {
    imp: PoolImpl,
    /// start and length of the managed memory handed to the allocator
    base: usize,
    size: usize,
    buckets: u32,
    _mem: Box<[u128; MAX_CAP]>,
    /// live buckets: (holder, offset into the managed memory)
    live: Mutex<Vec<(u8, usize)>>,
}

// SAFETY: the raw addresses refer to `_mem`, which lives as long as the subject; the allocators
// themselves are the thread-safe objects under test
unsafe impl Send for Pool {}
unsafe impl Sync for Pool {}

impl Pool {
    fn new(buckets: usize, shm: bool) -> Self {
        let mut mem = Box::new([0u128; MAX_CAP]);
        let base = mem.as_mut_ptr() as *mut u8;
        let size = buckets * BUCKET_SIZE;
        let layout = Layout::from_size_align(BUCKET_SIZE, BUCKET_ALIGN).unwrap();
        let imp = if shm {
            let mut mgmt = Box::new([0u64; 64]);
            let bump = BumpAllocator::new(NonNull::new(mgmt.as_mut_ptr() as *mut u8).unwrap(), core::mem::size_of_val(&*mgmt));
            let managed = NonNull::new(core::ptr::slice_from_raw_parts_mut(base, size)).unwrap();
            // boxed before `init`: the allocator keeps a relative pointer to its management memory
            let mut sut = Box::new(unsafe { ShmPoolAllocator::new_uninit(4096, managed, &ShmPoolConfig { bucket_layout: layout }) });
            unsafe { sut.init(&bump) }.expect("management memory suffices");
            PoolImpl::Shm { sut, _mgmt: mgmt }
        } else {
            PoolImpl::Fixed(FixedSizePoolAllocator::<FIXED_POOL_N>::new(layout, NonNull::new(base).unwrap(), size))
        };
        let n = match &imp {
            PoolImpl::Fixed(a) => a.number_of_buckets(),
            PoolImpl::Shm { sut, .. } => sut.number_of_buckets(),
        };
        assert_eq!(n as usize, buckets, "harness: unexpected number of buckets");
        Pool { imp, base: base as usize, size, buckets: n, _mem: mem, live: Mutex::new(Vec::new()) }
    }

    fn request() -> Layout {
        Layout::from_size_align(BUCKET_SIZE, BUCKET_ALIGN).unwrap()
    }

    fn pattern(who: u8, off: usize) -> u8 {
        who.wrapping_mul(16).wrapping_add((off / BUCKET_SIZE) as u8 + 1)
    }

    /// offset of the allocation relative to the managed memory (None: allocation failed)
    fn raw_allocate(&self) -> Option<isize> {
        match &self.imp {
            PoolImpl::Fixed(a) => a.allocate(Self::request()).ok().map(|p| p.as_ptr() as isize - self.base as isize),
            PoolImpl::Shm { sut, .. } => {
                let a = unsafe { sut.assume_init() };
                a.allocate(Self::request()).ok().map(|o| (o.offset() + sut.relative_start_address()) as isize)
            }
        }
    }
}

impl Subject for Pool {
    fn capacity(&self) -> u32 {
        self.buckets
    }
    fn acquire(&self, who: u8) -> Result<u32, Fail> {
        let off = match self.raw_allocate() {
            None => return Err(Fail::Out),
            Some(o) => o,
        };
        if off < 0 || off as usize + BUCKET_SIZE > self.size {
            ixmc::fail(format!(
                "bucket handed to {} at offset {off} (size {BUCKET_SIZE}) is outside the managed memory of {} bytes",
                hn(who),
                self.size
            ));
            // never touch memory outside the buffer; report an out-of-range index to the caller
            return Ok(u32::MAX);
        }
        let off = off as usize;
        ixmc::check!(
            (self.base + off) % BUCKET_ALIGN == 0,
            "bucket handed to {} at offset {off} is not aligned to the bucket alignment {BUCKET_ALIGN}",
            hn(who)
        );
        let mut live = self.live.lock().unwrap();
        for (h, o) in live.iter() {
            if off < *o + BUCKET_SIZE && *o < off + BUCKET_SIZE {
                ixmc::fail(format!(
                    "bucket at offset {off} handed to {} overlaps the live bucket at offset {o} of {}",
                    hn(who),
                    hn(*h)
                ));
            }
        }
        live.push((who, off));
        Ok((off / BUCKET_SIZE) as u32)
    }
    fn release(&self, who: u8, idx: u32, _lock_if_last: bool) -> bool {
        let off = {
            let mut live = self.live.lock().unwrap();
            let k = live
                .iter()
                .position(|(h, o)| *h == who && (*o / BUCKET_SIZE) as u32 == idx)
                .expect("harness: releasing a bucket that is not live");
            live.remove(k).1
        };
        match &self.imp {
            PoolImpl::Fixed(a) => unsafe {
                a.deallocate(NonNull::new((self.base + off) as *mut u8).unwrap(), Self::request());
            },
            PoolImpl::Shm { sut, .. } => unsafe {
                let a = sut.assume_init();
                a.deallocate(PointerOffset::new(off - sut.relative_start_address()), Self::request());
            },
        }
        false
    }
    fn has_memory(&self) -> bool {
        true
    }
    fn on_acquired(&self, who: u8, idx: u32) {
        let off = match self.live.lock().unwrap().iter().find(|(h, o)| *h == who && (*o / BUCKET_SIZE) as u32 == idx) {
            Some((_, o)) => *o,
            None => return,
        };
        // SAFETY: [off, off + BUCKET_SIZE) was checked to be inside `_mem`
        unsafe { core::ptr::write_bytes((self.base + off) as *mut u8, Self::pattern(who, off), BUCKET_SIZE) };
    }
    fn verify_held(&self, who: u8, idx: u32) {
        let off = match self.live.lock().unwrap().iter().find(|(h, o)| *h == who && (*o / BUCKET_SIZE) as u32 == idx) {
            Some((_, o)) => *o,
            None => return,
        };
        let bytes = unsafe { core::slice::from_raw_parts((self.base + off) as *const u8, BUCKET_SIZE) };
        let want = Self::pattern(who, off);
        ixmc::check!(
            bytes.iter().all(|b| *b == want),
            "the bucket at offset {off} was overwritten while {} held it: {bytes:?}, expected all {want}",
            hn(who)
        );
    }
}

#[derive(Clone, Copy, PartialEq, Eq, Debug)]
enum Kind {
    Plain,
    Robust,
    Pool,
    ShmPool,
}

fn make(kind: Kind, cap: usize) -> Arc<dyn Subject> {
    match kind {
        Kind::Plain => Arc::new(Plain { set: FixedSizeUniqueIndexSet::<MAX_CAP>::new_with_reduced_capacity(cap).unwrap() }),
        Kind::Robust => Arc::new(Robust { set: StaticRobustUniqueIndexSet::<MAX_CAP>::new_with_reduced_capacity(cap).unwrap() }),
        Kind::Pool => Arc::new(Pool::new(cap, false)),
        Kind::ShmPool => Arc::new(Pool::new(cap, true)),
    }
}

// ------------------------------------------------------------------------------------------
// thread programs

#[derive(Clone, Copy, PartialEq, Eq, Debug)]
enum P {
    /// acquire one index
    A,
    /// release the oldest / the newest index this thread holds (nothing held: no-op)
    RelOld,
    RelNew,
    /// the same with `ReleaseMode::LockIfLastIndex`
    RelOldLock,
    /// recover everything the (finished, hence "dead") first thread still owns
    RecoverFirst,
    /// the same with `ReleaseMode::LockIfLastIndex`
    RecoverFirstLock,
}

/// harness side owner table; std atomics are invisible to the scheduler
struct Table {
    slot: [AtomicU8; MAX_CAP],
}

impl Table {
    fn new() -> Self {
        Table { slot: [const { AtomicU8::new(0) }; MAX_CAP] }
    }
    fn held(&self) -> Vec<(u32, u8)> {
        (0..MAX_CAP).map(|i| (i as u32, self.slot[i].load(StdOrdering::SeqCst))).filter(|(_, h)| *h != 0).collect()
    }
}

struct Ctx {
    s: Arc<dyn Subject>,
    rec: Rec,
    tab: Table,
    /// everything any `recover` of the dead owner handed back (several recoverers may compete)
    recovered: std::sync::Mutex<Vec<u32>>,
    /// set once thread 1 (the owner that "dies" in the recover cases) has been joined
    dead: std::sync::atomic::AtomicBool,
}

impl Ctx {
    /// one recorded acquire with the direct checks; returns the index if one was obtained
    fn acquire(&self, who: u8) -> Option<u32> {
        let r = self.rec.call(|| self.s.acquire(who), |r| vec![Op::Acquire { who, res: *r }]);
        let i = r.ok()?;
        let cap = self.s.capacity();
        if i >= cap {
            ixmc::fail(format!("{} was handed index {i}, which is not below the capacity {cap}", hn(who)));
            return None;
        }
        let prev = self.tab.slot[i as usize].swap(who, StdOrdering::SeqCst);
        // the mark of the dead owner (thread 1 of the recover cases) may still be there when the
        // index was recovered a moment ago; that the index was really recovered before it was
        // handed out again is checked by the linearizability oracle
        let dead_mark = prev == 1 && self.dead.load(StdOrdering::SeqCst);
        ixmc::check!(prev == 0 || dead_mark, "index {i} was handed to {} while {} still holds it", hn(who), hn(prev));
        self.s.on_acquired(who, i);
        Some(i)
    }

    fn release(&self, who: u8, idx: u32, lock_if_last: bool) {
        self.s.verify_held(who, idx);
        self.tab.slot[idx as usize].store(0, StdOrdering::SeqCst);
        self.rec.call(|| self.s.release(who, idx, lock_if_last), |l| self.s.release_ops(who, idx, lock_if_last, *l));
    }

    /// runs a program, returns the indices still held at its end
    fn run(&self, prog: &[P], dead_held: Option<&[u32]>, mut held: Vec<u32>) -> Vec<u32> {
        let who = ixmc::current_thread() as u8;
        for p in prog {
            match p {
                P::A => {
                    if let Some(i) = self.acquire(who) {
                        if self.s.has_memory() {
                            // user side of the hold: the bucket is used across a scheduling point
                            ixmc::step();
                            self.s.verify_held(who, i);
                        }
                        held.push(i);
                    }
                }
                P::RelOld | P::RelNew | P::RelOldLock => {
                    if held.is_empty() {
                        continue;
                    }
                    let i = if *p == P::RelNew { held.pop().unwrap() } else { held.remove(0) };
                    self.release(who, i, *p == P::RelOldLock);
                }
                P::RecoverFirst | P::RecoverFirstLock => {
                    let lock = *p == P::RecoverFirstLock;
                    // the owner table entry is cleared right before the set frees the cell (once
                    // the cell is free another thread may legitimately be handed the index)
                    // the cell is already free when this runs, so a new owner may have entered its
                    // name into the table in the meantime: only the dead owner's mark is cleared
                    let about_to_free = |i: u32| {
                        if i < self.s.capacity() {
                            let _ = self.tab.slot[i as usize].compare_exchange(1, 0, StdOrdering::SeqCst, StdOrdering::SeqCst);
                        }
                    };
                    let (got, _) = self.rec.call(
                        || self.s.recover(1, lock, &about_to_free),
                        |(g, l)| {
                            let mut ops: Vec<Op> = g.iter().map(|i| Op::Recover { who, target: 1, got: vec![*i], then_lock: false }).collect();
                            if lock {
                                ops.push(Op::Recover { who, target: 1, got: vec![], then_lock: true });
                                ops.push(Op::RecLock { who, locked: *l, recovered_any: !g.is_empty() });
                            }
                            ops
                        },
                    );
                    let want = dead_held.expect("harness: recover without a dead thread");
                    let mut want = want.to_vec();
                    want.sort();
                    // several recoverers of one dead owner share its indices between them: each
                    // gets a subset, an index goes to exactly one of them, together they get all
                    let mut all = self.recovered.lock().unwrap();
                    for i in &got {
                        ixmc::check!(want.contains(i), "recover of the dead owner returned index {i}, but the owner died holding exactly {want:?}");
                        ixmc::check!(!all.contains(i), "recover handed index {i} of the dead owner back twice (to two recoverers)");
                        all.push(*i);
                    }
                    drop(all);
                    if !got.is_empty() {
                        ixmc::note("recovered-nonempty");
                    }
                }
            }
        }
        held
    }
}

/// `late_third`: the third program is started only after the first thread was joined (the first
/// thread is the dead owner the third one recovers) while the second thread is still running.
///
/// `pre[k]`: number of indices the main thread acquires during setup on behalf of thread k+1
/// (they start in that thread's held list, oldest first).
fn body(kind: Kind, cap: usize, progs: Vec<Vec<P>>, pre: Vec<usize>, late_third: bool) -> impl Fn() + Send + Sync + 'static {
    move || {
        let ctx = Arc::new(Ctx { s: make(kind, cap), rec: Rec::new(), tab: Table::new(), recovered: std::sync::Mutex::new(Vec::new()), dead: std::sync::atomic::AtomicBool::new(false) });
        let mut init: Vec<Vec<u32>> = vec![Vec::new(); progs.len()];
        for (k, n) in pre.iter().enumerate() {
            for _ in 0..*n {
                match ctx.acquire(k as u8 + 1) {
                    Some(i) => init[k].push(i),
                    None => ixmc::fail(format!("setup: acquire on a set with free indices failed (capacity {cap})")),
                }
            }
        }
        let mut hs = Vec::new();
        let n_first = if late_third { 2 } else { progs.len() };
        for (prog, held) in progs.iter().take(n_first).cloned().zip(init.iter().cloned()) {
            let ctx = ctx.clone();
            hs.push(ixmc::spawn(move || ctx.run(&prog, None, held)));
        }
        let mut dead_held_at_death: Option<Vec<u32>> = None;
        if late_third {
            let dead = hs.remove(0).join();
            ctx.dead.store(true, StdOrdering::SeqCst);
            for k in 2..progs.len() {
                let (ctx2, prog, held, dead) = (ctx.clone(), progs[k].clone(), init[k].clone(), dead.clone());
                hs.push(ixmc::spawn(move || ctx2.run(&prog, Some(&dead), held)));
            }
            dead_held_at_death = Some(dead);
        }
        for h in hs {
            h.join();
        }

        if let Some(mut want) = dead_held_at_death {
            if progs.iter().skip(2).any(|p| p.iter().any(|x| matches!(x, P::RecoverFirst | P::RecoverFirstLock))) {
                want.sort();
                let mut all = ctx.recovered.lock().unwrap().clone();
                all.sort();
                ixmc::check!(all == want, "recover of the dead owner handed back {all:?} in total, but the owner died holding exactly {want:?}");
            }
        }

        // ---- quiescence: drain probe by the main thread
        let cap32 = ctx.s.capacity();
        let held_before = ctx.tab.held();
        let thread_evs_locked = {
            let g = ctx.rec.evs.lock().unwrap();
            g.iter().any(|e| matches!(e.op, Op::Release { locked: true, .. } | Op::TryLock { locked: true, .. } | Op::RecLock { locked: true, .. }))
        };
        let mut drained: Vec<u32> = Vec::new();
        for _ in 0..=cap32 {
            match ctx.acquire(MAIN) {
                Some(i) => drained.push(i),
                None => break,
            }
        }
        let want = if thread_evs_locked { 0 } else { cap32 as usize - held_before.len() };
        ixmc::check!(
            drained.len() == want,
            "at quiescence {} of {} indices are held ({:?} as (index, holder)), locked = {}: expected to acquire exactly {} more, got {:?}",
            held_before.len(),
            cap32,
            held_before,
            thread_evs_locked,
            want,
            drained
        );
        // buckets that are still held kept their content although everything else was handed out
        for (i, h) in ctx.tab.held() {
            ctx.s.verify_held(h, i);
        }

        // ---- history
        let evs = ctx.rec.take();
        let mut sig: Vec<(usize, Op)> = evs.iter().map(|e| (e.thread, e.op.clone())).collect();
        sig.sort_by_key(|(t, _)| *t);
        ixmc::observe(ixmc::hash_of(&sig));
        notes(&evs, thread_evs_locked);

        let first_thread_call = evs.iter().filter(|e| e.thread != 0).map(|e| e.call).min().unwrap_or(u64::MAX);
        let ok = if ixmc::stale_enabled() {
            sequentially_consistent(St::new(), &evs, &spec(cap32, true), &|a, b| {
                // spawn / join edges: the setup acquires happen before everything, everything
                // happens before the drain; the recovering thread was spawned after the dead
                // thread had been joined
                (a.thread == 0 && a.call < first_thread_call && b.thread != 0)
                    || (b.thread == 0 && b.call > first_thread_call && a.thread != 0)
                    || (late_third && a.thread == 1 && b.thread == 3)
            })
        } else {
            linearizable(St::new(), &evs, &spec(cap32, false))
        };
        let t0 = evs.iter().map(|e| e.call).min().unwrap_or(0);
        ixmc::check!(
            ok,
            "history is not {} against an index set of capacity {}: (thread, call, return, op) {:?}",
            if ixmc::stale_enabled() { "sequentially consistent" } else { "linearizable" },
            cap32,
            evs.iter().map(|e| (e.thread, e.call - t0, e.ret - t0, &e.op)).collect::<Vec<_>>()
        );
    }
}

/// vacuity guards
fn notes(evs: &[Ev<Op>], locked: bool) {
    let threads = |e: &&Ev<Op>| e.thread != 0;
    if evs.iter().filter(threads).any(|e| matches!(e.op, Op::Acquire { res: Err(Fail::Out), .. })) {
        ixmc::note("acquire-failed-when-full");
    }
    if evs.iter().filter(threads).any(|e| matches!(e.op, Op::Acquire { res: Err(Fail::Locked), .. })) {
        ixmc::note("acquire-failed-locked");
    }
    if locked {
        ixmc::note("locked");
    }
    // an index that went through two different holders while the threads were running
    let acq: Vec<(&Ev<Op>, u32, u8)> = evs
        .iter()
        .filter(threads)
        .filter_map(|e| match e.op {
            Op::Acquire { who, res: Ok(i) } => Some((e, i, who)),
            _ => None,
        })
        .collect();
    if acq.iter().any(|(_, i, w)| acq.iter().any(|(_, j, v)| i == j && w != v)) {
        ixmc::note("index-reused");
    }
    // ABA window: while an acquire that finally returned i was in flight, i was handed out to and
    // given back by another thread
    for (a, i, w) in &acq {
        let inside = |e: &Ev<Op>| e.call > a.call && e.ret < a.ret;
        let popped = acq.iter().any(|(e, j, v)| j == i && v != w && e.call > a.call && e.ret < a.ret);
        let pushed = evs.iter().any(|e| {
            inside(e) && matches!(e.op, Op::Release { idx, who, .. } | Op::Free { idx, who, .. } if idx == *i && who != *w)
        });
        if popped && pushed {
            ixmc::note("aba-window");
        }
    }
}

fn main() {
    use P::*;
    let cfg = Config { post_load: true, cell_points: true, stale_reads: true, horizon: 3000, ..Config::default() };

    struct Spec {
        name: &'static str,
        cap: usize,
        progs: Vec<Vec<P>>,
        late_third: bool,
        pre: Vec<usize>,
        kinds: Vec<Kind>,
        notes: Vec<&'static str>,
    }
    use Kind::*;
    let sp = |name, cap, progs: &[&[P]], kinds: &[Kind], notes: &[&'static str]| Spec {
        name,
        cap,
        progs: progs.iter().map(|p| p.to_vec()).collect(),
        late_third: false,
        pre: vec![],
        kinds: kinds.to_vec(),
        notes: notes.to_vec(),
    };
    let all = [Plain, Robust, Pool, ShmPool];
    let sets = [Plain, Robust];
    // The pool allocators are thin wrappers around the plain set: they run the two-thread programs
    // and the decisive three-thread ABA shapes, the sets run everything.
    let specs = vec![
        // capacity 1: every operation collides on the single index
        sp("cap1/ara-ar", 1, &[&[A, RelOld, A], &[A, RelOld]], &all, &["acquire-failed-when-full", "index-reused"]),
        sp("cap1/ar-ar-a", 1, &[&[A, RelOld], &[A, RelOld], &[A]], &sets, &["acquire-failed-when-full", "index-reused"]),
        // capacity 2, ABA shape with two threads: T2 pops 0, pops 1, pushes 0 while T1's pop is in flight
        sp("cap2/aba2:a-aar", 2, &[&[A], &[A, A, RelOld]], &all, &["acquire-failed-when-full", "aba-window"]),
        // the same shape with three threads
        sp("cap2/aba3:a-ar-a", 2, &[&[A], &[A, RelOld], &[A]], &[Plain, Robust, Pool], &["acquire-failed-when-full", "index-reused", "aba-window"]),
        sp("cap2/ara-ara", 2, &[&[A, RelOld, A], &[A, RelOld, A]], &all, &["index-reused"]),
        // the shape only the ABA tag protects (the borrowed counter is back at its old value, too):
        // free list 1 -> 2, index 0 held by T3.  T1 reads head = 1, next = 2 and is preempted;
        // T2 pops 1, T3 pops 2 and pushes 0, T2 pushes 1: head = 1 again, but next is 0 now.
        Spec { pre: vec![0, 0, 1], ..sp("cap3/aba-tag:a-ar-Har", 3, &[&[A], &[A, RelOld], &[A, RelOld]], &[Plain, Pool], &["index-reused", "aba-window"]) },
        // capacity 3: indices stay free, the free list is longer than the contention
        sp("cap3/aar-ar-a", 3, &[&[A, A, RelOld], &[A, RelNew], &[A]], &sets, &["index-reused"]),
        // capacity 4, five acquires
        sp("cap4/aar-aaa", 4, &[&[A, A, RelOld], &[A, A, A]], &[Plain, Robust, Pool], &["index-reused", "acquire-failed-when-full"]),
        // lock-if-last
        sp("cap1/lock:al-aa", 1, &[&[A, RelOldLock], &[A, A]], &sets, &["locked", "acquire-failed-locked", "acquire-failed-when-full"]),
        sp("cap2/lock:al-al-a", 2, &[&[A, RelOldLock], &[A, RelOldLock], &[A]], &sets, &["locked", "acquire-failed-locked"]),
        sp("cap2/lock:aal-ar", 2, &[&[A, A, RelOldLock], &[A, RelOld]], &sets, &["locked", "acquire-failed-when-full"]),
        // recovery of a dead owner (robust set only): T1 dies holding indices, T3 recovers them
        // while T2 keeps acquiring and releasing
        Spec { late_third: true, ..sp("cap2/recover:a|ara|Ra", 2, &[&[A], &[A, RelOld, A], &[RecoverFirst, A]], &[Robust], &["recovered-nonempty", "index-reused"]) },
        Spec { late_third: true, ..sp("cap3/recover:aar|ar|R", 3, &[&[A, A, RelOld], &[A, RelOld], &[RecoverFirst]], &[Robust], &["recovered-nonempty"]) },
        Spec { late_third: true, ..sp("cap2/recover-lock:a|ar|La", 2, &[&[A], &[A, RelOld], &[RecoverFirstLock, A]], &[Robust], &["recovered-nonempty", "locked", "acquire-failed-locked"]) },
        Spec { late_third: true, ..sp("cap1/recover:a|aa|Ra", 1, &[&[A], &[A, A], &[RecoverFirst, A]], &[Robust], &["recovered-nonempty", "acquire-failed-when-full"]) },
        // two processes clean up the same dead owner at once while a third one acquires
        Spec { late_third: true, ..sp("cap1/recover2:a|aa|R|R", 1, &[&[A], &[A, A], &[RecoverFirst], &[RecoverFirst]], &[Robust], &["recovered-nonempty"]) },
        Spec { late_third: true, ..sp("cap2/recover2:aa|a|Ra|R", 2, &[&[A, A], &[A], &[RecoverFirst, A], &[RecoverFirst]], &[Robust], &["recovered-nonempty"]) },
    ];
    let mut cases: Vec<(bool, Case)> = Vec::new();
    for sp in specs {
        for kind in &sp.kinds {
            let kname = match kind {
                Plain => "plain",
                Robust => "robust",
                Pool => "pool",
                ShmPool => "shm-pool",
            };
            // heavy: three threads that all run from the start (~15x the schedules of a two-thread
            // case); medium: three threads of which one starts late, two threads with six operations
            let four = sp.progs.len() >= 4;
            let heavy = (sp.progs.len() == 3 && !sp.late_third) || four;
            let medium = sp.late_third || sp.progs.iter().map(|p| p.len()).sum::<usize>() >= 6;
            cases.push((
                heavy,
                Case {
                    name: format!("{kname}/{}", sp.name),
                    cfg: cfg.clone(),
                    quick: if four { pb(&[(0, 0), (1, 0), (1, 1)]) } else { pb(&[(0, 0), (1, 0), (2, 0), (1, 1)]) },
                    thorough: if four {
                        pb(&[(0, 0), (1, 0), (2, 0), (1, 1)])
                    } else if heavy {
                        pb(&[(0, 0), (1, 0), (2, 0), (3, 0), (2, 1)])
                    } else if medium {
                        pb(&[(0, 0), (1, 0), (2, 0), (3, 0), (2, 1), (3, 1), (2, 2)])
                    } else {
                        pb(&[(0, 0), (1, 0), (2, 0), (3, 0), (4, 0), (3, 1), (2, 2)])
                    },
                    split: if heavy { (2, 8) } else if medium { (1, 8) } else { (1, 4) },
                    body: Arc::new(body(*kind, sp.cap, sp.progs.clone(), sp.pre.clone(), sp.late_third)),
                    required_notes: sp.notes.clone(),
                },
            ));
        }
    }
    // the long jobs are queued first
    cases.sort_by_key(|(heavy, _)| !*heavy);
    ixmc::coord::main("h_idx", "C09", cases.into_iter().map(|(_, c)| c).collect());
}
