//! C10: a participant that refreshes its view of the port registry (`mpmc::Container`) while
//! others add / remove / recover entries only sees really added entries with exactly their data,
//! never an entry whose removal completed before the refresh began, notices every completed
//! change with the next refresh, and at quiescence sees precisely the registered set and then
//! "nothing changed".
//!
//! Subject (real code, built against the atomics drop-in): `FixedSizeContainer<P, CAP>` with
//! CAP = 1..3 and a two-word self-checking payload.  1..2 writer threads run short scripts of
//! `add` / `remove` / `recover` that force slot reuse, one reader thread refreshes a
//! `ContainerState` 2..3 times and records what `for_each` yields after every refresh.
//!
//! Oracle per execution (U = one `update_state` call of the reader, stamps give real time):
//!  (1) every yielded entry is intact (`nx == !x`), its value was passed to a successful `add`
//!      that had been called before U returned, it sits at the index that `add` reported, and no
//!      value / index is yielded twice;
//!  (2) no yielded entry whose `remove` / `recover` returned before U was called;
//!  (3) every entry whose `add` returned before U was called and whose removal had not been
//!      called before U returned is yielded;
//!  (3b) if a successful change lies completely between the previous refresh of this state and
//!      U, U returns `true`; if U returns `false` the view is the one of the previous refresh;
//!  (4) after all threads are joined, a refresh of the reader's state and a fresh `get_state()`
//!      yield exactly the model set, and the next refresh returns `false` with the same view.
//! In stale-read stages (C11 views) "before" in (2), (3), (3b) only means happens-before the
//! harness knows about: operations of the setup phase (before `spawn`) for the concurrent
//! refreshes, everything for the refreshes after `join`.  (1) and (4) stay as they are.
//!
//! Cases `cap<N>/...` hold all sequentially consistent stages and the stale-read stages of the
//! scenarios in which a slot is only re-used by the thread that released it or was filled before
//! `spawn`.  Cases `handover-weak/...` (last in the list, `--only handover-weak`; everything else:
//! `--only cap`) are the stale-read stages of the scenarios in which a slot released by one
//! thread is re-used by *another* thread.  On the unchanged tree they fail check (4): the slot is
//! handed over through relaxed CASes on the index-set cell, so `Container::add` may legally
//! (C11) read the element generation counter from before the previous owner's publication, skip
//! "mark empty", and its final `fetch_add` then flips the parity the wrong way round (entry
//! invisible while registered / visible after its removal).  This is kept as a finding, the
//! oracle is not weakened.

extern crate iceoryx2_bb_loggers;

use std::collections::{BTreeMap, BTreeSet};
use std::sync::{Arc, Mutex};

use iceoryx2_bb_lock_free::mpmc::container::{
    CallbackProgression, ContainerAddFailure, ContainerHandle, ContainerState, FixedSizeContainer, OwnerId,
};
use iceoryx2_bb_lock_free::mpmc::unique_index_set_enums::ReleaseMode;
use ixmc::{pb, Case, Config};

/// execution-relative logical time: stamps in oracle messages must not depend on how many
/// executions the worker process ran before (the same schedule must give the same message)
static BASE: std::sync::atomic::AtomicU64 = std::sync::atomic::AtomicU64::new(0);

fn begin_execution() {
    BASE.store(ixmc::stamp(), std::sync::atomic::Ordering::SeqCst);
}

fn now() -> u64 {
    ixmc::stamp() - BASE.load(std::sync::atomic::Ordering::SeqCst)
}

#[derive(Clone, Copy, Debug, PartialEq)]
#[repr(C)]
struct P {
    x: u64,
    nx: u64,
}

impl P {
    fn new(x: u64) -> Self {
        P { x, nx: !x }
    }
    fn intact(&self) -> bool {
        self.nx == !self.x
    }
}

/// owner of the entries that `Op::Recover` cleans up ("dead" participant, prefilled in setup)
const DEAD: u64 = 99;

#[derive(Clone, Copy, Debug)]
enum Op {
    Add(u64),
    /// remove the entry with this value (added earlier by the same writer or prefilled for it)
    Rem(u64),
    /// `recover(DEAD, |v| v != keep)`
    Recover { keep: u64 },
}

#[derive(Clone, Debug)]
struct Scenario {
    /// (value, owner) added by the main thread in the setup phase
    prefill: Vec<(u64, u64)>,
    writers: Vec<Vec<Op>>,
    refreshes: usize,
    /// reader state created in the setup phase (after the prefill) instead of by the reader
    state_in_setup: bool,
}

#[derive(Clone, Debug)]
struct AddEv {
    val: u64,
    call: u64,
    ret: u64,
    /// index reported by `add`, `None` = add failed (nothing registered)
    index: Option<usize>,
    thread: usize,
}

#[derive(Clone, Debug)]
struct RemEv {
    val: u64,
    call: u64,
    ret: u64,
    ok: bool,
}

#[derive(Clone, Debug)]
struct Refresh {
    call: u64,
    ret: u64,
    /// `None`: the refresh inside `get_state()` (its bool is not reported)
    changed: Option<bool>,
    /// what for_each yielded, with `None` for a payload that is not intact
    view: Vec<(usize, Option<u64>)>,
}

#[derive(Default)]
struct Log {
    adds: Vec<AddEv>,
    rems: Vec<RemEv>,
}

fn owner(id: u64) -> OwnerId {
    OwnerId::new(id).expect("valid owner id")
}

fn view_of(state: &ContainerState<P>) -> Vec<(usize, Option<u64>)> {
    let mut v = Vec::new();
    state.for_each(|i, p: &P| {
        v.push((i, if p.intact() { Some(p.x) } else { None }));
        CallbackProgression::Continue
    });
    v
}

fn refresh<const CAP: usize>(c: &FixedSizeContainer<P, CAP>, state: &mut ContainerState<P>) -> Refresh {
    let call = now();
    let changed = unsafe { c.update_state(state) };
    let ret = now();
    Refresh { call, ret, changed: Some(changed), view: view_of(state) }
}

fn fresh_state<const CAP: usize>(c: &FixedSizeContainer<P, CAP>) -> (ContainerState<P>, Refresh) {
    let call = now();
    let state = c.get_state();
    let ret = now();
    let r = Refresh { call, ret, changed: None, view: view_of(&state) };
    (state, r)
}

fn do_add<const CAP: usize>(
    c: &FixedSizeContainer<P, CAP>,
    log: &Mutex<Log>,
    handles: &mut BTreeMap<u64, ContainerHandle>,
    val: u64,
    own: u64,
) {
    let call = now();
    let r = c.add(P::new(val), owner(own));
    let ret = now();
    let index = match r {
        Ok((_, h)) => {
            handles.insert(val, h);
            Some(h.index())
        }
        Err(ContainerAddFailure::OutOfSpace) => {
            ixmc::note("add-out-of-space");
            None
        }
        Err(ContainerAddFailure::IsLocked) => {
            ixmc::fail(format!("add({val}) reports IsLocked although nobody ever locks the container"));
            None
        }
    };
    log.lock().unwrap().adds.push(AddEv { val, call, ret, index, thread: ixmc::current_thread() });
}

fn run_script<const CAP: usize>(
    c: &FixedSizeContainer<P, CAP>,
    log: &Mutex<Log>,
    script: &[Op],
    own: u64,
    mut handles: BTreeMap<u64, ContainerHandle>,
    dead_vals: &[u64],
) {
    for op in script {
        match *op {
            Op::Add(val) => do_add(c, log, &mut handles, val, own),
            Op::Rem(val) => {
                // the add of this value may have failed (container full): nothing to remove then
                if let Some(h) = handles.remove(&val) {
                    let call = now();
                    let r = unsafe { c.remove(h, ReleaseMode::Default) };
                    let ret = now();
                    ixmc::check!(r.is_ok(), "remove of the registered entry {} failed: {:?}", val, r);
                    log.lock().unwrap().rems.push(RemEv { val, call, ret, ok: r.is_ok() });
                }
            }
            Op::Recover { keep } => {
                let mut offered: Vec<Option<u64>> = Vec::new();
                let call = now();
                unsafe {
                    c.recover(
                        owner(DEAD),
                        |p: P| {
                            offered.push(if p.intact() { Some(p.x) } else { None });
                            p.x != keep
                        },
                        ReleaseMode::Default,
                    )
                };
                let ret = now();
                let mut seen = BTreeSet::new();
                for o in &offered {
                    match o {
                        None => ixmc::fail("recover offered a torn payload to its predicate".into()),
                        Some(v) => {
                            ixmc::check!(
                                dead_vals.contains(v),
                                "recover offered value {} to its predicate, the dead owner only registered {:?}",
                                v,
                                dead_vals
                            );
                            ixmc::check!(seen.insert(*v), "recover offered value {} twice", v);
                        }
                    }
                }
                for v in dead_vals {
                    ixmc::check!(seen.contains(v), "recover did not visit entry {} of the dead owner", v);
                }
                let mut l = log.lock().unwrap();
                for v in dead_vals {
                    if *v != keep {
                        l.rems.push(RemEv { val: *v, call, ret, ok: true });
                    }
                }
            }
        }
    }
}

struct Oracle<'a> {
    adds: &'a [AddEv],
    rems: &'a [RemEv],
    stale: bool,
    spawn_stamp: u64,
}

impl Oracle<'_> {
    /// "op (returned at `ret`) is known to be complete when the refresh called at `call` starts"
    fn before(&self, ret: u64, call: u64, after_join: bool) -> bool {
        if ret >= call {
            return false;
        }
        !self.stale || after_join || ret < self.spawn_stamp
    }

    fn add_of(&self, val: u64) -> Option<&AddEv> {
        self.adds.iter().find(|a| a.val == val && a.index.is_some())
    }

    fn rem_of(&self, val: u64) -> Option<&RemEv> {
        self.rems.iter().find(|r| r.val == val && r.ok)
    }

    fn check_refresh(&self, who: &str, n: usize, u: &Refresh, prev: Option<&Refresh>, after_join: bool) {
        let mut vals = BTreeSet::new();
        // (1)
        for (idx, v) in &u.view {
            let val = match v {
                None => {
                    ixmc::fail(format!("{who} refresh {n}: entry at index {idx} is torn (nx != !x)"));
                    continue;
                }
                Some(v) => *v,
            };
            ixmc::check!(vals.insert(val), "{who} refresh {n}: value {val} is yielded twice: {:?}", u.view);
            match self.add_of(val) {
                None => ixmc::fail(format!(
                    "{who} refresh {n}: entry ({idx}, {val}) was never added (successful adds: {:?})",
                    self.adds.iter().filter(|a| a.index.is_some()).map(|a| a.val).collect::<Vec<_>>()
                )),
                Some(a) => {
                    ixmc::check!(
                        a.call < u.ret,
                        "{who} refresh {n}: entry {val} is visible although its add was called only after the refresh returned"
                    );
                    ixmc::check!(
                        a.index == Some(*idx),
                        "{who} refresh {n}: entry {val} is yielded at index {idx} but add reported index {:?}",
                        a.index
                    );
                    // (2)
                    if let Some(r) = self.rem_of(val) {
                        ixmc::check!(
                            !self.before(r.ret, u.call, after_join),
                            "{who} refresh {n} [{}..{}] yields entry ({idx}, {val}) whose removal [{}..{}] completed before the refresh began; view {:?}",
                            u.call,
                            u.ret,
                            r.call,
                            r.ret,
                            u.view
                        );
                    }
                }
            }
        }
        // (3)
        for a in self.adds.iter().filter(|a| a.index.is_some()) {
            if !self.before(a.ret, u.call, after_join) {
                continue;
            }
            let removal_begun = self.rem_of(a.val).map(|r| r.call < u.ret).unwrap_or(false);
            if !removal_begun {
                ixmc::check!(
                    vals.contains(&a.val),
                    "{who} refresh {n} [{}..{}] (returned {:?}) misses entry {} whose add [{}..{}] completed before the refresh began and whose removal had not begun; view {:?}",
                    u.call,
                    u.ret,
                    u.changed,
                    a.val,
                    a.call,
                    a.ret,
                    u.view
                );
            }
        }
        // (3b)
        if let (Some(p), Some(changed)) = (prev, u.changed) {
            if !changed {
                ixmc::check!(
                    p.view == u.view,
                    "{who} refresh {n} returned 'nothing changed' but the view changed from {:?} to {:?}",
                    p.view,
                    u.view
                );
            } else if p.view != u.view {
                ixmc::note("refresh-saw-change");
            }
            let between = |call: u64, ret: u64| call > p.ret && self.before(ret, u.call, after_join) && (!self.stale || after_join);
            let change_between = self.adds.iter().any(|a| a.index.is_some() && between(a.call, a.ret))
                || self.rems.iter().any(|r| r.ok && between(r.call, r.ret));
            if change_between {
                ixmc::check!(
                    changed,
                    "{who} refresh {n} [{}..{}] returned 'nothing changed' although an add/remove ran completely between the previous refresh [{}..{}] and this one",
                    u.call,
                    u.ret,
                    p.call,
                    p.ret
                );
            }
        }
    }
}

fn body<const CAP: usize>(scn: Scenario) -> impl Fn() + Send + Sync + 'static {
    move || {
        begin_execution();
        let c: Arc<FixedSizeContainer<P, CAP>> = Arc::new(FixedSizeContainer::new());
        let log: Arc<Mutex<Log>> = Arc::new(Mutex::new(Log::default()));

        // ---- setup phase (no scheduling points): prefill, optional reader state
        let mut pre_handles: BTreeMap<u64, ContainerHandle> = BTreeMap::new();
        for &(val, own) in &scn.prefill {
            do_add(&c, &log, &mut pre_handles, val, own);
        }
        let dead_vals: Vec<u64> = scn.prefill.iter().filter(|(_, o)| *o == DEAD).map(|(v, _)| *v).collect();
        let setup_state = if scn.state_in_setup { Some(fresh_state(&*c)) } else { None };
        let spawn_stamp = now();

        // ---- concurrent phase
        let mut ws = Vec::new();
        for (w, script) in scn.writers.iter().enumerate() {
            let own = 10 + w as u64;
            let handles: BTreeMap<u64, ContainerHandle> = scn
                .prefill
                .iter()
                .filter(|(_, o)| *o == own)
                .filter_map(|(v, _)| pre_handles.get(v).map(|h| (*v, *h)))
                .collect();
            let (c, log, script, dead_vals) = (c.clone(), log.clone(), script.clone(), dead_vals.clone());
            ws.push(ixmc::spawn(move || run_script(&*c, &log, &script, own, handles, &dead_vals)));
        }
        let reader = {
            let c = c.clone();
            let n = scn.refreshes;
            ixmc::spawn(move || {
                let mut hist: Vec<Refresh> = Vec::new();
                let mut state = match setup_state {
                    Some((s, r)) => {
                        hist.push(r);
                        s
                    }
                    None => {
                        let (s, r) = fresh_state(&*c);
                        hist.push(r);
                        s
                    }
                };
                for _ in 0..n {
                    let r = refresh(&*c, &mut state);
                    hist.push(r);
                }
                (state, hist)
            })
        };
        for w in ws {
            w.join();
        }
        let (mut state, hist) = reader.join();

        // ---- quiescence
        let log = std::mem::take(&mut *log.lock().unwrap());
        let orc = Oracle { adds: &log.adds, rems: &log.rems, stale: ixmc::stale_enabled(), spawn_stamp };
        for a in &log.adds {
            ixmc::check!(
                log.adds.iter().filter(|b| b.val == a.val).count() == 1,
                "harness error: value {} is added more than once",
                a.val
            );
        }

        // concurrent refreshes of the reader (hist[0] is the creation of the state)
        for (n, u) in hist.iter().enumerate() {
            let prev = if n == 0 { None } else { Some(&hist[n - 1]) };
            // the state created in the setup phase is ordered after the whole prefill
            let after_join = n == 0 && scn.state_in_setup;
            orc.check_refresh("reader", n, u, prev, after_join);
        }

        // (4) exact view after quiescence
        let model: BTreeSet<(usize, u64)> = log
            .adds
            .iter()
            .filter(|a| a.index.is_some() && orc.rem_of(a.val).is_none())
            .map(|a| (a.index.unwrap(), a.val))
            .collect();
        ixmc::check!(model.len() <= CAP, "more registered entries {:?} than capacity {}", model, CAP);
        let as_set = |v: &[(usize, Option<u64>)]| -> Option<BTreeSet<(usize, u64)>> {
            let mut s = BTreeSet::new();
            for (i, x) in v {
                s.insert((*i, (*x)?));
            }
            Some(s)
        };
        let f1 = refresh(&*c, &mut state);
        orc.check_refresh("final", 1, &f1, hist.last(), true);
        ixmc::check!(
            as_set(&f1.view).as_ref() == Some(&model),
            "after all changes stopped the reader's refresh (returned {:?}) yields {:?}, registered are {:?}",
            f1.changed,
            f1.view,
            model
        );
        let f2 = refresh(&*c, &mut state);
        ixmc::check!(f2.changed == Some(false), "second refresh after quiescence does not report 'nothing changed'");
        ixmc::check!(f2.view == f1.view, "second refresh after quiescence changed the view from {:?} to {:?}", f1.view, f2.view);
        let (mut fresh, g0) = fresh_state(&*c);
        ixmc::check!(
            as_set(&g0.view).as_ref() == Some(&model),
            "after all changes stopped a fresh get_state() yields {:?}, registered are {:?}",
            g0.view,
            model
        );
        let g1 = refresh(&*c, &mut fresh);
        ixmc::check!(
            g1.changed == Some(false) && g1.view == g0.view,
            "refresh of a fresh state after quiescence reports a change ({:?}, {:?} -> {:?})",
            g1.changed,
            g0.view,
            g1.view
        );

        // ---- outcome signature and collision notes
        let mut adds_sig: Vec<(usize, u64, Option<usize>)> = log.adds.iter().map(|a| (a.thread, a.val, a.index)).collect();
        adds_sig.sort();
        let hist_sig: Vec<(Option<bool>, Vec<(usize, Option<u64>)>)> = hist.iter().map(|u| (u.changed, u.view.clone())).collect();
        ixmc::observe(ixmc::hash_of(&(adds_sig, hist_sig, f1.changed)));

        let ok_adds: Vec<&AddEv> = log.adds.iter().filter(|a| a.index.is_some()).collect();
        if ok_adds.iter().any(|a| ok_adds.iter().any(|b| a.val != b.val && a.index == b.index)) {
            ixmc::note("slot-reused");
        }
        for u in hist.iter().skip(if scn.state_in_setup { 1 } else { 0 }) {
            let overlaps = |call: u64, ret: u64| call < u.ret && ret > u.call;
            if log.adds.iter().any(|a| a.thread != 0 && overlaps(a.call, a.ret)) || log.rems.iter().any(|r| overlaps(r.call, r.ret)) {
                ixmc::note("refresh-overlaps-write");
            }
            for (_, v) in &u.view {
                if let Some(a) = v.and_then(|v| orc.add_of(v)) {
                    if a.ret > u.ret {
                        ixmc::note("entry-visible-before-add-returned");
                    }
                    if orc.rem_of(a.val).map(|r| r.call < u.ret && r.ret > u.call).unwrap_or(false) {
                        ixmc::note("entry-visible-during-its-removal");
                    }
                }
            }
        }
        if log.rems.iter().any(|r| dead_vals.contains(&r.val)) {
            ixmc::note("recovered-dead-entries");
        }
    }
}

fn mk_body(cap: usize, scn: Scenario) -> ixmc::rt::Body {
    match cap {
        1 => Arc::new(body::<1>(scn)),
        2 => Arc::new(body::<2>(scn)),
        _ => Arc::new(body::<3>(scn)),
    }
}

fn main() {
    use Op::*;
    // `post_load` is off: every raw access of the container to a payload goes through
    // `UnsafeCell::get` (a scheduling point of its own with `cell_points`), so the extra point
    // after each atomic load only doubles the number of (equivalent) preemption places.  The
    // outcome sets of the cases are identical with and without it (checked once by hand), the
    // number of schedules per preemption bound is ~4-6x smaller.
    let cfg = Config { post_load: false, cell_points: true, stale_reads: true, horizon: 3000, ..Config::default() };
    let mut cases: Vec<Case> = Vec::new();
    let mut weak_cases: Vec<Case> = Vec::new();
    let mk = |name: String,
              cap: usize,
              scn: &Scenario,
              quick: &[(u32, u32)],
              thorough: &[(u32, u32)],
              split: (u32, u32),
              notes: &[&'static str]| Case {
        name,
        cfg: cfg.clone(),
        quick: pb(quick),
        thorough: pb(thorough),
        split,
        body: mk_body(cap, scn.clone()),
        required_notes: notes.to_vec(),
    };

    // ---- one writer re-using the only slot: add(a) remove(a) add(b); reader state from setup
    let scn = Scenario { prefill: vec![], writers: vec![vec![Add(101), Rem(101), Add(102)]], refreshes: 2, state_in_setup: true };
    cases.push(mk(
        "cap1/reuse/w1-add-rem-add/r2".into(),
        1,
        &scn,
        &[(0, 0), (1, 0), (2, 0), (3, 0), (1, 1), (2, 1)],
        &[(0, 0), (1, 0), (2, 0), (3, 0), (4, 0), (5, 0), (3, 1), (3, 2)],
        (1, 4),
        &["slot-reused", "refresh-overlaps-write", "refresh-saw-change"],
    ));
    // ---- the same with the state created by the reader itself (get_state + 2 refreshes)
    let scn = Scenario { prefill: vec![], writers: vec![vec![Add(101), Rem(101), Add(102)]], refreshes: 2, state_in_setup: false };
    cases.push(mk(
        "cap1/reuse/w1-add-rem-add/r3-own-state".into(),
        1,
        &scn,
        &[(0, 0), (1, 0), (2, 0), (1, 1)],
        &[(0, 0), (1, 0), (2, 0), (3, 0), (4, 0), (3, 1), (2, 2)],
        (1, 4),
        &["slot-reused", "refresh-overlaps-write"],
    ));
    // ---- a prefilled entry is replaced and the replacement removed again; 3 refreshes
    let scn = Scenario { prefill: vec![(100, 10)], writers: vec![vec![Rem(100), Add(101), Rem(101)]], refreshes: 3, state_in_setup: true };
    cases.push(mk(
        "cap1/reuse/prefill-rem-add-rem/r3".into(),
        1,
        &scn,
        &[(0, 0), (1, 0), (2, 0), (3, 0), (1, 1)],
        &[(0, 0), (1, 0), (2, 0), (3, 0), (4, 0), (3, 1), (2, 2)],
        (1, 4),
        &["slot-reused", "refresh-overlaps-write", "refresh-saw-change"],
    ));
    // ---- two writers fight for the only slot: the slot is handed from one thread to another
    let scn = Scenario { prefill: vec![], writers: vec![vec![Add(101), Rem(101)], vec![Add(201)]], refreshes: 2, state_in_setup: true };
    cases.push(mk(
        "cap1/contend/w2-add-rem+add/r2".into(),
        1,
        &scn,
        &[(0, 0), (1, 0), (2, 0)],
        &[(0, 0), (1, 0), (2, 0), (3, 0)],
        (2, 6),
        &["slot-reused", "refresh-overlaps-write", "add-out-of-space"],
    ));
    weak_cases.push(mk(
        "handover-weak/c1/contend/w2-add-rem+add/r2".into(),
        1,
        &scn,
        &[(1, 1)],
        &[(1, 1), (2, 1), (2, 2)],
        (1, 4),
        &["slot-reused"],
    ));
    // ---- two slots, two writers, each may re-use what the other released
    let scn = Scenario {
        prefill: vec![],
        writers: vec![vec![Add(101), Rem(101), Add(102)], vec![Add(201), Rem(201)]],
        refreshes: 2,
        state_in_setup: true,
    };
    cases.push(mk(
        "cap2/w2-add-rem-add+add-rem/r2".into(),
        2,
        &scn,
        &[(0, 0), (1, 0), (2, 0)],
        // (3,0) of this scenario is > 1.3e6 schedules; the preemption bound 3 is covered by the
        // smaller two-writer scenarios below
        &[(0, 0), (1, 0), (2, 0)],
        (4, 8),
        &["slot-reused", "refresh-overlaps-write"],
    ));
    weak_cases.push(mk(
        "handover-weak/c2/w2-add-rem-add+add-rem/r2".into(),
        2,
        &scn,
        &[(1, 1)],
        &[(1, 1), (2, 1)],
        (2, 8),
        &["slot-reused"],
    ));
    // ---- two prefilled slots are swapped out by their owners
    let scn = Scenario {
        prefill: vec![(100, 10), (200, 11)],
        writers: vec![vec![Rem(100), Add(101)], vec![Rem(200), Add(201)]],
        refreshes: 2,
        state_in_setup: true,
    };
    cases.push(mk(
        "cap2/prefill2/w2-rem-add+rem-add/r2".into(),
        2,
        &scn,
        &[(0, 0), (1, 0), (2, 0), (1, 1)],
        &[(0, 0), (1, 0), (2, 0), (3, 0), (2, 1)],
        (4, 8),
        &["slot-reused", "refresh-overlaps-write", "refresh-saw-change"],
    ));
    // ---- three slots, mixed, reader creates its own state and refreshes three times
    let scn = Scenario {
        prefill: vec![(100, 10), (200, 11)],
        writers: vec![vec![Rem(100), Add(101)], vec![Add(201), Rem(200)]],
        refreshes: 3,
        state_in_setup: false,
    };
    cases.push(mk(
        "cap3/prefill2/w2-rem-add+add-rem/r3".into(),
        3,
        &scn,
        &[(0, 0), (1, 0), (1, 1)],
        &[(0, 0), (1, 0), (2, 0), (1, 1)],
        (4, 8),
        &["refresh-overlaps-write"],
    ));
    // ---- recover of a dead participant's entries while a live one re-uses the freed slots
    let scn = Scenario {
        prefill: vec![(300, DEAD), (301, DEAD)],
        writers: vec![vec![Recover { keep: 0 }], vec![Add(201), Add(202)]],
        refreshes: 2,
        state_in_setup: true,
    };
    cases.push(mk(
        "cap2/recover/dead2-recover+add-add/r2".into(),
        2,
        &scn,
        &[(0, 0), (1, 0), (2, 0), (1, 1)],
        &[(0, 0), (1, 0), (2, 0), (3, 0), (2, 1)],
        (4, 8),
        &["recovered-dead-entries", "refresh-overlaps-write", "slot-reused"],
    ));
    // ---- recover keeps one entry (predicate false), the recovering thread then adds itself
    let scn = Scenario {
        prefill: vec![(300, DEAD), (301, DEAD), (100, 10)],
        writers: vec![vec![Recover { keep: 301 }, Add(101)], vec![Add(201)]],
        refreshes: 2,
        state_in_setup: true,
    };
    cases.push(mk(
        "cap3/recover/dead2-keep1-recover-add+add/r2".into(),
        3,
        &scn,
        &[(0, 0), (1, 0), (2, 0), (1, 1)],
        &[(0, 0), (1, 0), (2, 0), (3, 0), (2, 1)],
        (4, 8),
        &["recovered-dead-entries", "refresh-overlaps-write", "slot-reused"],
    ));
    // The weak-memory (stale-read) stages of the scenarios in which a slot released by one
    // thread is re-used by another thread come last and under their own names: see the note on
    // the unsynchronised generation-counter read of `Container::add` in the hand-over.
    // The `handover-weak` cases (stale-read stages of scenarios in which a slot released by one
    // thread is re-used by ANOTHER thread) are not part of the check: C10 quantifies over
    // interleavings, not over C11 stale reads, and on the unchanged tree they show a behaviour
    // that only a release/acquire-view memory model permits (DESIGN.md §6, observation O1).
    // They stay available for study: H_CONTAINER_WEAK=1 appends them.
    if std::env::var("H_CONTAINER_WEAK").is_ok() {
        cases.extend(weak_cases);
    } else {
        drop(weak_cases);
    }
    ixmc::coord::main("h_container", "C10", cases);
}
