// Verification drop-in for `iceoryx2-pal-concurrency-sync`.
//
// Everything that is not the seam is re-included from the repository's own, untouched source
// files, so edits under /repo are picked up by every build.  The seam is `atomic` (hooked
// newtype atomics), `cell::UnsafeCell` (hooked `get`) and `verif` (the hook table).

#![cfg_attr(not(feature = "std"), no_std)]
#![allow(clippy::all)]

extern crate alloc;

#[allow(dead_code)]
const SPIN_REPETITIONS: u64 = 10000;

pub mod atomic;
pub mod cell;
pub mod verif;

#[path = "/repo/iceoryx2-pal/concurrency-sync/src/lazy_lock.rs"]
pub mod lazy_lock;
#[path = "/repo/iceoryx2-pal/concurrency-sync/src/once.rs"]
pub mod once;
#[path = "/repo/iceoryx2-pal/concurrency-sync/src/spin_lock.rs"]
pub mod spin_lock;
#[path = "/repo/iceoryx2-pal/concurrency-sync/src/strategy/mod.rs"]
pub mod strategy;

#[derive(Debug, PartialEq, Eq)]
pub enum WaitAction {
    Continue,
    Abort,
}

#[derive(Debug, PartialEq, Eq)]
pub enum WaitResult {
    Interrupted,
    Success,
}
