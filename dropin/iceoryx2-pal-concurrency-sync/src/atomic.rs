//! `atomic` of the drop-in.
//!
//! The integer and bool atomics are `#[repr(transparent)]` newtypes over the `core` atomics
//! (identical layout, zero-initialisable, `const fn new`), so they are valid in statics and in
//! real shared memory.  Every operation first looks at the hook table of [`crate::verif`]; if a
//! table is installed the *hook* performs the operation (so that the controlled scheduler can
//! place a context switch before it, decide which store a load observes, and log it), otherwise
//! the plain `core` operation runs.
//!
//! The lock based `Atomic<T>` at the end of this file is a verbatim copy of the repository's
//! (it cannot be re-included: its `const fn as_ptr` calls `UnsafeCell::get`, which is not const
//! once it carries a hook).  Nothing outside its own tests uses it.

use core::{
    fmt::Debug,
    marker::Copy,
    ops::{AddAssign, BitAndAssign, BitOrAssign, BitXorAssign, Not, SubAssign},
};

#[allow(clippy::disallowed_types)]
pub type Ordering = core::sync::atomic::Ordering;

use crate::WaitAction;
use crate::cell::UnsafeCell;
use crate::strategy::rwlock::RwLockWriterPreference;
use crate::verif::{self, Op};

#[inline(always)]
pub fn fence(order: Ordering) {
    match verif::table() {
        Some(t) => (t.fence)(order),
        None => core::sync::atomic::fence(order),
    }
}

#[inline(always)]
fn failure_of(order: Ordering) -> Ordering {
    match order {
        Ordering::Release | Ordering::Relaxed => Ordering::Relaxed,
        Ordering::Acquire | Ordering::AcqRel => Ordering::Acquire,
        _ => Ordering::SeqCst,
    }
}

macro_rules! hooked_int {
    ($name:ident, $core:ident, $t:ty, $ut:ty, $max:expr, $min:expr) => {
        #[repr(transparent)]
        pub struct $name(core::sync::atomic::$core);

        impl Default for $name {
            fn default() -> Self {
                Self::new(0)
            }
        }

        impl From<$t> for $name {
            fn from(v: $t) -> Self {
                Self::new(v)
            }
        }

        impl Debug for $name {
            fn fmt(&self, f: &mut core::fmt::Formatter<'_>) -> core::fmt::Result {
                Debug::fmt(&self.load(Ordering::Relaxed), f)
            }
        }

        impl $name {
            #[inline(always)]
            pub const fn new(v: $t) -> Self {
                Self(core::sync::atomic::$core::new(v))
            }

            #[inline(always)]
            pub const fn as_ptr(&self) -> *mut $t {
                self.0.as_ptr()
            }

            /// # Safety
            /// see `core::sync::atomic`
            #[inline(always)]
            pub const unsafe fn from_ptr<'a>(ptr: *mut $t) -> &'a Self {
                unsafe { &*(ptr as *const Self) }
            }

            #[inline(always)]
            pub fn get_mut(&mut self) -> &mut $t {
                self.0.get_mut()
            }

            #[inline(always)]
            pub const fn into_inner(self) -> $t {
                self.0.into_inner()
            }

            #[inline(always)]
            fn hook(&self, op: Op, a: $t, b: $t, s: Ordering, f: Ordering) -> Option<($t, bool)> {
                match verif::table() {
                    None => None,
                    Some(t) => {
                        let r = unsafe {
                            (t.atomic)(
                                self.0.as_ptr() as *mut u8,
                                core::mem::size_of::<$t>() as u8,
                                op,
                                a as $ut as u64,
                                b as $ut as u64,
                                s,
                                f,
                            )
                        };
                        Some((r.old as $ut as $t, r.ok))
                    }
                }
            }

            #[inline(always)]
            pub fn load(&self, order: Ordering) -> $t {
                match self.hook(Op::Load, 0, 0, order, order) {
                    Some((v, _)) => v,
                    None => self.0.load(order),
                }
            }

            #[inline(always)]
            pub fn store(&self, v: $t, order: Ordering) {
                if self.hook(Op::Store, v, 0, order, order).is_none() {
                    self.0.store(v, order)
                }
            }

            #[inline(always)]
            pub fn swap(&self, v: $t, order: Ordering) -> $t {
                match self.hook(Op::Swap, v, 0, order, failure_of(order)) {
                    Some((o, _)) => o,
                    None => self.0.swap(v, order),
                }
            }

            #[inline(always)]
            pub fn compare_exchange(
                &self,
                current: $t,
                new: $t,
                success: Ordering,
                failure: Ordering,
            ) -> Result<$t, $t> {
                match self.hook(Op::Cas, current, new, success, failure) {
                    Some((o, true)) => Ok(o),
                    Some((o, false)) => Err(o),
                    None => self.0.compare_exchange(current, new, success, failure),
                }
            }

            #[inline(always)]
            pub fn compare_exchange_weak(
                &self,
                current: $t,
                new: $t,
                success: Ordering,
                failure: Ordering,
            ) -> Result<$t, $t> {
                match self.hook(Op::Cas, current, new, success, failure) {
                    Some((o, true)) => Ok(o),
                    Some((o, false)) => Err(o),
                    None => self.0.compare_exchange_weak(current, new, success, failure),
                }
            }

            #[inline(always)]
            pub fn fetch_add(&self, v: $t, order: Ordering) -> $t {
                match self.hook(Op::Add, v, 0, order, failure_of(order)) {
                    Some((o, _)) => o,
                    None => self.0.fetch_add(v, order),
                }
            }

            #[inline(always)]
            pub fn fetch_sub(&self, v: $t, order: Ordering) -> $t {
                match self.hook(Op::Sub, v, 0, order, failure_of(order)) {
                    Some((o, _)) => o,
                    None => self.0.fetch_sub(v, order),
                }
            }

            #[inline(always)]
            pub fn fetch_and(&self, v: $t, order: Ordering) -> $t {
                match self.hook(Op::And, v, 0, order, failure_of(order)) {
                    Some((o, _)) => o,
                    None => self.0.fetch_and(v, order),
                }
            }

            #[inline(always)]
            pub fn fetch_or(&self, v: $t, order: Ordering) -> $t {
                match self.hook(Op::Or, v, 0, order, failure_of(order)) {
                    Some((o, _)) => o,
                    None => self.0.fetch_or(v, order),
                }
            }

            #[inline(always)]
            pub fn fetch_xor(&self, v: $t, order: Ordering) -> $t {
                match self.hook(Op::Xor, v, 0, order, failure_of(order)) {
                    Some((o, _)) => o,
                    None => self.0.fetch_xor(v, order),
                }
            }

            #[inline(always)]
            pub fn fetch_nand(&self, v: $t, order: Ordering) -> $t {
                match self.hook(Op::Nand, v, 0, order, failure_of(order)) {
                    Some((o, _)) => o,
                    None => self.0.fetch_nand(v, order),
                }
            }

            #[inline(always)]
            pub fn fetch_max(&self, v: $t, order: Ordering) -> $t {
                match self.hook($max, v, 0, order, failure_of(order)) {
                    Some((o, _)) => o,
                    None => self.0.fetch_max(v, order),
                }
            }

            #[inline(always)]
            pub fn fetch_min(&self, v: $t, order: Ordering) -> $t {
                match self.hook($min, v, 0, order, failure_of(order)) {
                    Some((o, _)) => o,
                    None => self.0.fetch_min(v, order),
                }
            }

            pub fn fetch_update<F: FnMut($t) -> Option<$t>>(
                &self,
                set_order: Ordering,
                fetch_order: Ordering,
                mut f: F,
            ) -> Result<$t, $t> {
                let mut prev = self.load(fetch_order);
                while let Some(next) = f(prev) {
                    match self.compare_exchange_weak(prev, next, set_order, fetch_order) {
                        x @ Ok(_) => return x,
                        Err(next_prev) => prev = next_prev,
                    }
                }
                Err(prev)
            }
        }
    };
}

hooked_int!(AtomicU8, AtomicU8, u8, u8, Op::MaxU, Op::MinU);
hooked_int!(AtomicU16, AtomicU16, u16, u16, Op::MaxU, Op::MinU);
hooked_int!(AtomicU32, AtomicU32, u32, u32, Op::MaxU, Op::MinU);
hooked_int!(AtomicU64, AtomicU64, u64, u64, Op::MaxU, Op::MinU);
hooked_int!(AtomicUsize, AtomicUsize, usize, usize, Op::MaxU, Op::MinU);
hooked_int!(AtomicI8, AtomicI8, i8, u8, Op::MaxS, Op::MinS);
hooked_int!(AtomicI16, AtomicI16, i16, u16, Op::MaxS, Op::MinS);
hooked_int!(AtomicI32, AtomicI32, i32, u32, Op::MaxS, Op::MinS);
hooked_int!(AtomicI64, AtomicI64, i64, u64, Op::MaxS, Op::MinS);
hooked_int!(AtomicIsize, AtomicIsize, isize, usize, Op::MaxS, Op::MinS);

#[repr(transparent)]
pub struct AtomicBool(core::sync::atomic::AtomicBool);

impl Default for AtomicBool {
    fn default() -> Self {
        Self::new(false)
    }
}

impl From<bool> for AtomicBool {
    fn from(v: bool) -> Self {
        Self::new(v)
    }
}

impl Debug for AtomicBool {
    fn fmt(&self, f: &mut core::fmt::Formatter<'_>) -> core::fmt::Result {
        Debug::fmt(&self.load(Ordering::Relaxed), f)
    }
}

impl AtomicBool {
    #[inline(always)]
    pub const fn new(v: bool) -> Self {
        Self(core::sync::atomic::AtomicBool::new(v))
    }

    #[inline(always)]
    pub const fn as_ptr(&self) -> *mut bool {
        self.0.as_ptr()
    }

    /// # Safety
    /// see `core::sync::atomic`
    #[inline(always)]
    pub const unsafe fn from_ptr<'a>(ptr: *mut bool) -> &'a Self {
        unsafe { &*(ptr as *const Self) }
    }

    #[inline(always)]
    pub fn get_mut(&mut self) -> &mut bool {
        self.0.get_mut()
    }

    #[inline(always)]
    pub const fn into_inner(self) -> bool {
        self.0.into_inner()
    }

    #[inline(always)]
    fn hook(&self, op: Op, a: bool, b: bool, s: Ordering, f: Ordering) -> Option<(bool, bool)> {
        match verif::table() {
            None => None,
            Some(t) => {
                let r = unsafe {
                    (t.atomic)(self.0.as_ptr() as *mut u8, 1, op, a as u64, b as u64, s, f)
                };
                Some((r.old != 0, r.ok))
            }
        }
    }

    #[inline(always)]
    pub fn load(&self, order: Ordering) -> bool {
        match self.hook(Op::Load, false, false, order, order) {
            Some((v, _)) => v,
            None => self.0.load(order),
        }
    }

    #[inline(always)]
    pub fn store(&self, v: bool, order: Ordering) {
        if self.hook(Op::Store, v, false, order, order).is_none() {
            self.0.store(v, order)
        }
    }

    #[inline(always)]
    pub fn swap(&self, v: bool, order: Ordering) -> bool {
        match self.hook(Op::Swap, v, false, order, failure_of(order)) {
            Some((o, _)) => o,
            None => self.0.swap(v, order),
        }
    }

    #[inline(always)]
    pub fn compare_exchange(
        &self,
        current: bool,
        new: bool,
        success: Ordering,
        failure: Ordering,
    ) -> Result<bool, bool> {
        match self.hook(Op::Cas, current, new, success, failure) {
            Some((o, true)) => Ok(o),
            Some((o, false)) => Err(o),
            None => self.0.compare_exchange(current, new, success, failure),
        }
    }

    #[inline(always)]
    pub fn compare_exchange_weak(
        &self,
        current: bool,
        new: bool,
        success: Ordering,
        failure: Ordering,
    ) -> Result<bool, bool> {
        self.compare_exchange(current, new, success, failure)
    }

    #[inline(always)]
    pub fn fetch_and(&self, v: bool, order: Ordering) -> bool {
        match self.hook(Op::And, v, false, order, failure_of(order)) {
            Some((o, _)) => o,
            None => self.0.fetch_and(v, order),
        }
    }

    #[inline(always)]
    pub fn fetch_or(&self, v: bool, order: Ordering) -> bool {
        match self.hook(Op::Or, v, false, order, failure_of(order)) {
            Some((o, _)) => o,
            None => self.0.fetch_or(v, order),
        }
    }

    #[inline(always)]
    pub fn fetch_xor(&self, v: bool, order: Ordering) -> bool {
        match self.hook(Op::Xor, v, false, order, failure_of(order)) {
            Some((o, _)) => o,
            None => self.0.fetch_xor(v, order),
        }
    }

    #[inline(always)]
    pub fn fetch_nand(&self, v: bool, order: Ordering) -> bool {
        // !(old & v) restricted to one bit == old ^ 1 if v else 1
        if verif::table().is_some() {
            self.fetch_update(order, failure_of(order), |o| Some(!(o & v))).unwrap()
        } else {
            self.0.fetch_nand(v, order)
        }
    }

    #[inline(always)]
    pub fn fetch_not(&self, order: Ordering) -> bool {
        self.fetch_xor(true, order)
    }

    pub fn fetch_update<F: FnMut(bool) -> Option<bool>>(
        &self,
        set_order: Ordering,
        fetch_order: Ordering,
        mut f: F,
    ) -> Result<bool, bool> {
        let mut prev = self.load(fetch_order);
        while let Some(next) = f(prev) {
            match self.compare_exchange_weak(prev, next, set_order, fetch_order) {
                x @ Ok(_) => return x,
                Err(next_prev) => prev = next_prev,
            }
        }
        Err(prev)
    }
}

type LockType = RwLockWriterPreference;

#[doc(hidden)]
pub mod internal {
    use core::ops::BitAnd;

    use super::*;

    pub trait AtomicInteger:
        Copy
        + Default
        + Send
        + Eq
        + AddAssign
        + SubAssign
        + BitAndAssign
        + BitOrAssign
        + BitXorAssign
        + BitAnd<Output = Self>
        + Ord
        + Not<Output = Self>
        + core::fmt::Debug
    {
        fn overflowing_add(self, rhs: Self) -> (Self, bool);
        fn overflowing_sub(self, rhs: Self) -> (Self, bool);
    }

    impl AtomicInteger for u64 {
        fn overflowing_add(self, rhs: Self) -> (Self, bool) {
            self.overflowing_add(rhs)
        }

        fn overflowing_sub(self, rhs: Self) -> (Self, bool) {
            self.overflowing_sub(rhs)
        }
    }

    impl AtomicInteger for u128 {
        fn overflowing_add(self, rhs: Self) -> (Self, bool) {
            self.overflowing_add(rhs)
        }

        fn overflowing_sub(self, rhs: Self) -> (Self, bool) {
            self.overflowing_sub(rhs)
        }
    }

    impl AtomicInteger for i64 {
        fn overflowing_add(self, rhs: Self) -> (Self, bool) {
            self.overflowing_add(rhs)
        }

        fn overflowing_sub(self, rhs: Self) -> (Self, bool) {
            self.overflowing_sub(rhs)
        }
    }

    impl AtomicInteger for i128 {
        fn overflowing_add(self, rhs: Self) -> (Self, bool) {
            self.overflowing_add(rhs)
        }

        fn overflowing_sub(self, rhs: Self) -> (Self, bool) {
            self.overflowing_sub(rhs)
        }
    }
}

/// iceoryx2 implementation of an atomic that has an internal [`RwLockWriterPreference`].
/// It enables atomic operations on platforms that do not support them with the restriction that
/// those operations are no longer lock-free.
#[derive(Default)]
#[repr(C)]
pub struct Atomic<T: internal::AtomicInteger> {
    data: UnsafeCell<T>,
    lock: LockType,
}

unsafe impl<T: internal::AtomicInteger> Send for Atomic<T> {}
unsafe impl<T: internal::AtomicInteger> Sync for Atomic<T> {}

impl<T: internal::AtomicInteger> Debug for Atomic<T> {
    fn fmt(&self, f: &mut core::fmt::Formatter<'_>) -> core::fmt::Result {
        write!(
            f,
            "Atomic<{}> {{ value: {:?} }}",
            core::any::type_name::<T>(),
            self.load(Ordering::Relaxed),
        )
    }
}

impl<T: internal::AtomicInteger> Atomic<T> {
    /// See [`core::sync::atomic::AtomicU64::new()`]
    #[cfg(not(all(test, loom, feature = "std")))]
    pub const fn new(v: T) -> Self {
        Self {
            data: UnsafeCell::new(v),
            lock: LockType::new(),
        }
    }

    /// See [`core::sync::atomic::AtomicU64::new()`]
    #[cfg(all(test, loom, feature = "std"))]
    pub fn new(v: T) -> Self {
        Self {
            data: UnsafeCell::new(v),
            lock: LockType::new(),
        }
    }

    fn read_lock(&self) {
        self.lock.read_lock(|_, _| WaitAction::Continue);
    }

    fn write_lock(&self) {
        self.lock
            .write_lock(|_, _| WaitAction::Continue, |_| {}, |_| {});
    }

    fn unlock(&self) {
        self.lock.unlock(|_| {}, |_| {});
    }

    /// See [`core::sync::atomic::AtomicU64::as_ptr()`]
    pub const fn as_ptr(&self) -> *mut T {
        UnsafeCell::raw_get(&self.data)
    }

    /// See [`core::sync::atomic::AtomicU64::compare_exchange()`]
    pub fn compare_exchange(
        &self,
        current: T,
        new: T,
        _success: Ordering,
        _failure: Ordering,
    ) -> Result<T, T> {
        self.write_lock();
        let data = unsafe { *self.data.get() };
        if data != current {
            fence(Ordering::SeqCst);
            self.unlock();
            return Err(data);
        }

        unsafe { *self.data.get() = new };
        fence(Ordering::SeqCst);
        self.unlock();
        Ok(data)
    }

    /// See [`core::sync::atomic::AtomicU64::compare_exchange_weak()`]
    pub fn compare_exchange_weak(
        &self,
        current: T,
        new: T,
        success: Ordering,
        failure: Ordering,
    ) -> Result<T, T> {
        self.compare_exchange(current, new, success, failure)
    }

    fn fetch_op<F: FnOnce() -> T>(&self, op: F, _order: Ordering) -> T {
        self.write_lock();
        let data = op();
        fence(Ordering::SeqCst);
        self.unlock();
        data
    }

    /// See [`core::sync::atomic::AtomicU64::fetch_add()`]
    pub fn fetch_add(&self, value: T, order: Ordering) -> T {
        self.fetch_op(
            || {
                let old = unsafe { *self.data.get() };
                unsafe { *self.data.get() = old.overflowing_add(value).0 };
                old
            },
            order,
        )
    }

    /// See [`core::sync::atomic::AtomicU64::fetch_and()`]
    pub fn fetch_and(&self, value: T, order: Ordering) -> T {
        self.fetch_op(
            || {
                let old = unsafe { *self.data.get() };
                unsafe { *self.data.get() &= value };
                old
            },
            order,
        )
    }

    /// See [`core::sync::atomic::AtomicU64::fetch_max()`]
    pub fn fetch_max(&self, value: T, order: Ordering) -> T {
        self.fetch_op(
            || {
                let old = unsafe { *self.data.get() };
                unsafe { *self.data.get() = old.max(value) };
                old
            },
            order,
        )
    }

    /// See [`core::sync::atomic::AtomicU64::fetch_min()`]
    pub fn fetch_min(&self, value: T, order: Ordering) -> T {
        self.fetch_op(
            || {
                let old = unsafe { *self.data.get() };
                unsafe { *self.data.get() = old.min(value) };
                old
            },
            order,
        )
    }

    /// See [`core::sync::atomic::AtomicU64::fetch_nand()`]
    pub fn fetch_nand(&self, value: T, order: Ordering) -> T {
        self.fetch_op(
            || {
                let old = unsafe { *self.data.get() };
                unsafe { *self.data.get() = !(old & value) };
                old
            },
            order,
        )
    }

    /// See [`core::sync::atomic::AtomicU64::fetch_or()`]
    pub fn fetch_or(&self, value: T, order: Ordering) -> T {
        self.fetch_op(
            || {
                let old = unsafe { *self.data.get() };
                unsafe { *self.data.get() |= value };
                old
            },
            order,
        )
    }

    /// See [`core::sync::atomic::AtomicU64::fetch_sub()`]
    pub fn fetch_sub(&self, value: T, order: Ordering) -> T {
        self.fetch_op(
            || {
                let old = unsafe { *self.data.get() };
                unsafe { *self.data.get() = old.overflowing_sub(value).0 };
                old
            },
            order,
        )
    }

    /// See [`core::sync::atomic::AtomicU64::fetch_update()`]
    pub fn fetch_update<F: FnMut(T) -> Option<T>>(
        &self,
        _set_order: Ordering,
        _fetch_order: Ordering,
        mut f: F,
    ) -> Result<T, T> {
        self.write_lock();
        let data = unsafe { *self.data.get() };

        match f(data) {
            Some(v) => {
                unsafe { *self.data.get() = v };
                fence(Ordering::SeqCst);
                self.unlock();
                Ok(data)
            }
            None => {
                fence(Ordering::SeqCst);
                self.unlock();
                Err(data)
            }
        }
    }

    /// See [`core::sync::atomic::AtomicU64::fetch_xor()`]
    pub fn fetch_xor(&self, value: T, order: Ordering) -> T {
        self.fetch_op(
            || {
                let old = unsafe { *self.data.get() };
                unsafe { *self.data.get() ^= value };
                old
            },
            order,
        )
    }

    /// See [`core::sync::atomic::AtomicU64::into_inner()`]
    pub fn into_inner(self) -> T {
        unsafe { *self.data.get() }
    }

    /// See [`core::sync::atomic::AtomicU64::load()`]
    pub fn load(&self, _order: Ordering) -> T {
        self.read_lock();
        let data = unsafe { *self.data.get() };
        fence(Ordering::SeqCst);
        self.unlock();
        data
    }

    /// See [`core::sync::atomic::AtomicU64::store()`]
    pub fn store(&self, value: T, _order: Ordering) {
        self.write_lock();
        unsafe { *self.data.get() = value };
        fence(Ordering::SeqCst);
        self.unlock();
    }

    /// See [`core::sync::atomic::AtomicU64::swap()`]
    pub fn swap(&self, value: T, _order: Ordering) -> T {
        self.write_lock();
        let data = unsafe { *self.data.get() };
        unsafe { *self.data.get() = value };
        fence(Ordering::SeqCst);
        self.unlock();
        data
    }
}
