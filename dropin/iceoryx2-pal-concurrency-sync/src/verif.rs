//! The hook table.  While no table is installed (always, outside the /verif harnesses) every
//! hooked operation is the plain `core` operation.

use core::sync::atomic::{AtomicPtr, Ordering};

#[repr(u8)]
#[derive(Clone, Copy, Debug, PartialEq, Eq)]
pub enum Op {
    Load = 0,
    Store = 1,
    Swap = 2,
    Cas = 3,
    Add = 4,
    Sub = 5,
    And = 6,
    Or = 7,
    Xor = 8,
    Nand = 9,
    MaxU = 10,
    MinU = 11,
    MaxS = 12,
    MinS = 13,
}

/// Result of a hooked atomic operation: the previous value (zero extended) and, for `Cas`,
/// whether it succeeded.
#[repr(C)]
#[derive(Clone, Copy)]
pub struct OpResult {
    pub old: u64,
    pub ok: bool,
}

pub struct HookTable {
    /// Performs the operation (including the real memory access) on behalf of the caller.
    pub atomic: unsafe fn(
        addr: *mut u8,
        width: u8,
        op: Op,
        a: u64,
        b: u64,
        success: Ordering,
        failure: Ordering,
    ) -> OpResult,
    pub fence: fn(order: Ordering),
    /// Called by `UnsafeCell::get` before the pointer is handed out.
    pub cell: fn(addr: *const u8, size: usize),
}

static TABLE: AtomicPtr<HookTable> = AtomicPtr::new(core::ptr::null_mut());

pub fn install(table: &'static HookTable) {
    TABLE.store(table as *const HookTable as *mut HookTable, Ordering::SeqCst);
}

pub fn uninstall() {
    TABLE.store(core::ptr::null_mut(), Ordering::SeqCst);
}

#[inline(always)]
pub fn table() -> Option<&'static HookTable> {
    let p = TABLE.load(Ordering::Relaxed);
    if p.is_null() {
        None
    } else {
        Some(unsafe { &*p })
    }
}

/// Marker so that a harness can prove at run time that it was built against the drop-in.
pub const IS_VERIF_DROPIN: bool = true;
