//! `cell` of the drop-in: identical to the repository's except that `UnsafeCell::get` is a
//! hook call (a scheduling point of the controlled scheduler).

#[allow(clippy::disallowed_types)]
pub type Cell<T> = core::cell::Cell<T>;

#[allow(clippy::disallowed_types)]
pub type OnceCell<T> = core::cell::OnceCell<T>;

#[allow(clippy::disallowed_types)]
pub type Ref<'a, T> = core::cell::Ref<'a, T>;

#[allow(clippy::disallowed_types)]
pub type RefCell<T> = core::cell::RefCell<T>;

#[allow(clippy::disallowed_types)]
pub type RefMut<'a, T> = core::cell::RefMut<'a, T>;

#[repr(transparent)]
pub struct UnsafeCell<T: ?Sized>(core::cell::UnsafeCell<T>);

unsafe impl<T: ?Sized + Send> Send for UnsafeCell<T> {}

impl<T> UnsafeCell<T> {
    #[inline(always)]
    pub const fn new(value: T) -> Self {
        Self(core::cell::UnsafeCell::new(value))
    }

    #[inline(always)]
    pub fn into_inner(self) -> T {
        self.0.into_inner()
    }
}

impl<T: ?Sized> UnsafeCell<T> {
    #[inline(always)]
    pub fn get(&self) -> *mut T {
        let p = self.0.get();
        if let Some(t) = crate::verif::table() {
            (t.cell)(p as *const u8, core::mem::size_of_val(&self.0));
        }
        p
    }

    #[inline(always)]
    pub fn get_mut(&mut self) -> &mut T {
        self.0.get_mut()
    }

    #[inline(always)]
    pub const fn raw_get(this: *const Self) -> *mut T {
        core::cell::UnsafeCell::raw_get(this as *const core::cell::UnsafeCell<T>)
    }
}

impl<T: Default> Default for UnsafeCell<T> {
    fn default() -> Self {
        Self::new(T::default())
    }
}

impl<T> From<T> for UnsafeCell<T> {
    fn from(value: T) -> Self {
        Self::new(value)
    }
}

impl<T: ?Sized> core::fmt::Debug for UnsafeCell<T> {
    fn fmt(&self, f: &mut core::fmt::Formatter<'_>) -> core::fmt::Result {
        f.debug_struct("UnsafeCell").finish_non_exhaustive()
    }
}
