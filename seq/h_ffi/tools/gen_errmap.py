#!/usr/bin/env python3
"""Generates src/errmap.rs of h_ffi from the sources of /repo.

The output is checked in; this script is only a convenience for the maintainer when the set of
`impl IntoCInt for X` in /repo/iceoryx2-ffi/c changes. The generated file does NOT depend on this
script being right about the variants: every Rust enum and every C enum is enumerated through a
successor function that is an exhaustive `match` without wildcard arm, so a variant that is
missing here breaks the build of the harness.

usage: gen_errmap.py > ../src/errmap.rs
"""
import re
import glob
import sys

API = "/repo/iceoryx2-ffi/c/src/api"

# rust enum -> (path, definition file)
RUST = {
    "AttributeVerificationError": ("iceoryx2::service::attribute", "iceoryx2/src/service/attribute.rs"),
    "AttributeDefinitionError": ("iceoryx2::service::attribute", "iceoryx2/src/service/attribute.rs"),
    "ConfigCreationError": ("iceoryx2::config", "iceoryx2/src/config.rs"),
    "ListenerWaitError": ("iceoryx2_cal::event", "iceoryx2-cal/src/event/mod.rs"),
    "SemanticStringError": ("iceoryx2_bb_container::semantic_string", "iceoryx2-bb/container/src/semantic_string.rs"),
    "NodeListFailure": ("iceoryx2::node", "iceoryx2/src/node/mod.rs"),
    "ServiceRemoveError": ("iceoryx2::service", "iceoryx2/src/service/mod.rs"),
    "NodeWaitFailure": ("iceoryx2::node", "iceoryx2/src/node/mod.rs"),
    "NodeCleanupFailure": ("iceoryx2::node", "iceoryx2/src/node/mod.rs"),
    "NodeCreationFailure": ("iceoryx2::node", "iceoryx2/src/node/mod.rs"),
    "NotifierNotifyError": ("iceoryx2::port::notifier", "iceoryx2/src/port/notifier.rs"),
    "ClientCreateError": ("iceoryx2::service::port_factory::client", "iceoryx2/src/service/port_factory/client.rs"),
    "ListenerCreateError": ("iceoryx2::port::listener", "iceoryx2/src/port/listener.rs"),
    "NotifierCreateError": ("iceoryx2::port::notifier", "iceoryx2/src/port/notifier.rs"),
    "BackpressureStrategy": ("iceoryx2::prelude", "iceoryx2/src/port/backpressure_strategy.rs"),
    "PublisherCreateError": ("iceoryx2::port::publisher", "iceoryx2/src/port/publisher.rs"),
    "ReaderCreateError": ("iceoryx2::port::reader", "iceoryx2/src/port/reader.rs"),
    "ServerCreateError": ("iceoryx2::service::port_factory::server", "iceoryx2/src/service/port_factory/server.rs"),
    "SubscriberCreateError": ("iceoryx2::port::subscriber", "iceoryx2/src/port/subscriber.rs"),
    "WriterCreateError": ("iceoryx2::port::writer", "iceoryx2/src/port/writer.rs"),
    "SendError": ("iceoryx2::port", "iceoryx2/src/port/mod.rs"),
    "LoanError": ("iceoryx2::port", "iceoryx2/src/port/mod.rs"),
    "EntryHandleError": ("iceoryx2::port::reader", "iceoryx2/src/port/reader.rs"),
    "RequestSendError": ("iceoryx2::port::client", "iceoryx2/src/port/client.rs"),
    "AllocationGrowError": ("iceoryx2_cal::shm_allocator", "iceoryx2-bb/elementary-traits/src/allocator.rs"),
    "ServiceDetailsError": ("iceoryx2::service", "iceoryx2/src/service/mod.rs"),
    "ServiceListError": ("iceoryx2::service", "iceoryx2/src/service/mod.rs"),
    "BlackboardOpenError": ("iceoryx2::service::builder::blackboard", "iceoryx2/src/service/builder/blackboard.rs"),
    "BlackboardCreateError": ("iceoryx2::service::builder::blackboard", "iceoryx2/src/service/builder/blackboard.rs"),
    "EventOpenError": ("iceoryx2::service::builder::event", "iceoryx2/src/service/builder/event.rs"),
    "EventCreateError": ("iceoryx2::service::builder::event", "iceoryx2/src/service/builder/event.rs"),
    "EventOpenOrCreateError": ("iceoryx2::service::builder::event", "iceoryx2/src/service/builder/event.rs"),
    "PublishSubscribeOpenError": ("iceoryx2::service::builder::publish_subscribe", "iceoryx2/src/service/builder/publish_subscribe.rs"),
    "PublishSubscribeCreateError": ("iceoryx2::service::builder::publish_subscribe", "iceoryx2/src/service/builder/publish_subscribe.rs"),
    "PublishSubscribeOpenOrCreateError": ("iceoryx2::service::builder::publish_subscribe", "iceoryx2/src/service/builder/publish_subscribe.rs"),
    "RequestResponseOpenError": ("iceoryx2::service::builder::request_response", "iceoryx2/src/service/builder/request_response.rs"),
    "RequestResponseCreateError": ("iceoryx2::service::builder::request_response", "iceoryx2/src/service/builder/request_response.rs"),
    "RequestResponseOpenOrCreateError": ("iceoryx2::service::builder::request_response", "iceoryx2/src/service/builder/request_response.rs"),
    "ServiceNameError": ("iceoryx2::service::service_name", "iceoryx2/src/service/service_name.rs"),
    "SignalHandlingMode": ("iceoryx2::signal_handling_mode", "iceoryx2/src/signal_handling_mode.rs"),
    "ReceiveError": ("iceoryx2::port", "iceoryx2/src/port/mod.rs"),
    "ConnectionFailure": ("iceoryx2::port::update_connections", "iceoryx2/src/port/update_connections.rs"),
    "WaitSetRunError": ("iceoryx2::waitset", "iceoryx2/src/waitset.rs"),
    "WaitSetRunResult": ("iceoryx2::waitset", "iceoryx2/src/waitset.rs"),
    "WaitSetAttachmentError": ("iceoryx2::waitset", "iceoryx2/src/waitset.rs"),
    "WaitSetCreateError": ("iceoryx2::waitset", "iceoryx2/src/waitset.rs"),
    "EntryHandleMutError": ("iceoryx2::port::writer", "iceoryx2/src/port/writer.rs"),
}
# payload-only enums (no IntoCInt of their own, but nested in the above)
NESTED_ONLY = {
    "ZeroCopyCreationError": ("iceoryx2_cal::zero_copy_connection", "iceoryx2-cal/src/zero_copy_connection/mod.rs"),
    "SharedMemoryOpenError": ("iceoryx2_cal::shared_memory", "iceoryx2-cal/src/shared_memory/mod.rs"),
}
# enums that are plain values, not errors: 0 is allowed, "never IOX2_OK" does not apply
VALUE_ENUMS = {"BackpressureStrategy", "SignalHandlingMode", "WaitSetRunResult"}
# C enum of impls that only delegate
C_ENUM_OVERRIDE = {
    "EventOpenOrCreateError": "iox2_event_open_or_create_error_e",
    "PublishSubscribeOpenOrCreateError": "iox2_pub_sub_open_or_create_error_e",
}
# payloads that are data, not enums: one representative
CUSTOM_PAYLOAD = {
    "AttributeKey": "iceoryx2::service::attribute::AttributeKey::try_from(\"k\").unwrap()",
    "(AttributeKey, AttributeValue)": "(iceoryx2::service::attribute::AttributeKey::try_from(\"k\").unwrap(), iceoryx2::service::attribute::AttributeValue::try_from(\"v\").unwrap())",
}


def snake(name):
    s = re.sub(r"(?<=[a-z0-9])([A-Z])", r"_\1", name)
    return s.lower().replace("wait_set", "waitset")


def strip_comments(src):
    src = re.sub(r"//[^\n]*", "", src)
    return src


def parse_enum(src, name):
    m = re.search(r"pub enum %s\s*\{" % re.escape(name), src)
    if not m:
        raise SystemExit("enum %s not found" % name)
    i = m.end()
    depth = 1
    j = i
    while depth:
        c = src[j]
        if c == "{":
            depth += 1
        elif c == "}":
            depth -= 1
        j += 1
    body = strip_comments(src[i : j - 1])
    body = re.sub(r"#\[[^\]]*\]", "", body)
    out = []
    cur = ""
    d = 0
    for c in body:
        if c in "([{":
            d += 1
        if c in ")]}":
            d -= 1
        if c == "," and d == 0:
            out.append(cur.strip())
            cur = ""
        else:
            cur += c
    if cur.strip():
        out.append(cur.strip())
    variants = []
    for v in out:
        m = re.match(r"(\w+)\s*(?:\((.*)\))?\s*(?:=.*)?$", v, re.S)
        variants.append((m.group(1), m.group(2).strip() if m.group(2) else None))
    return variants


def main():
    api_src = {}
    for f in sorted(glob.glob(API + "/*.rs")):
        if f.endswith("verif_hooks.rs"):
            continue
        api_src[f] = open(f).read()
    allsrc = "\n".join(api_src.values())

    # C enum -> exported string function
    string_fn = {}
    for m in re.finditer(r'pub unsafe extern "C" fn (\w+_string)\(\s*error:\s*(\w+)', allsrc):
        string_fn[m.group(2)] = m.group(1)

    # rust enum -> C enum (from the impl body)
    c_enum_of = {}
    for m in re.finditer(r"impl IntoCInt for (\w+) \{", allsrc):
        name = m.group(1)
        if name == "FooError":
            continue
        i = m.end()
        depth = 1
        j = i
        while depth:
            if allsrc[j] == "{":
                depth += 1
            elif allsrc[j] == "}":
                depth -= 1
            j += 1
        body = allsrc[i:j]
        found = re.findall(r"\b(iox2_\w+_e)\b", body)
        if name in C_ENUM_OVERRIDE:
            c_enum_of[name] = C_ENUM_OVERRIDE[name]
        else:
            assert found, name
            assert len(set(found)) == 1, (name, set(found))
            c_enum_of[name] = found[0]
    missing = set(c_enum_of) ^ set(RUST)
    if missing:
        raise SystemExit("impl IntoCInt set changed: %s" % missing)

    rust_variants = {}
    for name, (_p, f) in list(RUST.items()) + list(NESTED_ONLY.items()):
        rust_variants[name] = parse_enum(open("/repo/" + f).read(), name)
    c_variants = {}
    for ce in sorted(set(c_enum_of.values())):
        c_variants[ce] = [v for v, _ in parse_enum(allsrc, ce)]

    o = []
    w = o.append
    w("// @generated by tools/gen_errmap.py from /repo/iceoryx2-ffi/c/src/api/*.rs – do not edit by hand.")
    w("//")
    w("// Every Rust enum with an `impl IntoCInt` in the C binding and every C enum it maps to is")
    w("// enumerated through a successor function that is an exhaustive `match` WITHOUT a wildcard")
    w("// arm: a variant added to /repo that is missing here breaks the build of this harness, so the")
    w("// completeness of the enumeration is checked by rustc, not by this generator.")
    w("#![allow(non_snake_case, clippy::all)]")
    w("")
    w("use core::ffi::{c_char, c_int, CStr};")
    w("use iceoryx2_bb_elementary_traits::AsCStr;")
    w("use iceoryx2_ffi_c as ffi;")
    w("use iceoryx2_ffi_c::verif_hooks as hooks;")
    w("")
    w("#[derive(Clone, Copy, PartialEq, Eq, Debug)]")
    w("pub enum Kind {")
    w("    /// an error enum: IOX2_OK (0) must never be produced")
    w("    Error,")
    w("    /// a plain value enum that happens to use the same conversion trait")
    w("    Value,")
    w("}")
    w("")
    w("pub struct Conv {")
    w("    /// Debug rendering of the Rust value, e.g. `LoanError(OutOfMemory)`")
    w("    pub label: String,")
    w("    /// variant names from the top-level variant down through nested enums")
    w("    pub path: Vec<&'static str>,")
    w("    /// performs the conversion (may not terminate: call it in a sacrificial child process)")
    w("    pub run: Box<dyn Fn() -> c_int>,")
    w("}")
    w("")
    w("pub struct CCode {")
    w("    pub code: c_int,")
    w("    pub ident: &'static str,")
    w("    /// result of the exported `iox2_*_string` function, if the C API has one for this enum")
    w("    pub exported_name: Option<*const c_char>,")
    w("    /// the name the binding holds internally (AsCStr), reachable from C only through the exported function")
    w("    pub internal_name: Option<&'static CStr>,")
    w("}")
    w("")
    w("pub struct EnumSpec {")
    w("    pub rust: &'static str,")
    w("    pub c_enum: &'static str,")
    w("    pub kind: Kind,")
    w("    pub string_fn: Option<&'static str>,")
    w("    pub convs: Vec<Conv>,")
    w("    pub c_codes: Vec<CCode>,")
    w("}")
    w("")
    w("fn chain<T: Clone>(succ: fn(Option<&T>) -> Option<Vec<T>>) -> Vec<T> {")
    w("    let mut out: Vec<T> = Vec::new();")
    w("    let mut cur = succ(None);")
    w("    while let Some(vs) = cur {")
    w("        assert!(!vs.is_empty());")
    w("        out.extend(vs);")
    w("        cur = succ(out.last());")
    w("    }")
    w("    out")
    w("}")
    w("")

    names = list(RUST.keys())
    w("pub const ENUM_NAMES: &[&str] = &[")
    for n in names:
        w('    "%s",' % n)
    w("];")
    w("")

    allr = dict(RUST)
    allr.update(NESTED_ONLY)
    for name, (path, _f) in allr.items():
        vs = rust_variants[name]
        ty = "%s::%s" % (path, name)
        w("// ---- %s (%d variants)" % (name, len(vs)))
        w("fn succ_%s(p: Option<&%s>) -> Option<Vec<%s>> {" % (name, ty, ty))
        w("    match p {")

        def values(v, payload):
            if payload is None:
                return "vec![%s::%s]" % (ty, v)
            if payload in allr:
                return "all_%s().into_iter().map(%s::%s).collect()" % (payload, ty, v)
            if payload in CUSTOM_PAYLOAD:
                return "vec![%s::%s(%s)]" % (ty, v, CUSTOM_PAYLOAD[payload])
            raise SystemExit("unknown payload %s of %s::%s" % (payload, name, v))

        def pat(v, payload):
            return "%s::%s%s" % (ty, v, "(..)" if payload else "")

        prev = None
        for v, payload in vs:
            lhs = "None" if prev is None else "Some(%s)" % pat(*prev)
            w("        %s => Some(%s)," % (lhs, values(v, payload)))
            prev = (v, payload)
        w("        Some(%s) => None," % pat(*prev))
        w("    }")
        w("}")
        w("pub fn all_%s() -> Vec<%s> {" % (name, ty))
        w("    chain(succ_%s)" % name)
        w("}")
        w("fn path_%s(e: &%s) -> Vec<&'static str> {" % (name, ty))
        w("    match e {")
        for v, payload in vs:
            if payload in allr:
                w('        %s::%s(n) => {' % (ty, v))
                w('            let mut p = vec!["%s"];' % v)
                w('            p.extend(path_%s(n));' % payload)
                w('            p')
                w('        }')
            else:
                w('        %s => vec!["%s"],' % (pat(v, payload), v))
        w("    }")
        w("}")
        w("")

    for ce, vs in c_variants.items():
        ty = "ffi::%s" % ce
        w("// ---- %s (%d codes)" % (ce, len(vs)))
        w("fn succ_%s(p: Option<&%s>) -> Option<Vec<%s>> {" % (ce, ty, ty))
        w("    match p {")
        prev = None
        for v in vs:
            lhs = "None" if prev is None else "Some(%s::%s)" % (ty, prev)
            w("        %s => Some(vec![%s::%s])," % (lhs, ty, v))
            prev = v
        w("        Some(%s::%s) => None," % (ty, prev))
        w("    }")
        w("}")
        w("fn ident_%s(e: &%s) -> &'static str {" % (ce, ty))
        w("    match e {")
        for v in vs:
            w('        %s::%s => "%s",' % (ty, v, v))
        w("    }")
        w("}")
        w("fn codes_%s() -> Vec<CCode> {" % ce)
        w("    chain(succ_%s)" % ce)
        w("        .into_iter()")
        w("        .map(|v| CCode {")
        w("            code: v as c_int,")
        w("            ident: ident_%s(&v)," % ce)
        if ce in string_fn:
            w("            exported_name: Some(unsafe { ffi::%s(v) })," % string_fn[ce])
        else:
            w("            exported_name: None,")
        # every C enum that derives CStrRepr has AsCStr
        m = re.search(r"#\[derive\(([^)]*)\)\]\s*pub enum %s\b" % ce, allsrc)
        if m and "CStrRepr" in m.group(1):
            w("            internal_name: Some(v.as_const_cstr()),")
        else:
            w("            internal_name: None,")
        w("        })")
        w("        .collect()")
        w("}")
        w("")

    w("pub fn spec(name: &str) -> Option<EnumSpec> {")
    w("    Some(match name {")
    for name in names:
        ce = c_enum_of[name]
        kind = "Value" if name in VALUE_ENUMS else "Error"
        sf = 'Some("%s")' % string_fn[ce] if ce in string_fn else "None"
        w('        "%s" => EnumSpec {' % name)
        w('            rust: "%s",' % name)
        w('            c_enum: "%s",' % ce)
        w("            kind: Kind::%s," % kind)
        w("            string_fn: %s," % sf)
        w("            convs: all_%s()" % name)
        w("                .into_iter()")
        w("                .map(|e| Conv {")
        w('                    label: format!("{:?}", e),')
        w("                    path: path_%s(&e)," % name)
        w("                    run: Box::new(move || hooks::%s_into_c_int(e.clone()))," % snake(name))
        w("                })")
        w("                .collect(),")
        w("            c_codes: codes_%s()," % ce)
        w("        },")
    w("        _ => return None,")
    w("    })")
    w("}")
    sys.stdout.write("\n".join(o) + "\n")


main()
