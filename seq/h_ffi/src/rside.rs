//! Participants driven through the Rust API (`iceoryx2::prelude`): typed payloads (`T`, `[T]`)
//! wherever a Rust type with the requested size/alignment exists, the binding-level custom
//! payload API (`[CustomPayloadMarker]` + type details) for the combinations no Rust type has.
//! Failures are reported as the C code that the binding's own `IntoCInt` assigns to the Rust
//! error (through the `verif_hooks` wrappers), so both sides can be compared as numbers.

use crate::ports::*;
use core::fmt::Debug;
use core::mem::MaybeUninit;
use iceoryx2::active_request::ActiveRequest;
use iceoryx2::pending_response::PendingResponse;
use iceoryx2::port::client::{Client, RequestSendError};
use iceoryx2::port::listener::Listener;
use iceoryx2::port::notifier::Notifier;
use iceoryx2::port::publisher::Publisher;
use iceoryx2::port::server::Server;
use iceoryx2::port::subscriber::Subscriber;
use iceoryx2::port::update_connections::UpdateConnections;
use iceoryx2::port::{LoanError, ReceiveError, SendError};
use iceoryx2::prelude::*;
use iceoryx2::request_mut_uninit::RequestMutUninit;
use iceoryx2::response::Response;
use iceoryx2::sample::Sample;
use iceoryx2::sample_mut_uninit::SampleMutUninit;
use iceoryx2::service::builder::publish_subscribe::PublishSubscribeOpenOrCreateError;
use iceoryx2::service::builder::request_response::RequestResponseOpenOrCreateError;
use iceoryx2::service::marker::{CustomHeaderMarker, CustomPayloadMarker};
use iceoryx2::service::port_factory::event::PortFactory as EvFactory;
use iceoryx2::service::port_factory::publish_subscribe::PortFactory as PsFactory;
use iceoryx2::service::port_factory::request_response::PortFactory as RrFactory;
use iceoryx2::service::static_config::message_type_details::{TypeDetail, TypeName, TypeVariant};
use iceoryx2_ffi_c::verif_hooks as hooks;
use std::marker::PhantomData;

pub type Ipc = ipc_threadsafe::Service;
pub type Loc = local_threadsafe::Service;

macro_rules! rerr {
    ($hook:ident, $e:expr) => {{
        let e = $e;
        Obs::Err { what: format!("{:?}", e), code: hooks::$hook(e) }
    }};
}

pub fn silence_log() {
    set_log_level(LogLevel::Fatal);
}

/// per-process root directory (tmpfs) for everything that is a file
pub fn root_path() -> String {
    format!("/dev/shm/hffi_{}_root/", std::process::id())
}

pub fn config(prefix: &str) -> Config {
    let mut c = Config::default();
    c.global.prefix = FileName::new(prefix.as_bytes()).unwrap();
    // all files of this process live in a tmpfs directory of their own: no fsync to a disk that
    // other people are using, and no stale nodes of ours in the machine-wide /tmp/iceoryx2
    c.global.set_root_path(&Path::new(root_path().as_bytes()).unwrap());
    // same values as cside::config: keeps the per-port connection tables small (cost, not behaviour)
    c.defaults.publish_subscribe.subscriber_expired_connection_buffer = EXPIRED_CONNECTIONS;
    c.defaults.request_response.client_expired_connection_buffer = EXPIRED_CONNECTIONS;
    c.defaults.request_response.server_expired_connection_buffer = EXPIRED_CONNECTIONS;
    c
}

fn node<S: Service + 'static>(prefix: &str) -> Result<Node<S>, Obs> {
    NodeBuilder::new().config(&config(prefix)).create::<S>().map_err(|e| rerr!(node_creation_failure_into_c_int, e))
}

pub fn service_exists(svc: SvcType, prefix: &str, name: &str, pattern: MessagingPattern) -> Result<bool, String> {
    let n: ServiceName = name.try_into().unwrap();
    let c = config(prefix);
    match svc {
        SvcType::Ipc => Ipc::does_exist(&n, &c, pattern).map_err(|e| format!("{e:?}")),
        SvcType::Local => Loc::does_exist(&n, &c, pattern).map_err(|e| format!("{e:?}")),
    }
}

// ----------------------------------------------------------------------------- payload types

/// A Rust payload type with a given size and alignment whose bytes are all payload.
pub trait Pay: ZeroCopySend + Debug + Copy + Default + Sized + 'static {
    const NAME: &'static str;
    fn from_bytes(b: &[u8]) -> Self;
}

macro_rules! pay {
    ($n:ident, $size:expr, $align:expr) => {
        #[derive(Debug, Clone, Copy)]
        #[repr(C, align($align))]
        pub struct $n(pub [u8; $size]);
        impl Default for $n {
            fn default() -> Self {
                $n([0u8; $size])
            }
        }
        unsafe impl ZeroCopySend for $n {
            unsafe fn type_name() -> &'static str {
                stringify!($n)
            }
        }
        impl Pay for $n {
            const NAME: &'static str = stringify!($n);
            fn from_bytes(b: &[u8]) -> Self {
                let mut v = [0u8; $size];
                v.copy_from_slice(&b[..$size]);
                $n(v)
            }
        }
        const _: () = assert!(core::mem::size_of::<$n>() == $size && core::mem::align_of::<$n>() == $align);
    };
}

pay!(P1A1, 1, 1);
pay!(P8A1, 8, 1);
pay!(P12A1, 12, 1);
pay!(P8A8, 8, 8);
pay!(P12A4, 12, 4);
pay!(P16A16, 16, 16);

/// Name of the Rust type for (size, align), if there is one.
/// the publisher's backpressure handler of configuration `mode` (see PsCfg::handler)
pub fn rust_handler(mode: u8) -> impl Fn(&iceoryx2::port::BackpressureInfo) -> iceoryx2::port::BackpressureAction + Send + 'static {
    use iceoryx2::port::BackpressureAction as A;
    move |info| match mode {
        1 => A::DiscardData,
        2 => A::DiscardDataAndFail,
        3 => {
            if info.retries == 0 {
                A::Retry
            } else {
                A::DiscardDataAndFail
            }
        }
        _ => A::FollowBackpressureyStrategy,
    }
}

pub fn typed_name(size: usize, align: usize) -> Option<&'static str> {
    Some(match (size, align) {
        (1, 1) => P1A1::NAME,
        (8, 1) => P8A1::NAME,
        (12, 1) => P12A1::NAME,
        (8, 8) => P8A8::NAME,
        (12, 4) => P12A4::NAME,
        (16, 16) => P16A16::NAME,
        _ => return None,
    })
}

// ------------------------------------------------------------------- publish-subscribe flavours

pub struct View {
    pub ptr: *const u8,
    pub bytes: usize,
    pub elems: u64,
    pub hdr_elems: u64,
    pub origin: u128,
}

pub trait PsFlavor<S: Service + 'static>: 'static {
    type P: IceoryxSend + Debug + ?Sized + 'static;
    type H: Debug + ZeroCopySend + 'static;
    type Loan;
    fn open(node: &Node<S>, name: &ServiceName, c: &PsCfg) -> Result<PsFactory<S, Self::P, Self::H>, PublishSubscribeOpenOrCreateError>;
    fn mk_pub(f: &PsFactory<S, Self::P, Self::H>, c: &PsCfg) -> Result<Publisher<S, Self::P, Self::H>, iceoryx2::port::publisher::PublisherCreateError>;
    fn loan(p: &Publisher<S, Self::P, Self::H>, n: usize) -> Result<Self::Loan, LoanError>;
    fn loan_view(l: &mut Self::Loan) -> View;
    fn send(l: Self::Loan) -> Result<usize, SendError>;
    fn send_copy(p: &Publisher<S, Self::P, Self::H>, data: &[u8], n: usize, size: usize) -> Result<usize, SendError>;
    fn receive(s: &Subscriber<S, Self::P, Self::H>) -> Result<Option<Sample<S, Self::P, Self::H>>, ReceiveError>;
    fn sample_view(s: &Sample<S, Self::P, Self::H>) -> View;
}

macro_rules! ps_qos {
    ($b:expr, $c:expr) => {
        $b.max_publishers(2)
            .max_subscribers(2)
            .max_nodes(4)
            .history_size($c.history)
            .subscriber_max_buffer_size($c.buffer)
            .subscriber_max_borrowed_samples($c.max_borrow)
            .enable_safe_overflow($c.safe_overflow)
    };
}

pub struct Fixed<P: Pay>(PhantomData<P>);
pub struct Slice<P: Pay>(PhantomData<P>);
pub struct Custom;

impl<S: Service + 'static, P: Pay> PsFlavor<S> for Fixed<P> {
    type P = P;
    type H = ();
    type Loan = SampleMutUninit<S, MaybeUninit<P>, ()>;
    fn open(node: &Node<S>, name: &ServiceName, c: &PsCfg) -> Result<PsFactory<S, P, ()>, PublishSubscribeOpenOrCreateError> {
        ps_qos!(node.service_builder(name).publish_subscribe::<P>(), c).open_or_create()
    }
    fn mk_pub(f: &PsFactory<S, P, ()>, c: &PsCfg) -> Result<Publisher<S, P, ()>, iceoryx2::port::publisher::PublisherCreateError> {
        let b = f.publisher_builder().max_loaned_samples(c.max_loans).backpressure_strategy(BackpressureStrategy::DiscardData);
        if c.handler != 0 {
            b.set_backpressure_handler(rust_handler(c.handler)).create()
        } else {
            b.create()
        }
    }
    fn loan(p: &Publisher<S, P, ()>, _n: usize) -> Result<Self::Loan, LoanError> {
        p.loan_uninit()
    }
    fn loan_view(l: &mut Self::Loan) -> View {
        View {
            ptr: l.payload_mut().as_mut_ptr() as *const u8,
            bytes: core::mem::size_of::<P>(),
            elems: 1,
            hdr_elems: l.header().number_of_elements(),
            origin: l.header().publisher_id().value(),
        }
    }
    fn send(l: Self::Loan) -> Result<usize, SendError> {
        unsafe { l.assume_init() }.send()
    }
    fn send_copy(p: &Publisher<S, P, ()>, data: &[u8], _n: usize, _size: usize) -> Result<usize, SendError> {
        p.send_copy(P::from_bytes(data))
    }
    fn receive(s: &Subscriber<S, P, ()>) -> Result<Option<Sample<S, P, ()>>, ReceiveError> {
        s.receive()
    }
    fn sample_view(s: &Sample<S, P, ()>) -> View {
        View {
            ptr: s.payload() as *const P as *const u8,
            bytes: core::mem::size_of::<P>(),
            elems: 1,
            hdr_elems: s.header().number_of_elements(),
            origin: s.header().publisher_id().value(),
        }
    }
}

impl<S: Service + 'static, P: Pay> PsFlavor<S> for Slice<P> {
    type P = [P];
    type H = ();
    type Loan = SampleMutUninit<S, [MaybeUninit<P>], ()>;
    fn open(node: &Node<S>, name: &ServiceName, c: &PsCfg) -> Result<PsFactory<S, [P], ()>, PublishSubscribeOpenOrCreateError> {
        ps_qos!(node.service_builder(name).publish_subscribe::<[P]>(), c).open_or_create()
    }
    fn mk_pub(f: &PsFactory<S, [P], ()>, c: &PsCfg) -> Result<Publisher<S, [P], ()>, iceoryx2::port::publisher::PublisherCreateError> {
        let b = f
            .publisher_builder()
            .max_loaned_samples(c.max_loans)
            .backpressure_strategy(BackpressureStrategy::DiscardData)
            .initial_max_slice_len(c.max_slice_len)
            .allocation_strategy(AllocationStrategy::Static);
        if c.handler != 0 {
            b.set_backpressure_handler(rust_handler(c.handler)).create()
        } else {
            b.create()
        }
    }
    fn loan(p: &Publisher<S, [P], ()>, n: usize) -> Result<Self::Loan, LoanError> {
        p.loan_slice_uninit(n)
    }
    fn loan_view(l: &mut Self::Loan) -> View {
        let n = l.payload().len();
        View {
            ptr: l.payload_mut().as_mut_ptr() as *const u8,
            bytes: n * core::mem::size_of::<P>(),
            elems: n as u64,
            hdr_elems: l.header().number_of_elements(),
            origin: l.header().publisher_id().value(),
        }
    }
    fn send(l: Self::Loan) -> Result<usize, SendError> {
        unsafe { l.assume_init() }.send()
    }
    fn send_copy(p: &Publisher<S, [P], ()>, data: &[u8], n: usize, size: usize) -> Result<usize, SendError> {
        // the Rust API has no one-call slice copy: loan, copy, send – a failed loan is a failed send
        let vals: Vec<P> = (0..n).map(|i| P::from_bytes(&data[i * size..])).collect();
        let l = p.loan_slice_uninit(n).map_err(SendError::LoanError)?;
        l.write_from_slice(&vals).send()
    }
    fn receive(s: &Subscriber<S, [P], ()>) -> Result<Option<Sample<S, [P], ()>>, ReceiveError> {
        s.receive()
    }
    fn sample_view(s: &Sample<S, [P], ()>) -> View {
        let n = s.payload().len();
        View {
            ptr: s.payload().as_ptr() as *const u8,
            bytes: n * core::mem::size_of::<P>(),
            elems: n as u64,
            hdr_elems: s.header().number_of_elements(),
            origin: s.header().publisher_id().value(),
        }
    }
}

fn type_detail(slice: bool, name: &str, size: usize, align: usize) -> TypeDetail {
    iceoryx2::testing::create_custom_type_detail(
        if slice { TypeVariant::Dynamic } else { TypeVariant::FixedSize },
        TypeName::try_from(name).unwrap(),
        size,
        align,
    )
}

impl<S: Service + 'static> PsFlavor<S> for Custom {
    type P = [CustomPayloadMarker];
    type H = CustomHeaderMarker;
    type Loan = SampleMutUninit<S, [MaybeUninit<CustomPayloadMarker>], CustomHeaderMarker>;
    fn open(node: &Node<S>, name: &ServiceName, c: &PsCfg) -> Result<PsFactory<S, Self::P, Self::H>, PublishSubscribeOpenOrCreateError> {
        let b = node.service_builder(name).publish_subscribe::<[CustomPayloadMarker]>().user_header::<CustomHeaderMarker>();
        let b = unsafe {
            b.__internal_set_payload_type_details(&type_detail(c.slice, &c.type_name, c.size, c.align))
                .__internal_set_user_header_type_details(&type_detail(false, "()", 0, 1))
        };
        ps_qos!(b, c).open_or_create()
    }
    fn mk_pub(f: &PsFactory<S, Self::P, Self::H>, c: &PsCfg) -> Result<Publisher<S, Self::P, Self::H>, iceoryx2::port::publisher::PublisherCreateError> {
        let b = f.publisher_builder().max_loaned_samples(c.max_loans).backpressure_strategy(BackpressureStrategy::DiscardData);
        let b = if c.handler != 0 { b.set_backpressure_handler(rust_handler(c.handler)) } else { b };
        if c.slice {
            b.initial_max_slice_len(c.max_slice_len).allocation_strategy(AllocationStrategy::Static).create()
        } else {
            b.create()
        }
    }
    fn loan(p: &Publisher<S, Self::P, Self::H>, n: usize) -> Result<Self::Loan, LoanError> {
        unsafe { p.loan_custom_payload(n) }
    }
    fn loan_view(l: &mut Self::Loan) -> View {
        let n = l.payload().len();
        View {
            ptr: l.payload_mut().as_mut_ptr() as *const u8,
            bytes: n,
            elems: l.header().number_of_elements(),
            hdr_elems: l.header().number_of_elements(),
            origin: l.header().publisher_id().value(),
        }
    }
    fn send(l: Self::Loan) -> Result<usize, SendError> {
        unsafe { l.assume_init() }.send()
    }
    fn send_copy(p: &Publisher<S, Self::P, Self::H>, data: &[u8], n: usize, _size: usize) -> Result<usize, SendError> {
        let mut l = unsafe { p.loan_custom_payload(n) }.map_err(SendError::LoanError)?;
        if l.payload().len() < data.len() {
            return Err(SendError::LoanError(LoanError::ExceedsMaxLoanSize));
        }
        unsafe {
            core::ptr::copy_nonoverlapping(data.as_ptr(), l.payload_mut().as_mut_ptr() as *mut u8, data.len());
            l.assume_init().send()
        }
    }
    fn receive(s: &Subscriber<S, Self::P, Self::H>) -> Result<Option<Sample<S, Self::P, Self::H>>, ReceiveError> {
        s.receive()
    }
    fn sample_view(s: &Sample<S, Self::P, Self::H>) -> View {
        View {
            ptr: s.payload().as_ptr() as *const u8,
            bytes: s.payload().len(),
            elems: s.header().number_of_elements(),
            hdr_elems: s.header().number_of_elements(),
            origin: s.header().publisher_id().value(),
        }
    }
}

pub struct RPub<S: Service + 'static, F: PsFlavor<S>> {
    cfg: PsCfg,
    port: Option<Publisher<S, F::P, F::H>>,
    loans: Vec<F::Loan>,
    svc: PsFactory<S, F::P, F::H>,
    #[allow(dead_code)]
    node: Node<S>,
}

impl<S: Service + 'static, F: PsFlavor<S>> RPub<S, F> {
    fn new(prefix: &str, name: &str, cfg: &PsCfg) -> Result<Box<dyn PubPort>, Obs> {
        let node = node::<S>(prefix)?;
        let n: ServiceName = name.try_into().unwrap();
        let svc = F::open(&node, &n, cfg).map_err(|e| rerr!(publish_subscribe_open_or_create_error_into_c_int, e))?;
        Ok(Box::new(RPub::<S, F> { cfg: cfg.clone(), port: None, loans: Vec::new(), svc, node }))
    }
}

impl<S: Service + 'static, F: PsFlavor<S>> PubPort for RPub<S, F> {
    fn create(&mut self) -> Obs {
        match F::mk_pub(&self.svc, &self.cfg) {
            Ok(p) => {
                self.port = Some(p);
                Obs::Done
            }
            Err(e) => rerr!(publisher_create_error_into_c_int, e),
        }
    }
    fn destroy(&mut self) {
        self.port = None;
        self.loans.clear();
    }
    fn exists(&self) -> bool {
        self.port.is_some()
    }
    fn id(&self) -> Option<u128> {
        self.port.as_ref().map(|p| p.id().value())
    }
    fn loans(&self) -> usize {
        self.loans.len()
    }
    fn loan(&mut self, n: usize, fill: u8) -> Obs {
        let Some(p) = &self.port else { return Obs::Skipped };
        match F::loan(p, n) {
            Err(e) => rerr!(loan_error_into_c_int, e),
            Ok(mut l) => {
                let v = F::loan_view(&mut l);
                fill_bytes(unsafe { core::slice::from_raw_parts_mut(v.ptr as *mut u8, v.bytes) }, fill);
                let own = Some(v.origin) == self.id();
                self.loans.push(l);
                Obs::Loaned { bytes: v.bytes, elems: v.elems, hdr_elems: v.hdr_elems, aligned: (v.ptr as usize) % self.cfg.align == 0, own_id: own }
            }
        }
    }
    fn send(&mut self, idx: usize) -> Obs {
        let l = self.loans.remove(idx);
        match F::send(l) {
            Ok(n) => Obs::Count(n as u64),
            Err(e) => rerr!(send_error_into_c_int, e),
        }
    }
    fn drop_loan(&mut self, idx: usize) {
        drop(self.loans.remove(idx));
    }
    fn send_copy(&mut self, n: usize, fill: u8) -> Obs {
        let Some(p) = &self.port else { return Obs::Skipped };
        let data = pattern(self.cfg.size * n, fill);
        match F::send_copy(p, &data, n, self.cfg.size) {
            Ok(n) => Obs::Count(n as u64),
            Err(e) => rerr!(send_error_into_c_int, e),
        }
    }
    fn update_connections(&mut self) -> Obs {
        let Some(p) = &self.port else { return Obs::Skipped };
        match p.update_connections() {
            Ok(()) => Obs::Done,
            Err(e) => rerr!(connection_failure_into_c_int, e),
        }
    }
    fn probe_loans(&mut self, n: usize) -> u64 {
        let Some(p) = &self.port else { return 0 };
        let mut got = Vec::new();
        for _ in 0..16 {
            match F::loan(p, n) {
                Ok(l) => got.push(l),
                Err(_) => break,
            }
        }
        got.len() as u64
    }
    fn census(&self) -> Vec<i64> {
        vec![
            self.svc.dynamic_config().number_of_publishers() as i64,
            self.svc.dynamic_config().number_of_subscribers() as i64,
            self.port.is_some() as i64,
        ]
    }
    fn close(mut self: Box<Self>) {
        self.loans.clear();
        self.port = None;
        // svc, then node, by field order
    }
}

pub struct RSub<S: Service + 'static, F: PsFlavor<S>> {
    cfg: PsCfg,
    port: Option<Subscriber<S, F::P, F::H>>,
    samples: Vec<Sample<S, F::P, F::H>>,
    svc: PsFactory<S, F::P, F::H>,
    #[allow(dead_code)]
    node: Node<S>,
}

impl<S: Service + 'static, F: PsFlavor<S>> RSub<S, F> {
    fn new(prefix: &str, name: &str, cfg: &PsCfg) -> Result<Box<dyn SubPort>, Obs> {
        let node = node::<S>(prefix)?;
        let n: ServiceName = name.try_into().unwrap();
        let svc = F::open(&node, &n, cfg).map_err(|e| rerr!(publish_subscribe_open_or_create_error_into_c_int, e))?;
        Ok(Box::new(RSub::<S, F> { cfg: cfg.clone(), port: None, samples: Vec::new(), svc, node }))
    }
}

impl<S: Service + 'static, F: PsFlavor<S>> SubPort for RSub<S, F> {
    fn create(&mut self) -> Obs {
        match self.svc.subscriber_builder().buffer_size(self.cfg.buffer).create() {
            Ok(p) => {
                self.port = Some(p);
                Obs::Done
            }
            Err(e) => rerr!(subscriber_create_error_into_c_int, e),
        }
    }
    fn destroy(&mut self) {
        self.port = None;
        self.samples.clear();
    }
    fn exists(&self) -> bool {
        self.port.is_some()
    }
    fn held(&self) -> usize {
        self.samples.len()
    }
    fn receive(&mut self) -> Obs {
        let Some(p) = &self.port else { return Obs::Skipped };
        match F::receive(p) {
            Err(e) => rerr!(receive_error_into_c_int, e),
            Ok(None) => Obs::Nothing,
            Ok(Some(s)) => {
                let v = F::sample_view(&s);
                let bytes = unsafe { core::slice::from_raw_parts(v.ptr, v.bytes) }.to_vec();
                self.samples.push(s);
                Obs::Data { bytes, elems: v.elems, hdr_elems: v.hdr_elems, aligned: (v.ptr as usize) % self.cfg.align == 0, origin: v.origin }
            }
        }
    }
    fn release(&mut self, idx: usize) {
        drop(self.samples.remove(idx));
    }
    fn has_samples(&mut self) -> Obs {
        let Some(p) = &self.port else { return Obs::Skipped };
        match p.has_samples() {
            Ok(b) => Obs::Flag(b),
            Err(e) => rerr!(connection_failure_into_c_int, e),
        }
    }
    fn update_connections(&mut self) -> Obs {
        Obs::Skipped
    }
    fn census(&self) -> Vec<i64> {
        vec![
            self.svc.dynamic_config().number_of_publishers() as i64,
            self.svc.dynamic_config().number_of_subscribers() as i64,
            self.port.as_ref().map(|p| p.buffer_size() as i64).unwrap_or(-1),
        ]
    }
    fn close(mut self: Box<Self>) {
        self.samples.clear();
        self.port = None;
    }
}

macro_rules! dispatch_ps {
    ($what:ident, $prefix:expr, $name:expr, $c:expr) => {{
        macro_rules! with_s {
            ($s:ty) => {{
                if $c.rust_custom {
                    $what::<$s, Custom>::new($prefix, $name, $c)
                } else {
                    macro_rules! with_p {
                        ($p:ty) => {
                            if $c.slice {
                                $what::<$s, Slice<$p>>::new($prefix, $name, $c)
                            } else {
                                $what::<$s, Fixed<$p>>::new($prefix, $name, $c)
                            }
                        };
                    }
                    match ($c.size, $c.align) {
                        (1, 1) => with_p!(P1A1),
                        (8, 1) => with_p!(P8A1),
                        (12, 1) => with_p!(P12A1),
                        (8, 8) => with_p!(P8A8),
                        (12, 4) => with_p!(P12A4),
                        (16, 16) => with_p!(P16A16),
                        _ => panic!("no Rust payload type with size {} alignment {}", $c.size, $c.align),
                    }
                }
            }};
        }
        match $c.svc {
            SvcType::Ipc => with_s!(Ipc),
            SvcType::Local => with_s!(Loc),
        }
    }};
}

pub fn new_pub(prefix: &str, name: &str, c: &PsCfg) -> Result<Box<dyn PubPort>, Obs> {
    dispatch_ps!(RPub, prefix, name, c)
}

pub fn new_sub(prefix: &str, name: &str, c: &PsCfg) -> Result<Box<dyn SubPort>, Obs> {
    dispatch_ps!(RSub, prefix, name, c)
}

// ------------------------------------------------------------------------------------------ event

fn open_event<S: Service + 'static>(node: &Node<S>, name: &str, c: &EvCfg) -> Result<EvFactory<S>, Obs> {
    let n: ServiceName = name.try_into().unwrap();
    let mut b = node
        .service_builder(&n)
        .event()
        .max_notifiers(2)
        .max_listeners(2)
        .max_nodes(4)
        .event_id_max_value(c.max_id)
        .disable_deadline()
        .disable_notifier_dead_event();
    b = match c.created {
        Some(v) => b.notifier_created_event(EventId::new(v)),
        None => b.disable_notifier_created_event(),
    };
    b = match c.dropped {
        Some(v) => b.notifier_dropped_event(EventId::new(v)),
        None => b.disable_notifier_dropped_event(),
    };
    b.open_or_create().map_err(|e| rerr!(event_open_or_create_error_into_c_int, e))
}

pub struct RNotifier<S: Service + 'static> {
    cfg: EvCfg,
    port: Option<Notifier<S>>,
    svc: EvFactory<S>,
    #[allow(dead_code)]
    node: Node<S>,
}

impl<S: Service + 'static> NotifierPort for RNotifier<S> {
    fn create(&mut self) -> Obs {
        match self.svc.notifier_builder().default_event_id(EventId::new(self.cfg.default_id)).create() {
            Ok(p) => {
                self.port = Some(p);
                Obs::Done
            }
            Err(e) => rerr!(notifier_create_error_into_c_int, e),
        }
    }
    fn destroy(&mut self) {
        self.port = None;
    }
    fn exists(&self) -> bool {
        self.port.is_some()
    }
    fn notify(&mut self, id: Option<usize>) -> Obs {
        let Some(p) = &self.port else { return Obs::Skipped };
        let r = match id {
            None => p.notify(),
            Some(v) => p.notify_with_custom_event_id(EventId::new(v)),
        };
        match r {
            Ok(n) => Obs::Count(n as u64),
            Err(e) => rerr!(notifier_notify_error_into_c_int, e),
        }
    }
    fn census(&self) -> Vec<i64> {
        vec![self.svc.dynamic_config().number_of_notifiers() as i64, self.svc.dynamic_config().number_of_listeners() as i64]
    }
    fn close(mut self: Box<Self>) {
        self.port = None;
    }
}

pub struct RListener<S: Service + 'static> {
    port: Option<Listener<S>>,
    svc: EvFactory<S>,
    #[allow(dead_code)]
    node: Node<S>,
}

impl<S: Service + 'static> ListenerPort for RListener<S> {
    fn create(&mut self) -> Obs {
        match self.svc.listener_builder().create() {
            Ok(p) => {
                self.port = Some(p);
                Obs::Done
            }
            Err(e) => rerr!(listener_create_error_into_c_int, e),
        }
    }
    fn destroy(&mut self) {
        self.port = None;
    }
    fn exists(&self) -> bool {
        self.port.is_some()
    }
    fn try_wait(&mut self) -> Obs {
        let Some(p) = &self.port else { return Obs::Skipped };
        let mut list: Vec<(usize, u64)> = Vec::new();
        match p.try_wait(|ev| list.push((ev.id.as_value(), ev.count))) {
            Ok(total) => Obs::Events { list, total },
            Err(e) => rerr!(listener_wait_error_into_c_int, e),
        }
    }
    fn census(&self) -> Vec<i64> {
        vec![self.svc.dynamic_config().number_of_notifiers() as i64, self.svc.dynamic_config().number_of_listeners() as i64]
    }
    fn close(mut self: Box<Self>) {
        self.port = None;
    }
}

pub fn new_notifier(prefix: &str, name: &str, c: &EvCfg) -> Result<Box<dyn NotifierPort>, Obs> {
    fn mk<S: Service + 'static>(prefix: &str, name: &str, c: &EvCfg) -> Result<Box<dyn NotifierPort>, Obs> {
        let node = node::<S>(prefix)?;
        let svc = open_event(&node, name, c)?;
        Ok(Box::new(RNotifier::<S> { cfg: c.clone(), port: None, svc, node }))
    }
    match c.svc {
        SvcType::Ipc => mk::<Ipc>(prefix, name, c),
        SvcType::Local => mk::<Loc>(prefix, name, c),
    }
}

pub fn new_listener(prefix: &str, name: &str, c: &EvCfg) -> Result<Box<dyn ListenerPort>, Obs> {
    fn mk<S: Service + 'static>(prefix: &str, name: &str, c: &EvCfg) -> Result<Box<dyn ListenerPort>, Obs> {
        let node = node::<S>(prefix)?;
        let svc = open_event(&node, name, c)?;
        Ok(Box::new(RListener::<S> { port: None, svc, node }))
    }
    match c.svc {
        SvcType::Ipc => mk::<Ipc>(prefix, name, c),
        SvcType::Local => mk::<Loc>(prefix, name, c),
    }
}

// ------------------------------------------------------------------------------- request-response

type RrF<S, F> = RrFactory<S, <F as RrFlavor<S>>::P, (), <F as RrFlavor<S>>::P, ()>;
type RrClient<S, F> = Client<S, <F as RrFlavor<S>>::P, (), <F as RrFlavor<S>>::P, ()>;
type RrServer<S, F> = Server<S, <F as RrFlavor<S>>::P, (), <F as RrFlavor<S>>::P, ()>;
type RrPending<S, F> = PendingResponse<S, <F as RrFlavor<S>>::P, (), <F as RrFlavor<S>>::P, ()>;
type RrActive<S, F> = ActiveRequest<S, <F as RrFlavor<S>>::P, (), <F as RrFlavor<S>>::P, ()>;
type RrResponse<S, F> = Response<S, <F as RrFlavor<S>>::P, ()>;

/// Typed request-response flavours (request and response use the same payload type).
pub trait RrFlavor<S: Service + 'static>: 'static {
    type P: IceoryxSend + Debug + ?Sized + 'static;
    type ReqLoan;
    fn open(node: &Node<S>, name: &ServiceName, c: &RrCfg) -> Result<RrF<S, Self>, RequestResponseOpenOrCreateError>;
    fn mk_client(f: &RrF<S, Self>, c: &RrCfg) -> Result<RrClient<S, Self>, iceoryx2::service::port_factory::client::ClientCreateError>;
    fn mk_server(f: &RrF<S, Self>, c: &RrCfg) -> Result<RrServer<S, Self>, iceoryx2::service::port_factory::server::ServerCreateError>;
    fn loan(p: &RrClient<S, Self>, n: usize) -> Result<Self::ReqLoan, LoanError>;
    fn loan_view(l: &mut Self::ReqLoan) -> View;
    fn send(l: Self::ReqLoan) -> Result<RrPending<S, Self>, RequestSendError>;
    fn send_copy(p: &RrClient<S, Self>, data: &[u8], n: usize, size: usize) -> Result<RrPending<S, Self>, RequestSendError>;
    fn server_receive(s: &RrServer<S, Self>) -> Result<Option<RrActive<S, Self>>, ReceiveError>;
    fn active_view(a: &RrActive<S, Self>) -> View;
    fn respond_copy(a: &RrActive<S, Self>, data: &[u8], n: usize, size: usize) -> Result<(), SendError>;
    /// loan a response, report its view, fill it, send it
    fn respond_loan(a: &RrActive<S, Self>, n: usize, fill: u8) -> Result<(View, Result<(), SendError>), LoanError>;
    fn pending_receive(p: &RrPending<S, Self>) -> Result<Option<RrResponse<S, Self>>, ReceiveError>;
    fn response_view(r: &RrResponse<S, Self>) -> View;
}

macro_rules! rr_qos {
    ($b:expr, $c:expr) => {
        $b.max_clients(2)
            .max_servers(2)
            .max_active_requests_per_client($c.max_active)
            .max_loaned_requests($c.max_loaned_requests)
            .max_response_buffer_size($c.response_buffer)
            .max_borrowed_responses_per_pending_response($c.max_borrowed_responses)
            .enable_safe_overflow_for_requests(true)
            .enable_safe_overflow_for_responses(true)
            .enable_fire_and_forget_requests($c.fire_and_forget)
    };
}

impl<S: Service + 'static, P: Pay> RrFlavor<S> for Fixed<P> {
    type P = P;
    type ReqLoan = RequestMutUninit<S, MaybeUninit<P>, (), P, ()>;
    fn open(node: &Node<S>, name: &ServiceName, c: &RrCfg) -> Result<RrF<S, Self>, RequestResponseOpenOrCreateError> {
        rr_qos!(node.service_builder(name).request_response::<P, P>(), c).open_or_create()
    }
    fn mk_client(f: &RrF<S, Self>, c: &RrCfg) -> Result<RrClient<S, Self>, iceoryx2::service::port_factory::client::ClientCreateError> {
        f.client_builder().max_active_requests(c.max_active).create()
    }
    fn mk_server(f: &RrF<S, Self>, c: &RrCfg) -> Result<RrServer<S, Self>, iceoryx2::service::port_factory::server::ServerCreateError> {
        f.server_builder().max_loaned_responses_per_request(c.max_loaned_responses).create()
    }
    fn loan(p: &RrClient<S, Self>, _n: usize) -> Result<Self::ReqLoan, LoanError> {
        p.loan_uninit()
    }
    fn loan_view(l: &mut Self::ReqLoan) -> View {
        View {
            ptr: l.payload_mut().as_mut_ptr() as *const u8,
            bytes: core::mem::size_of::<P>(),
            elems: 1,
            hdr_elems: l.header().number_of_elements(),
            origin: l.header().client_id().value(),
        }
    }
    fn send(l: Self::ReqLoan) -> Result<RrPending<S, Self>, RequestSendError> {
        unsafe { l.assume_init() }.send()
    }
    fn send_copy(p: &RrClient<S, Self>, data: &[u8], _n: usize, _size: usize) -> Result<RrPending<S, Self>, RequestSendError> {
        p.send_copy(P::from_bytes(data))
    }
    fn server_receive(s: &RrServer<S, Self>) -> Result<Option<RrActive<S, Self>>, ReceiveError> {
        s.receive()
    }
    fn active_view(a: &RrActive<S, Self>) -> View {
        View {
            ptr: a.payload() as *const P as *const u8,
            bytes: core::mem::size_of::<P>(),
            elems: 1,
            hdr_elems: a.header().number_of_elements(),
            origin: a.header().client_id().value(),
        }
    }
    fn respond_copy(a: &RrActive<S, Self>, data: &[u8], _n: usize, _size: usize) -> Result<(), SendError> {
        a.send_copy(P::from_bytes(data))
    }
    fn respond_loan(a: &RrActive<S, Self>, _n: usize, fill: u8) -> Result<(View, Result<(), SendError>), LoanError> {
        let mut r = a.loan_uninit()?;
        let v = View {
            ptr: r.payload_mut().as_mut_ptr() as *const u8,
            bytes: core::mem::size_of::<P>(),
            elems: 1,
            hdr_elems: r.header().number_of_elements(),
            origin: r.header().server_id().value(),
        };
        fill_bytes(unsafe { core::slice::from_raw_parts_mut(v.ptr as *mut u8, v.bytes) }, fill);
        let res = unsafe { r.assume_init() }.send();
        Ok((v, res))
    }
    fn pending_receive(p: &RrPending<S, Self>) -> Result<Option<RrResponse<S, Self>>, ReceiveError> {
        p.receive()
    }
    fn response_view(r: &RrResponse<S, Self>) -> View {
        View {
            ptr: r.payload() as *const P as *const u8,
            bytes: core::mem::size_of::<P>(),
            elems: 1,
            hdr_elems: r.header().number_of_elements(),
            origin: r.header().server_id().value(),
        }
    }
}

impl<S: Service + 'static, P: Pay> RrFlavor<S> for Slice<P> {
    type P = [P];
    type ReqLoan = RequestMutUninit<S, [MaybeUninit<P>], (), [P], ()>;
    fn open(node: &Node<S>, name: &ServiceName, c: &RrCfg) -> Result<RrF<S, Self>, RequestResponseOpenOrCreateError> {
        rr_qos!(node.service_builder(name).request_response::<[P], [P]>(), c).open_or_create()
    }
    fn mk_client(f: &RrF<S, Self>, c: &RrCfg) -> Result<RrClient<S, Self>, iceoryx2::service::port_factory::client::ClientCreateError> {
        f.client_builder().max_active_requests(c.max_active).initial_max_slice_len(c.max_slice_len).allocation_strategy(AllocationStrategy::Static).create()
    }
    fn mk_server(f: &RrF<S, Self>, c: &RrCfg) -> Result<RrServer<S, Self>, iceoryx2::service::port_factory::server::ServerCreateError> {
        f.server_builder()
            .max_loaned_responses_per_request(c.max_loaned_responses)
            .initial_max_slice_len(c.max_slice_len)
            .allocation_strategy(AllocationStrategy::Static)
            .create()
    }
    fn loan(p: &RrClient<S, Self>, n: usize) -> Result<Self::ReqLoan, LoanError> {
        p.loan_slice_uninit(n)
    }
    fn loan_view(l: &mut Self::ReqLoan) -> View {
        let n = l.payload().len();
        View {
            ptr: l.payload_mut().as_mut_ptr() as *const u8,
            bytes: n * core::mem::size_of::<P>(),
            elems: n as u64,
            hdr_elems: l.header().number_of_elements(),
            origin: l.header().client_id().value(),
        }
    }
    fn send(l: Self::ReqLoan) -> Result<RrPending<S, Self>, RequestSendError> {
        unsafe { l.assume_init() }.send()
    }
    fn send_copy(p: &RrClient<S, Self>, data: &[u8], n: usize, size: usize) -> Result<RrPending<S, Self>, RequestSendError> {
        let vals: Vec<P> = (0..n).map(|i| P::from_bytes(&data[i * size..])).collect();
        let l = p.loan_slice_uninit(n).map_err(|e| RequestSendError::SendError(SendError::LoanError(e)))?;
        l.write_from_slice(&vals).send()
    }
    fn server_receive(s: &RrServer<S, Self>) -> Result<Option<RrActive<S, Self>>, ReceiveError> {
        s.receive()
    }
    fn active_view(a: &RrActive<S, Self>) -> View {
        let n = a.payload().len();
        View {
            ptr: a.payload().as_ptr() as *const u8,
            bytes: n * core::mem::size_of::<P>(),
            elems: n as u64,
            hdr_elems: a.header().number_of_elements(),
            origin: a.header().client_id().value(),
        }
    }
    fn respond_copy(a: &RrActive<S, Self>, data: &[u8], n: usize, size: usize) -> Result<(), SendError> {
        let vals: Vec<P> = (0..n).map(|i| P::from_bytes(&data[i * size..])).collect();
        let l = a.loan_slice_uninit(n).map_err(SendError::LoanError)?;
        l.write_from_slice(&vals).send()
    }
    fn respond_loan(a: &RrActive<S, Self>, n: usize, fill: u8) -> Result<(View, Result<(), SendError>), LoanError> {
        let mut r = a.loan_slice_uninit(n)?;
        let len = r.payload().len();
        let v = View {
            ptr: r.payload_mut().as_mut_ptr() as *const u8,
            bytes: len * core::mem::size_of::<P>(),
            elems: len as u64,
            hdr_elems: r.header().number_of_elements(),
            origin: r.header().server_id().value(),
        };
        fill_bytes(unsafe { core::slice::from_raw_parts_mut(v.ptr as *mut u8, v.bytes) }, fill);
        let res = unsafe { r.assume_init() }.send();
        Ok((v, res))
    }
    fn pending_receive(p: &RrPending<S, Self>) -> Result<Option<RrResponse<S, Self>>, ReceiveError> {
        p.receive()
    }
    fn response_view(r: &RrResponse<S, Self>) -> View {
        let n = r.payload().len();
        View {
            ptr: r.payload().as_ptr() as *const u8,
            bytes: n * core::mem::size_of::<P>(),
            elems: n as u64,
            hdr_elems: r.header().number_of_elements(),
            origin: r.header().server_id().value(),
        }
    }
}

pub struct RClient<S: Service + 'static, F: RrFlavor<S>> {
    cfg: RrCfg,
    port: Option<RrClient<S, F>>,
    loans: Vec<F::ReqLoan>,
    responses: Vec<RrResponse<S, F>>,
    pendings: Vec<RrPending<S, F>>,
    svc: RrF<S, F>,
    #[allow(dead_code)]
    node: Node<S>,
}

impl<S: Service + 'static, F: RrFlavor<S>> RClient<S, F> {
    fn new(prefix: &str, name: &str, cfg: &RrCfg) -> Result<Box<dyn ClientPort>, Obs> {
        let node = node::<S>(prefix)?;
        let n: ServiceName = name.try_into().unwrap();
        let svc = F::open(&node, &n, cfg).map_err(|e| rerr!(request_response_open_or_create_error_into_c_int, e))?;
        Ok(Box::new(RClient::<S, F> { cfg: cfg.clone(), port: None, loans: vec![], responses: vec![], pendings: vec![], svc, node }))
    }
}

impl<S: Service + 'static, F: RrFlavor<S>> ClientPort for RClient<S, F> {
    fn create(&mut self) -> Obs {
        match F::mk_client(&self.svc, &self.cfg) {
            Ok(p) => {
                self.port = Some(p);
                Obs::Done
            }
            Err(e) => rerr!(client_create_error_into_c_int, e),
        }
    }
    fn destroy(&mut self) {
        self.port = None;
        self.loans.clear();
        self.responses.clear();
        self.pendings.clear();
    }
    fn exists(&self) -> bool {
        self.port.is_some()
    }
    fn id(&self) -> Option<u128> {
        self.port.as_ref().map(|p| p.id().value())
    }
    fn loans(&self) -> usize {
        self.loans.len()
    }
    fn pendings(&self) -> usize {
        self.pendings.len()
    }
    fn responses(&self) -> usize {
        self.responses.len()
    }
    fn loan(&mut self, n: usize, fill: u8) -> Obs {
        let Some(p) = &self.port else { return Obs::Skipped };
        match F::loan(p, n) {
            Err(e) => rerr!(loan_error_into_c_int, e),
            Ok(mut l) => {
                let v = F::loan_view(&mut l);
                fill_bytes(unsafe { core::slice::from_raw_parts_mut(v.ptr as *mut u8, v.bytes) }, fill);
                let own = Some(v.origin) == self.id();
                self.loans.push(l);
                Obs::Loaned { bytes: v.bytes, elems: v.elems, hdr_elems: v.hdr_elems, aligned: (v.ptr as usize) % self.cfg.align == 0, own_id: own }
            }
        }
    }
    fn send(&mut self, idx: usize) -> Obs {
        let l = self.loans.remove(idx);
        match F::send(l) {
            Ok(p) => {
                self.pendings.push(p);
                Obs::Done
            }
            Err(e) => rerr!(request_send_error_into_c_int, e),
        }
    }
    fn drop_loan(&mut self, idx: usize) {
        drop(self.loans.remove(idx));
    }
    fn send_copy(&mut self, n: usize, fill: u8) -> Obs {
        let Some(p) = &self.port else { return Obs::Skipped };
        let data = pattern(self.cfg.size * n, fill);
        match F::send_copy(p, &data, n, self.cfg.size) {
            Ok(p) => {
                self.pendings.push(p);
                Obs::Done
            }
            Err(e) => rerr!(request_send_error_into_c_int, e),
        }
    }
    fn pending_receive(&mut self, idx: usize) -> Obs {
        match F::pending_receive(&self.pendings[idx]) {
            Err(e) => rerr!(receive_error_into_c_int, e),
            Ok(None) => Obs::Nothing,
            Ok(Some(r)) => {
                let v = F::response_view(&r);
                let bytes = unsafe { core::slice::from_raw_parts(v.ptr, v.bytes) }.to_vec();
                self.responses.push(r);
                Obs::Data { bytes, elems: v.elems, hdr_elems: v.hdr_elems, aligned: (v.ptr as usize) % self.cfg.align == 0, origin: v.origin }
            }
        }
    }
    fn pending_status(&mut self, idx: usize) -> Vec<i64> {
        let p = &self.pendings[idx];
        vec![p.is_connected() as i64, p.has_response() as i64, p.number_of_server_connections() as i64]
    }
    fn drop_pending(&mut self, idx: usize) {
        drop(self.pendings.remove(idx));
    }
    fn release_response(&mut self, idx: usize) {
        drop(self.responses.remove(idx));
    }
    fn census(&self) -> Vec<i64> {
        vec![
            self.svc.dynamic_config().number_of_clients() as i64,
            self.svc.dynamic_config().number_of_servers() as i64,
            self.port.as_ref().map(|p| p.max_active_requests() as i64).unwrap_or(-1),
        ]
    }
    fn close(mut self: Box<Self>) {
        self.loans.clear();
        self.responses.clear();
        self.pendings.clear();
        self.port = None;
    }
}

pub struct RServer<S: Service + 'static, F: RrFlavor<S>> {
    cfg: RrCfg,
    port: Option<RrServer<S, F>>,
    actives: Vec<RrActive<S, F>>,
    svc: RrF<S, F>,
    #[allow(dead_code)]
    node: Node<S>,
}

impl<S: Service + 'static, F: RrFlavor<S>> RServer<S, F> {
    fn new(prefix: &str, name: &str, cfg: &RrCfg) -> Result<Box<dyn ServerPort>, Obs> {
        let node = node::<S>(prefix)?;
        let n: ServiceName = name.try_into().unwrap();
        let svc = F::open(&node, &n, cfg).map_err(|e| rerr!(request_response_open_or_create_error_into_c_int, e))?;
        Ok(Box::new(RServer::<S, F> { cfg: cfg.clone(), port: None, actives: vec![], svc, node }))
    }
}

impl<S: Service + 'static, F: RrFlavor<S>> ServerPort for RServer<S, F> {
    fn create(&mut self) -> Obs {
        match F::mk_server(&self.svc, &self.cfg) {
            Ok(p) => {
                self.port = Some(p);
                Obs::Done
            }
            Err(e) => rerr!(server_create_error_into_c_int, e),
        }
    }
    fn destroy(&mut self) {
        self.port = None;
        self.actives.clear();
    }
    fn exists(&self) -> bool {
        self.port.is_some()
    }
    fn id(&self) -> Option<u128> {
        self.port.as_ref().map(|p| p.id().value())
    }
    fn actives(&self) -> usize {
        self.actives.len()
    }
    fn receive(&mut self) -> Obs {
        let Some(p) = &self.port else { return Obs::Skipped };
        match F::server_receive(p) {
            Err(e) => rerr!(receive_error_into_c_int, e),
            Ok(None) => Obs::Nothing,
            Ok(Some(a)) => {
                let v = F::active_view(&a);
                let bytes = unsafe { core::slice::from_raw_parts(v.ptr, v.bytes) }.to_vec();
                self.actives.push(a);
                Obs::Data { bytes, elems: v.elems, hdr_elems: v.hdr_elems, aligned: (v.ptr as usize) % self.cfg.align == 0, origin: v.origin }
            }
        }
    }
    fn has_requests(&mut self) -> Obs {
        let Some(p) = &self.port else { return Obs::Skipped };
        match p.has_requests() {
            Ok(b) => Obs::Flag(b),
            Err(e) => rerr!(connection_failure_into_c_int, e),
        }
    }
    fn respond_copy(&mut self, idx: usize, n: usize, fill: u8) -> Obs {
        let data = pattern(self.cfg.size * n, fill);
        match F::respond_copy(&self.actives[idx], &data, n, self.cfg.size) {
            Ok(()) => Obs::Done,
            Err(e) => rerr!(send_error_into_c_int, e),
        }
    }
    fn respond_loan(&mut self, idx: usize, n: usize, fill: u8) -> (Obs, Obs) {
        match F::respond_loan(&self.actives[idx], n, fill) {
            Err(e) => (rerr!(loan_error_into_c_int, e), Obs::Skipped),
            Ok((v, res)) => {
                let loan = Obs::Loaned { bytes: v.bytes, elems: v.elems, hdr_elems: v.hdr_elems, aligned: (v.ptr as usize) % self.cfg.align == 0, own_id: Some(v.origin) == self.id() };
                match res {
                    Ok(()) => (loan, Obs::Done),
                    Err(e) => (loan, rerr!(send_error_into_c_int, e)),
                }
            }
        }
    }
    fn active_status(&mut self, idx: usize) -> Vec<i64> {
        let a = &self.actives[idx];
        vec![a.is_connected() as i64, a.has_disconnect_hint() as i64]
    }
    fn drop_active(&mut self, idx: usize) {
        drop(self.actives.remove(idx));
    }
    fn census(&self) -> Vec<i64> {
        vec![self.svc.dynamic_config().number_of_clients() as i64, self.svc.dynamic_config().number_of_servers() as i64]
    }
    fn close(mut self: Box<Self>) {
        self.actives.clear();
        self.port = None;
    }
}

macro_rules! dispatch_rr {
    ($what:ident, $prefix:expr, $name:expr, $c:expr) => {{
        macro_rules! with_s {
            ($s:ty) => {{
                macro_rules! with_p {
                    ($p:ty) => {
                        if $c.slice {
                            $what::<$s, Slice<$p>>::new($prefix, $name, $c)
                        } else {
                            $what::<$s, Fixed<$p>>::new($prefix, $name, $c)
                        }
                    };
                }
                match ($c.size, $c.align) {
                    (1, 1) => with_p!(P1A1),
                    (8, 8) => with_p!(P8A8),
                    (12, 4) => with_p!(P12A4),
                    (16, 16) => with_p!(P16A16),
                    _ => panic!("no Rust request/response type with size {} alignment {}", $c.size, $c.align),
                }
            }};
        }
        match $c.svc {
            SvcType::Ipc => with_s!(Ipc),
            SvcType::Local => with_s!(Loc),
        }
    }};
}

pub fn new_client(prefix: &str, name: &str, c: &RrCfg) -> Result<Box<dyn ClientPort>, Obs> {
    dispatch_rr!(RClient, prefix, name, c)
}

pub fn new_server(prefix: &str, name: &str, c: &RrCfg) -> Result<Box<dyn ServerPort>, Obs> {
    dispatch_rr!(RServer, prefix, name, c)
}
