//! h_ffi – C18: the C binding behaves like the Rust API.
//!
//! (a) Differential worlds. Every execution builds two *worlds* from the same configuration: the
//!     reference world, whose two participants (sender side, receiver side) are driven through
//!     the Rust API, and the test world, where one or both participants are driven through the C
//!     API (`iox2_*`) – CC: both, CR: C sender + Rust receiver on the SAME service, RC: the other
//!     way round. Every operation is applied to both worlds and everything a program can observe
//!     is compared: success/failure, the C error code against the code that the binding's own
//!     IntoCInt mapping assigns to the Rust error, payload bytes, lengths, element counts, header
//!     fields (as equality classes), recipient counts, the service's port census.
//! (b) Error mapping. One configuration per `impl IntoCInt for X` of the binding; all values of
//!     the enum are converted (see errcheck.rs).
//! (c) Handle release. After operations that release or consume a loan the number of loans that
//!     can still be obtained is probed in both worlds and compared with the configured maximum;
//!     at the end of every execution nothing of the service may remain.

mod cside;
mod errcheck;
mod errmap;
mod gc;
mod ports;
mod rside;
mod strings;

use errcheck::Aspect;
use ports::*;
use seqx::{Fail, Harness, Plan, Tier};
use serde::{Deserialize, Serialize};
use std::sync::atomic::{AtomicU64, Ordering};

#[derive(Clone, Copy, Debug, Serialize, Deserialize, PartialEq, Eq, Hash)]
enum Mix {
    /// test world: C sender side and C receiver side
    CC,
    /// test world: C sender side (publisher/notifier/client), Rust receiver side
    CR,
    /// test world: Rust sender side, C receiver side (subscriber/listener/server)
    RC,
}

#[derive(Clone, Debug, Serialize, Deserialize)]
enum Cfg {
    PubSub {
        mix: Mix,
        svc: SvcType,
        size: usize,
        align: usize,
        slice: bool,
        buffer: usize,
        borrow: usize,
        loans: usize,
        overflow: bool,
        prefill: u8,
        /// backpressure handler of the publisher (see PsCfg::handler), 0 = none
        #[serde(default)]
        handler: u8,
    },
    Event { mix: Mix, svc: SvcType, max_id: usize, lifecycle_events: bool },
    ReqRes { mix: Mix, svc: SvcType, size: usize, align: usize, slice: bool, max_active: usize, loans: usize, faf: bool, stage: u8 },
    ErrorEnum { name: String },
    /// names and paths validated as semantic strings (config prefix/root path, service name, node name)
    Strings,
}

#[derive(Clone, Debug, Serialize, Deserialize, PartialEq, Eq)]
enum Op {
    // publish-subscribe
    Loan(u8),
    Send(u8),
    DropLoan(u8),
    SendCopy(u8),
    Receive,
    Release(u8),
    UpdateConnections,
    TogglePublisher,
    ToggleSubscriber,
    // event
    NotifyDefault,
    NotifyId(usize),
    TryWait,
    ToggleNotifier,
    ToggleListener,
    // request-response
    ReqLoan(u8),
    ReqSend(u8),
    ReqDrop(u8),
    ReqSendCopy(u8),
    SrvReceive,
    RespondCopy(u8),
    RespondLoan(u8),
    DropActive(u8),
    PendReceive(u8),
    DropPending(u8),
    ReleaseResponse(u8),
    ToggleClient,
    ToggleServer,
    // error mapping
    CheckAllVariants(Aspect),
    // names and paths
    Str(strings::StrApi, strings::StrKind),
}

enum World {
    Ps { a: Box<dyn PubPort>, b: Box<dyn SubPort>, c: PsCfg },
    Ev { a: Box<dyn NotifierPort>, b: Box<dyn ListenerPort>, c: EvCfg },
    Rr { a: Box<dyn ClientPort>, b: Box<dyn ServerPort>, c: RrCfg },
}

struct Sys {
    cfg: Cfg,
    /// (reference world, test world); None for the error-enum family
    worlds: Option<(World, World)>,
    strings: Option<strings::Strings>,
    names: (String, String),
    prefixes: (String, String),
    step: u8,
    /// history digest for the state statistic
    digest: u64,
}

static COUNTER: AtomicU64 = AtomicU64::new(0);
/// set while an object graph of this process may still exist (cleared by a completed `finish`)
static DIRTY: std::sync::atomic::AtomicBool = std::sync::atomic::AtomicBool::new(false);
/// signatures of error-code deviations this process has already reported (see `apply`)
static REPORTED: std::sync::Mutex<Vec<String>> = std::sync::Mutex::new(Vec::new());

struct H;

fn mk_pub(c_api: bool, prefix: &str, name: &str, c: &PsCfg) -> Result<Box<dyn PubPort>, Obs> {
    if c_api {
        cside::CPub::new(prefix, name, c)
    } else {
        rside::new_pub(prefix, name, c)
    }
}
fn mk_sub(c_api: bool, prefix: &str, name: &str, c: &PsCfg) -> Result<Box<dyn SubPort>, Obs> {
    if c_api {
        cside::CSub::new(prefix, name, c)
    } else {
        rside::new_sub(prefix, name, c)
    }
}

fn setup_fail(what: &str, o: Obs) -> Fail {
    Fail::new("setup", what.to_string(), format!("{o:?}"))
}

fn build_world(cfg: &Cfg, c_a: bool, c_b: bool, prefix: &str, name: &str) -> Result<World, Fail> {
    let who = |c: bool| if c { "C" } else { "Rust" };
    match cfg {
        Cfg::PubSub { svc, size, align, slice, buffer, borrow, loans, overflow, handler, .. } => {
            let typed = rside::typed_name(*size, *align);
            let c = PsCfg {
                svc: *svc,
                size: *size,
                align: *align,
                slice: *slice,
                rust_custom: typed.is_none(),
                type_name: typed.map(|s| s.to_string()).unwrap_or_else(|| format!("Blob{}x{}", size, align)),
                buffer: *buffer,
                max_borrow: *borrow,
                max_loans: *loans,
                max_slice_len: 2,
                history: 0,
                safe_overflow: *overflow,
                handler: *handler,
            };
            let mut a = mk_pub(c_a, prefix, name, &c).map_err(|o| setup_fail(&format!("open pub-sub service ({} publisher side)", who(c_a)), o))?;
            let mut b = mk_sub(c_b, prefix, name, &c).map_err(|o| setup_fail(&format!("open pub-sub service ({} subscriber side)", who(c_b)), o))?;
            let o = b.create();
            if o != Obs::Done {
                return Err(setup_fail("create subscriber", o));
            }
            let o = a.create();
            if o != Obs::Done {
                return Err(setup_fail("create publisher", o));
            }
            Ok(World::Ps { a, b, c })
        }
        Cfg::Event { svc, max_id, lifecycle_events, .. } => {
            let c = EvCfg {
                svc: *svc,
                max_id: *max_id,
                default_id: 1,
                created: if *lifecycle_events { Some(2) } else { None },
                dropped: if *lifecycle_events { Some(3) } else { None },
            };
            let mut a = if c_a { cside::CNotifier::new(prefix, name, &c) } else { rside::new_notifier(prefix, name, &c) }
                .map_err(|o| setup_fail(&format!("open event service ({} notifier side)", who(c_a)), o))?;
            let mut b = if c_b { cside::CListener::new(prefix, name, &c) } else { rside::new_listener(prefix, name, &c) }
                .map_err(|o| setup_fail(&format!("open event service ({} listener side)", who(c_b)), o))?;
            let o = b.create();
            if o != Obs::Done {
                return Err(setup_fail("create listener", o));
            }
            let o = a.create();
            if o != Obs::Done {
                return Err(setup_fail("create notifier", o));
            }
            Ok(World::Ev { a, b, c })
        }
        Cfg::ReqRes { svc, size, align, slice, max_active, loans, faf, .. } => {
            let c = RrCfg {
                svc: *svc,
                size: *size,
                align: *align,
                slice: *slice,
                type_name: rside::typed_name(*size, *align).expect("typed request/response").to_string(),
                max_active: *max_active,
                max_loaned_requests: *loans,
                response_buffer: 2,
                max_borrowed_responses: 1,
                max_loaned_responses: 1,
                max_slice_len: 2,
                fire_and_forget: *faf,
            };
            let mut a = if c_a { cside::CClient::new(prefix, name, &c) } else { rside::new_client(prefix, name, &c) }
                .map_err(|o| setup_fail(&format!("open request-response service ({} client side)", who(c_a)), o))?;
            let mut b = if c_b { cside::CServer::new(prefix, name, &c) } else { rside::new_server(prefix, name, &c) }
                .map_err(|o| setup_fail(&format!("open request-response service ({} server side)", who(c_b)), o))?;
            let o = b.create();
            if o != Obs::Done {
                return Err(setup_fail("create server", o));
            }
            let o = a.create();
            if o != Obs::Done {
                return Err(setup_fail("create client", o));
            }
            Ok(World::Rr { a, b, c })
        }
        Cfg::ErrorEnum { .. } | Cfg::Strings => unreachable!(),
    }
}

/// One labelled observation; `key` marks observations that enter the state digest.
struct Seen {
    label: &'static str,
    obs: Obs,
}

fn seen(label: &'static str, obs: Obs) -> Seen {
    Seen { label, obs }
}

fn census(label: &'static str, v: Vec<i64>) -> Seen {
    Seen { label, obs: Obs::Events { list: v.into_iter().map(|x| (0usize, x as u64)).collect(), total: 0 } }
}

impl World {
    fn close(self) {
        match self {
            World::Ps { a, b, .. } => {
                b.close();
                a.close();
            }
            World::Ev { a, b, .. } => {
                b.close();
                a.close();
            }
            World::Rr { a, b, .. } => {
                b.close();
                a.close();
            }
        }
    }

    /// Applies `op`; returns what was observed: the result of the call itself first, then the
    /// state that can be observed afterwards.
    fn apply(&mut self, op: &Op, fill: u8, probes: bool) -> Vec<Seen> {
        let mut out: Vec<Seen> = Vec::new();
        match self {
            World::Ps { a, b, c } => {
                let n_of = |k: u8| k as usize;
                let mut probe = false;
                match op {
                    Op::Loan(n) => out.push(seen("result", a.loan(n_of(*n), fill))),
                    Op::Send(i) => {
                        out.push(seen("result", a.send(*i as usize)));
                        probe = true;
                    }
                    Op::DropLoan(i) => {
                        a.drop_loan(*i as usize);
                        out.push(seen("result", Obs::Done));
                        probe = true;
                    }
                    Op::SendCopy(n) => {
                        out.push(seen("result", a.send_copy(n_of(*n), fill)));
                        probe = true;
                    }
                    Op::Receive => {
                        let o = b.receive();
                        let class = if let Obs::Data { origin, .. } = &o { Some(Some(*origin) == a.id()) } else { None };
                        out.push(seen("result", o));
                        if let Some(f) = class {
                            out.push(seen("origin-is-current-publisher", Obs::Flag(f)));
                        }
                    }
                    Op::Release(i) => {
                        b.release(*i as usize);
                        out.push(seen("result", Obs::Done));
                    }
                    Op::UpdateConnections => out.push(seen("result", a.update_connections())),
                    Op::TogglePublisher => {
                        if a.exists() {
                            a.destroy();
                            out.push(seen("result", Obs::Done));
                        } else {
                            out.push(seen("result", a.create()));
                        }
                        probe = true;
                    }
                    Op::ToggleSubscriber => {
                        if b.exists() {
                            b.destroy();
                            out.push(seen("result", Obs::Done));
                        } else {
                            out.push(seen("result", b.create()));
                        }
                    }
                    _ => unreachable!("not a pub-sub op"),
                }
                out.push(seen("has_samples", b.has_samples()));
                out.push(census("census(publisher side)", a.census()));
                out.push(census("census(subscriber side)", b.census()));
                out.push(seen("handles", Obs::Events { list: vec![(a.loans(), b.held() as u64)], total: 0 }));
                if probe && probes {
                    let free = a.probe_loans(1);
                    out.push(seen("loans-still-obtainable", Obs::Count(free)));
                    let expect = if a.exists() { (c.max_loans - a.loans().min(c.max_loans)) as u64 } else { 0 };
                    out.push(seen("loans-still-obtainable==max_loaned_samples-outstanding", Obs::Flag(free == expect)));
                }
            }
            World::Ev { a, b, .. } => {
                match op {
                    Op::NotifyDefault => out.push(seen("result", a.notify(None))),
                    Op::NotifyId(v) => out.push(seen("result", a.notify(Some(*v)))),
                    Op::TryWait => out.push(seen("result", b.try_wait())),
                    Op::ToggleNotifier => {
                        if a.exists() {
                            a.destroy();
                            out.push(seen("result", Obs::Done));
                        } else {
                            out.push(seen("result", a.create()));
                        }
                    }
                    Op::ToggleListener => {
                        if b.exists() {
                            b.destroy();
                            out.push(seen("result", Obs::Done));
                        } else {
                            out.push(seen("result", b.create()));
                        }
                    }
                    _ => unreachable!("not an event op"),
                }
                out.push(census("census(notifier side)", a.census()));
                out.push(census("census(listener side)", b.census()));
            }
            World::Rr { a, b, .. } => {
                match op {
                    Op::ReqLoan(n) => out.push(seen("result", a.loan(*n as usize, fill))),
                    Op::ReqSend(i) => out.push(seen("result", a.send(*i as usize))),
                    Op::ReqDrop(i) => {
                        a.drop_loan(*i as usize);
                        out.push(seen("result", Obs::Done));
                    }
                    Op::ReqSendCopy(n) => out.push(seen("result", a.send_copy(*n as usize, fill))),
                    Op::SrvReceive => {
                        let o = b.receive();
                        let class = if let Obs::Data { origin, .. } = &o { Some(Some(*origin) == a.id()) } else { None };
                        out.push(seen("result", o));
                        if let Some(f) = class {
                            out.push(seen("origin-is-current-client", Obs::Flag(f)));
                        }
                    }
                    Op::RespondCopy(i) => out.push(seen("result", b.respond_copy(*i as usize, 1, fill))),
                    Op::RespondLoan(i) => {
                        let (l, s) = b.respond_loan(*i as usize, 1, fill);
                        out.push(seen("loan", l));
                        out.push(seen("result", s));
                    }
                    Op::DropActive(i) => {
                        b.drop_active(*i as usize);
                        out.push(seen("result", Obs::Done));
                    }
                    Op::PendReceive(i) => {
                        let o = a.pending_receive(*i as usize);
                        let class = if let Obs::Data { origin, .. } = &o { Some(Some(*origin) == b.id()) } else { None };
                        out.push(seen("result", o));
                        if let Some(f) = class {
                            out.push(seen("origin-is-current-server", Obs::Flag(f)));
                        }
                    }
                    Op::DropPending(i) => {
                        a.drop_pending(*i as usize);
                        out.push(seen("result", Obs::Done));
                    }
                    Op::ReleaseResponse(i) => {
                        a.release_response(*i as usize);
                        out.push(seen("result", Obs::Done));
                    }
                    Op::ToggleClient => {
                        if a.exists() {
                            a.destroy();
                            out.push(seen("result", Obs::Done));
                        } else {
                            out.push(seen("result", a.create()));
                        }
                    }
                    Op::ToggleServer => {
                        if b.exists() {
                            b.destroy();
                            out.push(seen("result", Obs::Done));
                        } else {
                            out.push(seen("result", b.create()));
                        }
                    }
                    _ => unreachable!("not a request-response op"),
                }
                out.push(seen("has_requests", b.has_requests()));
                out.push(census("census(client side)", a.census()));
                out.push(census("census(server side)", b.census()));
                let mut st: Vec<i64> = vec![a.loans() as i64, a.pendings() as i64, a.responses() as i64, b.actives() as i64];
                for i in 0..a.pendings() {
                    st.extend(a.pending_status(i));
                }
                for i in 0..b.actives() {
                    st.extend(b.active_status(i));
                }
                out.push(census("handles+connection-status", st));
            }
        }
        out
    }
}

fn op_name(op: &Op) -> String {
    let s = format!("{op:?}");
    s.split('(').next().unwrap().to_string()
}

fn c_call(op: &Op, slice: bool) -> &'static str {
    match op {
        Op::Loan(_) => "iox2_publisher_loan_slice_uninit",
        Op::Send(_) => "iox2_sample_mut_send",
        Op::DropLoan(_) => "iox2_sample_mut_drop",
        Op::SendCopy(_) => {
            if slice {
                "iox2_publisher_send_slice_copy"
            } else {
                "iox2_publisher_send_copy"
            }
        }
        Op::Receive => "iox2_subscriber_receive",
        Op::Release(_) => "iox2_sample_drop",
        Op::UpdateConnections => "iox2_publisher_update_connections",
        Op::TogglePublisher => "iox2_publisher_drop/iox2_port_factory_publisher_builder_create",
        Op::ToggleSubscriber => "iox2_subscriber_drop/iox2_port_factory_subscriber_builder_create",
        Op::NotifyDefault => "iox2_notifier_notify",
        Op::NotifyId(_) => "iox2_notifier_notify_with_custom_event_id",
        Op::TryWait => "iox2_listener_try_wait",
        Op::ToggleNotifier => "iox2_notifier_drop/iox2_port_factory_notifier_builder_create",
        Op::ToggleListener => "iox2_listener_drop/iox2_port_factory_listener_builder_create",
        Op::ReqLoan(_) => "iox2_client_loan_slice_uninit",
        Op::ReqSend(_) => "iox2_request_mut_send",
        Op::ReqDrop(_) => "iox2_request_mut_drop",
        Op::ReqSendCopy(_) => "iox2_client_send_copy",
        Op::SrvReceive => "iox2_server_receive",
        Op::RespondCopy(_) => "iox2_active_request_send_copy",
        Op::RespondLoan(_) => "iox2_active_request_loan_slice_uninit+iox2_response_mut_send",
        Op::DropActive(_) => "iox2_active_request_drop",
        Op::PendReceive(_) => "iox2_pending_response_receive",
        Op::DropPending(_) => "iox2_pending_response_drop",
        Op::ReleaseResponse(_) => "iox2_response_drop",
        Op::ToggleClient => "iox2_client_drop/iox2_port_factory_client_builder_create",
        Op::ToggleServer => "iox2_server_drop/iox2_port_factory_server_builder_create",
        Op::CheckAllVariants(_) => "into_c_int",
        Op::Str(..) => "semantic string",
    }
}

fn hash_obs(h: u64, o: &Obs) -> u64 {
    let s = match o {
        Obs::Err { code, .. } => format!("E{code}"),
        Obs::Data { bytes, elems, .. } => format!("D{}:{}", bytes.len(), elems),
        other => format!("{other:?}"),
    };
    seqx::hash_of(&(h, s))
}

impl H {
    fn prefill(&self, s: &mut Sys) -> Result<(), Fail> {
        let ops: Vec<Op> = match &s.cfg {
            Cfg::PubSub { prefill, .. } => (0..*prefill).map(|_| Op::SendCopy(1)).collect(),
            Cfg::ReqRes { stage, max_active, loans, .. } => {
                let mut v = Vec::new();
                if *stage >= 1 {
                    v.push(Op::ReqSendCopy(1));
                }
                if *stage >= 2 {
                    v.push(Op::SrvReceive);
                }
                if *stage == 3 {
                    v.push(Op::RespondCopy(0));
                }
                // stages 4 and 5: "late answer". The client gives up on its request while the
                // server still holds the active request and answers through it afterwards; the
                // answer stays in the response channel of the abandoned request.
                if *stage >= 4 {
                    v.push(Op::DropPending(0));
                    v.push(Op::RespondCopy(0));
                }
                // stage 5: the client then cycles through its pool of response channels (FIFO,
                // max_servers * 2 * max_active_requests_per_client + max_loaned_requests entries,
                // max_servers = 2 in every configuration of this harness) so that the very next
                // request is assigned the channel of the abandoned request again.
                if *stage >= 5 {
                    let channels = 2 * 2 * *max_active + *loans;
                    for _ in 0..channels - 1 {
                        v.push(Op::ReqSendCopy(1));
                        v.push(Op::DropPending(0));
                    }
                }
                v
            }
            _ => Vec::new(),
        };
        for op in ops {
            self.apply(s, &op)?;
        }
        Ok(())
    }
}

impl Harness for H {
    type Cfg = Cfg;
    type Op = Op;
    type Sys = Sys;

    fn name(&self) -> &'static str {
        "h_ffi"
    }
    fn property(&self) -> &'static str {
        "C18"
    }
    fn rule(&self) -> String {
        "(a) every sequence of port operations up to the tree depth (loan/write/send/send_copy/receive/release, notify/try_wait, \
         request/response life cycle, dropping and re-creating ports, calls beyond the loan/borrow/active-request limits) is executed \
         step by step in a reference world driven through the Rust API and in a test world whose sender side and/or receiver side is \
         driven through the C API (CC, C-sender/Rust-receiver and Rust-sender/C-receiver on one shared service); after every step the \
         call result (C code vs the code IntoCInt assigns to the Rust error), payload bytes, lengths, element counts, header id classes, \
         recipient counts, port census and handle/connection status are compared, the loans still obtainable are probed against the \
         configured maximum, and at the end nothing of the service may remain; configurations vary pattern, service type, payload \
         size/alignment (Rust types and custom type details), fixed vs slice, QoS limits, pre-filled histories. \
         (b) one configuration per `impl IntoCInt` of the binding: all values of the Rust enum (exhaustive matches, nested enums \
         expanded) are converted, each in a sacrificial process: total, never IOX2_OK, a discriminant of the C enum, one-to-one, and \
         named by an exported iox2_*_string function with a printable name no other code of the enum has. \
         (c) names and paths: all pairs of calls of the C entry points that validate semantic strings (config prefix, config root path, \
         service name, node name) with plain/other/with-slash/empty/too-long strings against the Rust constructors (code and value \
         afterwards). A distinct state is a distinct digest of the observation history of the reference world."
            .into()
    }

    fn configs(&self, tier: Tier) -> Vec<(Cfg, Plan)> {
        configs(tier)
    }

    fn new_sys(&self, cfg: &Cfg) -> Result<Sys, Fail> {
        rside::silence_log();
        cside::silence_log();
        if !matches!(cfg, Cfg::ErrorEnum { .. } | Cfg::Strings) && DIRTY.swap(true, Ordering::Relaxed) {
            // the previous execution of this process was abandoned: remove what it left behind
            gc::collect(Some(std::process::id()));
        }
        let k = COUNTER.fetch_add(1, Ordering::Relaxed);
        let pid = std::process::id();
        let prefixes = (format!("hffi_{pid}_r_"), format!("hffi_{pid}_t_"));
        let names = (format!("hffi/{pid}/{k}/ref"), format!("hffi/{pid}/{k}/test"));
        let mut s = Sys { cfg: cfg.clone(), worlds: None, strings: None, names, prefixes, step: 0, digest: 0 };
        let mix = match cfg {
            Cfg::PubSub { mix, .. } | Cfg::Event { mix, .. } | Cfg::ReqRes { mix, .. } => *mix,
            Cfg::ErrorEnum { .. } => return Ok(s),
            Cfg::Strings => {
                s.strings = Some(strings::Strings::new());
                return Ok(s);
            }
        };
        let (c_a, c_b) = match mix {
            Mix::CC => (true, true),
            Mix::CR => (true, false),
            Mix::RC => (false, true),
        };
        let r = build_world(cfg, false, false, &s.prefixes.0, &s.names.0)?;
        let t = match build_world(cfg, c_a, c_b, &s.prefixes.1, &s.names.1) {
            Ok(t) => t,
            Err(f) => {
                r.close();
                return Err(f);
            }
        };
        s.worlds = Some((r, t));
        self.prefill(&mut s)?;
        Ok(s)
    }

    fn enabled(&self, s: &Sys) -> Vec<Op> {
        if s.strings.is_some() {
            let mut v = Vec::new();
            for a in strings::APIS {
                for k in strings::KINDS {
                    v.push(Op::Str(a, k));
                }
            }
            return v;
        }
        let Some((r, _)) = &s.worlds else {
            return errcheck::ASPECTS.iter().map(|a| Op::CheckAllVariants(*a)).collect();
        };
        let mut v = Vec::new();
        match r {
            World::Ps { a, b, c } => {
                if a.exists() {
                    v.push(Op::Loan(1));
                    if c.slice {
                        v.push(Op::Loan(c.max_slice_len as u8));
                        v.push(Op::Loan(c.max_slice_len as u8 + 1));
                    }
                    v.push(Op::SendCopy(if c.slice { c.max_slice_len as u8 } else { 1 }));
                }
                if a.loans() >= 1 {
                    v.push(Op::Send(0));
                    v.push(Op::DropLoan(0));
                }
                if a.loans() >= 2 {
                    v.push(Op::Send(a.loans() as u8 - 1));
                }
                if b.exists() {
                    v.push(Op::Receive);
                }
                if b.held() >= 1 {
                    v.push(Op::Release(0));
                }
                if b.held() >= 2 {
                    v.push(Op::Release(b.held() as u8 - 1));
                }
                v.push(Op::TogglePublisher);
                v.push(Op::ToggleSubscriber);
                if a.exists() && matches!(s.cfg, Cfg::PubSub { prefill: 0, .. }) {
                    v.push(Op::UpdateConnections);
                }
            }
            World::Ev { a, b, c } => {
                if a.exists() {
                    v.push(Op::NotifyDefault);
                    v.push(Op::NotifyId(0));
                    v.push(Op::NotifyId(c.max_id));
                    v.push(Op::NotifyId(c.max_id + 1));
                }
                if b.exists() {
                    v.push(Op::TryWait);
                }
                v.push(Op::ToggleNotifier);
                v.push(Op::ToggleListener);
            }
            World::Rr { a, b, c } => {
                if a.exists() {
                    v.push(Op::ReqSendCopy(1));
                    v.push(Op::ReqLoan(if c.slice { c.max_slice_len as u8 } else { 1 }));
                }
                if a.loans() >= 1 {
                    v.push(Op::ReqSend(0));
                    v.push(Op::ReqDrop(0));
                }
                if b.exists() {
                    v.push(Op::SrvReceive);
                }
                if b.actives() >= 1 {
                    v.push(Op::RespondCopy(0));
                    v.push(Op::RespondLoan(0));
                    v.push(Op::DropActive(0));
                }
                if a.pendings() >= 1 {
                    v.push(Op::PendReceive(0));
                    v.push(Op::DropPending(0));
                }
                if a.pendings() >= 2 {
                    v.push(Op::PendReceive(a.pendings() as u8 - 1));
                }
                if a.responses() >= 1 {
                    v.push(Op::ReleaseResponse(0));
                }
                v.push(Op::ToggleClient);
                v.push(Op::ToggleServer);
            }
        }
        v
    }

    fn apply(&self, s: &mut Sys, op: &Op) -> Result<(), Fail> {
        if let Op::CheckAllVariants(aspect) = op {
            let Cfg::ErrorEnum { name } = &s.cfg else { unreachable!() };
            let o = errcheck::check(name, *aspect)?;
            s.digest = seqx::hash_of(&(s.digest, name, format!("{aspect:?}"), o.variants, o.values, o.codes));
            return Ok(());
        }
        if let Op::Str(api, kind) = op {
            let ((r, rv), (c, cv)) = s.strings.as_mut().unwrap().apply(*api, *kind);
            let c_fn = match api {
                strings::StrApi::ConfigPrefix => "iox2_config_global_set_prefix",
                strings::StrApi::ConfigRootPath => "iox2_config_global_set_root_path",
                strings::StrApi::ServiceName => "iox2_service_name_new",
                strings::StrApi::NodeName => "iox2_node_name_new",
            };
            seqx::ensure!(
                agree(&r, &c),
                if r.is_err() || c.is_err() { "diff-error-code" } else { "diff-result" },
                format!("strings.{api:?}: {c_fn} | rust {} vs {}", r.class(), c.class()),
                "{c_fn} with a {kind:?} string: the Rust constructor gives {} but the C function returned {}",
                r.show(),
                c.show()
            );
            seqx::ensure!(rv == cv, "diff-state", format!("strings.{api:?}: {c_fn} value afterwards"), "after {c_fn} with a {kind:?} string the value is {:?} through Rust but {:?} through C", rv, cv);
            s.digest = seqx::hash_of(&(s.digest, format!("{op:?}"), r.class()));
            return Ok(());
        }
        s.step = s.step.wrapping_add(1);
        let fill = s.step;
        let (pattern, mix, slice) = match &s.cfg {
            Cfg::PubSub { mix, slice, .. } => ("pub-sub", *mix, *slice),
            Cfg::Event { mix, .. } => ("event", *mix, false),
            Cfg::ReqRes { mix, slice, .. } => ("req-res", *mix, *slice),
            Cfg::ErrorEnum { .. } | Cfg::Strings => unreachable!(),
        };
        let (r, t) = s.worlds.as_mut().unwrap();
        let seen_r = r.apply(op, fill, true);
        let seen_t = t.apply(op, fill, true);
        let call = c_call(op, slice);
        for (x, y) in seen_r.iter().zip(seen_t.iter()) {
            if x.label != y.label || !agree(&x.obs, &y.obs) {
                let tag = if x.label.starts_with("loans-still-obtainable") {
                    "leak-loan"
                } else if x.label != "result" && x.label != "loan" {
                    "diff-state"
                } else if x.obs.is_err() || y.obs.is_err() {
                    "diff-error-code"
                } else if x.obs.is_data() && y.obs.is_data() {
                    "diff-payload"
                } else {
                    "diff-result"
                };
                let site = format!("{pattern}.{}.{}: {} | rust {} vs {}", op_name(op), x.label, call, x.obs.class(), y.obs.class());
                if x.label == "result" && x.obs.is_err() && y.obs.is_err() {
                    // Both calls failed and left both worlds unchanged; only the code differs. The
                    // first occurrence in this process is reported (a replay runs in a fresh
                    // process and reproduces it); later occurrences of the same signature do not
                    // cut the exploration of the sequences behind them.
                    let mut rep = REPORTED.lock().unwrap();
                    if rep.contains(&site) {
                        continue;
                    }
                    rep.push(site.clone());
                }
                return Err(Fail::new(
                    tag,
                    site,
                    format!("after {op:?} ({}) the Rust/Rust world observed {} but the {mix:?} world observed {}", x.label, x.obs.show(), y.obs.show()),
                ));
            }
            // probes that carry their own expectation
            if x.label.ends_with("-outstanding") {
                if let (Obs::Flag(fr), Obs::Flag(ft)) = (&x.obs, &y.obs) {
                    if !*ft && *fr {
                        return Err(Fail::new("leak-loan", format!("{pattern}.{}: {}", op_name(op), call), "fewer loans obtainable than max_loaned_samples minus the outstanding ones".to_string()));
                    }
                }
            }
            if x.label == "result" || x.label == "loan" {
                s.digest = hash_obs(s.digest, &x.obs);
            }
        }
        if seen_r.len() != seen_t.len() {
            let lr: Vec<&str> = seen_r.iter().map(|x| x.label).collect();
            let lt: Vec<&str> = seen_t.iter().map(|x| x.label).collect();
            return Err(Fail::new(
                "diff-outcome",
                format!("{pattern}.{}: {}", op_name(op), call),
                format!("the two worlds produced different kinds of observations: Rust {lr:?} vs {mix:?} {lt:?}"),
            ));
        }
        s.digest = seqx::hash_of(&(s.digest, format!("{op:?}")));
        Ok(())
    }

    fn finish(&self, s: Sys) -> Result<(), Fail> {
        let Some((r, t)) = s.worlds else { return Ok(()) };
        let (pat_r, pat_c, svc, mix) = match &s.cfg {
            Cfg::PubSub { svc, mix, .. } => (iceoryx2::prelude::MessagingPattern::PublishSubscribe, iceoryx2_ffi_c::iox2_messaging_pattern_e::PUBLISH_SUBSCRIBE, *svc, *mix),
            Cfg::Event { svc, mix, .. } => (iceoryx2::prelude::MessagingPattern::Event, iceoryx2_ffi_c::iox2_messaging_pattern_e::EVENT, *svc, *mix),
            Cfg::ReqRes { svc, mix, .. } => (iceoryx2::prelude::MessagingPattern::RequestResponse, iceoryx2_ffi_c::iox2_messaging_pattern_e::REQUEST_RESPONSE, *svc, *mix),
            Cfg::ErrorEnum { .. } | Cfg::Strings => unreachable!(),
        };
        // while alive: both APIs must see both services
        let alive_r = rside::service_exists(svc, &s.prefixes.1, &s.names.1, pat_r);
        let alive_c = cside::service_exists(svc, &s.prefixes.1, &s.names.1, pat_c);
        r.close();
        t.close();
        seqx::ensure!(alive_r == Ok(true), "exists-while-alive", "Service::does_exist", "test world service not visible through the Rust API while its handles are alive: {:?}", alive_r);
        seqx::ensure!(alive_c == Ok(true), "exists-while-alive", "iox2_service_does_exist", "test world service not visible through the C API while its handles are alive: {:?}", alive_c);
        let ref_gone = rside::service_exists(svc, &s.prefixes.0, &s.names.0, pat_r);
        let gone_r = rside::service_exists(svc, &s.prefixes.1, &s.names.1, pat_r);
        let gone_c = cside::service_exists(svc, &s.prefixes.1, &s.names.1, pat_c);
        if ref_gone == Ok(false) {
            // only a leak that the Rust/Rust world does not show is the binding's
            seqx::ensure!(
                gone_r == Ok(false) && gone_c == Ok(false),
                "leak-service",
                format!("{mix:?} {svc:?} {}", match &s.cfg { Cfg::PubSub { .. } => "pub-sub", Cfg::Event { .. } => "event", _ => "req-res" }),
                "after every handle of the test world was dropped its service still exists (Rust API: {:?}, C API: {:?}) while the Rust/Rust world's is gone",
                gone_r,
                gone_c
            );
            if svc == SvcType::Ipc {
                let left_r = leftovers(&s.prefixes.0);
                let left_t = leftovers(&s.prefixes.1);
                seqx::ensure!(
                    left_t.is_empty() || !left_r.is_empty(),
                    "leak-resource",
                    format!("{mix:?} {}", match &s.cfg { Cfg::PubSub { .. } => "pub-sub", Cfg::Event { .. } => "event", _ => "req-res" }),
                    "after every handle of the test world was dropped these resources with its prefix remain: {:?} (the Rust/Rust world left nothing)",
                    left_t
                );
            }
        }
        // only an execution that ended without any finding (and whose Rust/Rust world left nothing
        // either) leaves the process clean for sure
        if ref_gone == Ok(false) && (svc != SvcType::Ipc || leftovers(&s.prefixes.0).is_empty()) {
            DIRTY.store(false, Ordering::Relaxed);
        }
        Ok(())
    }

    fn model_key(&self, s: &Sys) -> u64 {
        s.digest
    }

    fn max_violations_per_worker(&self) -> usize {
        // a deviation that lets the two worlds diverge ends only the execution that met it; the
        // exploration of the other sequences goes on (violations are grouped by signature)
        100_000
    }
}

/// Files/shared memory objects that still carry the prefix (the per-prefix global management
/// segment of the node layer is persistent by design and not counted).
fn leftovers(prefix: &str) -> Vec<String> {
    fn walk(dir: &std::path::Path, prefix: &str, out: &mut Vec<String>, depth: usize) {
        let Ok(rd) = std::fs::read_dir(dir) else { return };
        for e in rd.flatten() {
            let n = e.file_name().to_string_lossy().into_owned();
            if e.file_type().map(|t| t.is_dir()).unwrap_or(false) {
                if depth < 3 && (depth > 0 || n == format!("hffi_{}_root", std::process::id())) {
                    walk(&e.path(), prefix, out, depth + 1);
                }
            } else if n.starts_with(prefix) && !n.ends_with(".global_mgmt") {
                // keep the suffix class only: the rest of the name is a hash
                out.push(format!("*.{}", n.rsplit('.').next().unwrap_or("")));
            }
        }
    }
    let mut out = Vec::new();
    walk(std::path::Path::new("/dev/shm"), prefix, &mut out, 0);
    out.sort();
    out.dedup();
    out
}

fn configs(tier: Tier) -> Vec<(Cfg, Plan)> {
    let quick = tier == Tier::Quick;
    let mut v: Vec<(Cfg, Plan)> = Vec::new();
    let plan = |d: usize, split: u32| Plan { tree_depth: d, finish_prefixes: false, frontier: None, split };

    // ---- (b) error mapping: one configuration per impl IntoCInt
    for n in errmap::ENUM_NAMES {
        v.push((Cfg::ErrorEnum { name: n.to_string() }, plan(1, 1)));
    }
    // ---- names and paths: all pairs of calls
    v.push((Cfg::Strings, plan(2, 1)));

    // IPC executions cost 20-50 ms (files, shared memory, four nodes), LOCAL ones 1-3 ms: the deep
    // exploration runs on LOCAL services, IPC services get every configuration class one level
    // shallower. Both arms of every `match service_type` of the binding are exercised.
    let (d_ipc, d_loc, d_loc_deep) = if quick { (3usize, 4usize, 5usize) } else { (3, 5, 6) };
    let (s_ipc, s_loc, s_deep) = if quick { (16u32, 4u32, 8u32) } else { (8, 8, 16) };
    // level 0: one step shallower (LOCAL), 1: normal, 2: one step deeper
    let dsp = |svc: SvcType, level: u8| -> (usize, u32) {
        match (svc, level) {
            (SvcType::Ipc, 2) => (d_ipc + 1, 16),
            (SvcType::Ipc, _) => (d_ipc, s_ipc),
            (SvcType::Local, 0) => (d_loc - 1, if quick { 1 } else { 2 }),
            (SvcType::Local, 1) => (d_loc, s_loc),
            (SvcType::Local, _) => (d_loc_deep, s_deep),
        }
    };

    // ---- (a) publish-subscribe
    // (size, align): Rust types where they exist, custom type details otherwise
    let typed: [(usize, usize); 6] = [(1, 1), (8, 1), (12, 1), (8, 8), (12, 4), (16, 16)];
    let odd: [(usize, usize); 5] = [(12, 8), (1, 8), (8, 16), (1, 16), (12, 16)];
    let mut ps = |mix: Mix, svc: SvcType, sa: (usize, usize), slice: bool, buffer: usize, borrow: usize, loans: usize, overflow: bool, prefill: u8, level: u8| {
        let (d, split) = dsp(svc, level);
        v.push((Cfg::PubSub { mix, svc, size: sa.0, align: sa.1, slice, buffer, borrow, loans, overflow, prefill, handler: 0 }, plan(d, split)));
    };
    if quick {
        ps(Mix::CC, SvcType::Ipc, (8, 8), false, 2, 1, 1, true, 0, 1);
        ps(Mix::CC, SvcType::Ipc, (12, 8), true, 1, 1, 2, true, 2, 1);
        ps(Mix::RC, SvcType::Ipc, (12, 1), true, 2, 1, 2, false, 0, 1);
        ps(Mix::CC, SvcType::Local, (12, 4), false, 1, 1, 1, true, 2, 2);
        ps(Mix::CC, SvcType::Local, (1, 16), true, 2, 1, 1, false, 0, 1);
        ps(Mix::CC, SvcType::Local, (12, 16), false, 2, 2, 2, true, 2, 0);
        ps(Mix::CR, SvcType::Local, (16, 16), false, 2, 1, 1, true, 2, 1);
        ps(Mix::CR, SvcType::Local, (1, 1), true, 1, 1, 1, true, 2, 0);
        ps(Mix::RC, SvcType::Local, (8, 1), false, 2, 1, 1, false, 2, 1);
        ps(Mix::RC, SvcType::Local, (8, 16), false, 1, 1, 2, true, 0, 0);
    } else {
        // (filled in below the closure: handler configurations are pushed directly)

        for (i, sa) in typed.iter().enumerate() {
            for slice in [false, true] {
                let mix = [Mix::CC, Mix::CR, Mix::RC][(i + slice as usize) % 3];
                let svc = if (i + slice as usize) % 3 == 0 { SvcType::Ipc } else { SvcType::Local };
                ps(mix, svc, *sa, slice, 1 + i % 2, 1 + (i / 2) % 2, 1 + (i + 1) % 2, i % 3 != 0, if slice { 2 } else { 0 }, if svc == SvcType::Ipc { 1 } else { 0 });
            }
        }
        for (i, sa) in odd.iter().enumerate() {
            for slice in [false, true] {
                let mix = [Mix::CC, Mix::RC, Mix::CR][(i + slice as usize) % 3];
                let svc = if (i + slice as usize) % 3 == 1 { SvcType::Ipc } else { SvcType::Local };
                ps(mix, svc, *sa, slice, 1 + (i + 1) % 2, 1 + i % 2, 1 + i % 2, i % 2 == 0, if slice { 0 } else { 2 }, if svc == SvcType::Ipc { 1 } else { 0 });
            }
        }
        // every mix with the tightest limits: IPC, and deeper on LOCAL
        for mix in [Mix::CC, Mix::CR, Mix::RC] {
            ps(mix, SvcType::Ipc, (8, 8), false, 1, 1, 1, true, 2, 1);
            ps(mix, SvcType::Local, (8, 8), false, 1, 1, 1, true, 2, 1);
            ps(mix, SvcType::Local, (12, 8), true, 2, 1, 1, false, 0, 1);
        }
        ps(Mix::CC, SvcType::Local, (12, 4), false, 1, 1, 1, true, 2, 2);
        ps(Mix::CC, SvcType::Ipc, (12, 4), true, 2, 1, 2, false, 0, 2);
    }

    // ---- (a) publish-subscribe with a backpressure handler on the publisher: no safe overflow,
    // buffer 1, so that the second send after the subscriber connected meets a full buffer
    {
        let handler_cfgs: Vec<(Mix, SvcType, (usize, usize), bool, u8)> = if quick {
            vec![(Mix::CC, SvcType::Local, (8, 8), false, 2), (Mix::CR, SvcType::Local, (12, 4), true, 3), (Mix::CC, SvcType::Local, (8, 8), false, 1)]
        } else {
            let mut v = Vec::new();
            for mix in [Mix::CC, Mix::CR] {
                for handler in 1..=4u8 {
                    v.push((mix, SvcType::Local, if handler % 2 == 0 { (8, 8) } else { (12, 4) }, handler >= 3, handler));
                }
            }
            v.push((Mix::CC, SvcType::Ipc, (8, 8), false, 2));
            v.push((Mix::CR, SvcType::Ipc, (16, 16), true, 3));
            v
        };
        for (mix, svc, sa, slice, handler) in handler_cfgs {
            let (d, split) = dsp(svc, if quick { 0 } else { 1 });
            v.push((Cfg::PubSub { mix, svc, size: sa.0, align: sa.1, slice, buffer: 1, borrow: 1, loans: 1, overflow: false, prefill: 0, handler }, plan(d.max(4), split)));
        }
    }

    // ---- (a) event
    let mut ev = |mix: Mix, svc: SvcType, max_id: usize, lifecycle_events: bool, level: u8| {
        let (d, split) = dsp(svc, level);
        v.push((Cfg::Event { mix, svc, max_id, lifecycle_events }, plan(d, split)));
    };
    if quick {
        ev(Mix::CC, SvcType::Ipc, 4, true, 1);
        ev(Mix::CR, SvcType::Ipc, 7, false, 1);
        ev(Mix::CC, SvcType::Local, 4, true, 2);
        ev(Mix::RC, SvcType::Local, 7, false, 1);
        ev(Mix::CR, SvcType::Local, 4, true, 1);
    } else {
        for mix in [Mix::CC, Mix::CR, Mix::RC] {
            for svc in [SvcType::Ipc, SvcType::Local] {
                for le in [false, true] {
                    ev(mix, svc, if le { 4 } else { 7 }, le, 1);
                }
            }
        }
        ev(Mix::CC, SvcType::Ipc, 4, true, 2);
        ev(Mix::CC, SvcType::Local, 4, true, 2);
    }

    // ---- (a) request-response
    let mut rr = |mix: Mix, svc: SvcType, sa: (usize, usize), slice: bool, max_active: usize, loans: usize, faf: bool, stage: u8, level: u8| {
        let (d, split) = dsp(svc, level);
        v.push((Cfg::ReqRes { mix, svc, size: sa.0, align: sa.1, slice, max_active, loans, faf, stage }, plan(d, split)));
    };
    if quick {
        rr(Mix::CC, SvcType::Ipc, (8, 8), false, 1, 1, false, 0, 1);
        rr(Mix::RC, SvcType::Ipc, (16, 16), false, 2, 1, false, 2, 1);
        rr(Mix::CC, SvcType::Local, (12, 4), true, 2, 1, true, 2, 1);
        rr(Mix::CC, SvcType::Local, (8, 8), false, 1, 1, true, 1, 0);
        rr(Mix::CR, SvcType::Local, (1, 1), true, 1, 2, true, 3, 0);
        rr(Mix::CR, SvcType::Local, (12, 4), false, 1, 1, false, 2, 0);
        rr(Mix::RC, SvcType::Local, (1, 1), true, 1, 1, false, 3, 0);
        rr(Mix::RC, SvcType::Local, (16, 16), false, 2, 2, true, 0, 0);
        // late answer / channel recycling (C client)
        rr(Mix::CC, SvcType::Local, (8, 8), false, 1, 1, false, 5, 0);
        rr(Mix::CR, SvcType::Local, (12, 4), true, 1, 1, false, 4, 0);
    } else {
        let types: [(usize, usize); 4] = [(1, 1), (8, 8), (12, 4), (16, 16)];
        let mut i = 0usize;
        for mix in [Mix::CC, Mix::CR, Mix::RC] {
            for stage in 0..=3u8 {
                for slice in [false, true] {
                    let svc = if i % 3 == 0 { SvcType::Ipc } else { SvcType::Local };
                    rr(mix, svc, types[i % 4], slice, 1 + i % 2, 1 + (i / 2) % 2, i % 4 == 1, stage, if svc == SvcType::Ipc { 1 } else { 0 });
                    i += 1;
                }
            }
        }
        rr(Mix::CC, SvcType::Local, (8, 8), false, 1, 1, true, 0, 1);
        rr(Mix::CC, SvcType::Local, (12, 4), true, 2, 1, false, 1, 1);
        rr(Mix::CC, SvcType::Local, (16, 16), false, 2, 2, false, 2, 1);
        rr(Mix::CC, SvcType::Local, (1, 1), true, 1, 2, true, 3, 1);
        rr(Mix::CC, SvcType::Ipc, (8, 8), false, 1, 1, false, 0, 2);
        // late answer / channel recycling
        for mix in [Mix::CC, Mix::CR, Mix::RC] {
            for (slice, max_active, loans) in [(false, 1, 1), (true, 1, 2), (false, 2, 1)] {
                rr(mix, SvcType::Local, if slice { (12, 4) } else { (8, 8) }, slice, max_active, loans, false, 4, 0);
                rr(mix, SvcType::Local, if slice { (1, 1) } else { (16, 16) }, slice, max_active, loans, false, 5, 0);
            }
        }
        rr(Mix::CC, SvcType::Ipc, (8, 8), false, 1, 1, false, 5, 1);
    }
    v
}

fn main() {
    let worker = std::env::args().any(|a| a == "--job" || a == "--decode" || a == "--list");
    if !worker {
        // parent and replay processes collect the resources of dead harness processes
        gc::install();
    }
    seqx::main(H);
}
