//! Participants driven through the C API (`iox2_*`), following the call protocol of the
//! examples under /repo/examples/c: storage parameters NULL (the library allocates), every owning
//! handle released exactly once with its `iox2_*_drop` (or consumed by the call that takes it).

#![allow(clippy::missing_safety_doc)]

use crate::ports::*;
use core::ffi::{c_char, c_int, c_void};
use iceoryx2_ffi_c::*;
use std::ffi::CString;
use std::ptr::{null, null_mut};

extern "C" {
    fn iox2_unique_publisher_id_value(handle: iox2_unique_publisher_id_h, id_ptr: *mut u8, id_length: usize);
    fn iox2_unique_client_id_value(handle: iox2_unique_client_id_h, id_ptr: *mut u8, id_length: usize);
    fn iox2_unique_server_id_value(handle: iox2_unique_server_id_h, id_ptr: *mut u8, id_length: usize);
    // the log module of the binding is not re-exported to Rust; iox2_log_level_e is a repr(C) enum (FATAL = 5)
    fn iox2_set_log_level(v: core::ffi::c_uint);
}

fn st(s: SvcType) -> iox2_service_type_e {
    match s {
        SvcType::Ipc => iox2_service_type_e::IPC,
        SvcType::Local => iox2_service_type_e::LOCAL,
    }
}

unsafe fn cstr(p: *const c_char) -> String {
    if p.is_null() {
        return "<null>".into();
    }
    std::ffi::CStr::from_ptr(p).to_string_lossy().into_owned()
}

fn err(code: c_int, name: String) -> Obs {
    Obs::Err { code, what: format!("C code {code} \"{name}\"") }
}

pub fn silence_log() {
    unsafe { iox2_set_log_level(5) };
}

// ------------------------------------------------------------------------------------------ node

pub struct CNode {
    h: iox2_node_h,
    svc: iox2_service_type_e,
}

impl CNode {
    pub fn new(s: SvcType, prefix: &str) -> Result<CNode, Obs> {
        unsafe {
            let nb = iox2_node_builder_new(null_mut());
            let mut cfg: iox2_config_h = null_mut();
            let rc = iox2_config_default(null_mut(), &mut cfg);
            if rc != IOX2_OK {
                return Err(err(rc, "iox2_config_default".into()));
            }
            let p = CString::new(prefix).unwrap();
            let rc = iox2_config_global_set_prefix(&cfg, p.as_ptr());
            if rc != IOX2_OK {
                return Err(err(rc, "iox2_config_global_set_prefix".into()));
            }
            let rp = CString::new(crate::rside::root_path()).unwrap();
            let rc = iox2_config_global_set_root_path(&cfg, rp.as_ptr());
            if rc != IOX2_OK {
                return Err(err(rc, "iox2_config_global_set_root_path".into()));
            }
            // same values as rside::config
            iox2_config_defaults_publish_subscribe_set_subscriber_expired_connection_buffer(&cfg, EXPIRED_CONNECTIONS);
            iox2_config_defaults_request_response_set_client_expired_connection_buffer(&cfg, EXPIRED_CONNECTIONS);
            iox2_config_defaults_request_response_set_server_expired_connection_buffer(&cfg, EXPIRED_CONNECTIONS);
            iox2_node_builder_set_config(&nb, &cfg);
            iox2_config_drop(cfg);
            let mut h: iox2_node_h = null_mut();
            let rc = iox2_node_builder_create(nb, null_mut(), st(s), &mut h);
            if rc != IOX2_OK {
                let e: iox2_node_creation_failure_e = core::mem::transmute(rc);
                return Err(err(rc, cstr(iox2_node_creation_failure_string(e))));
            }
            Ok(CNode { h, svc: st(s) })
        }
    }

    unsafe fn service_builder(&self, name: &str) -> iox2_service_builder_h {
        let mut sn: iox2_service_name_h = null_mut();
        let rc = iox2_service_name_new(null_mut(), name.as_ptr() as *const c_char, name.len(), &mut sn);
        assert_eq!(rc, IOX2_OK, "iox2_service_name_new");
        let sb = iox2_node_service_builder(&self.h, null_mut(), iox2_cast_service_name_ptr(sn));
        iox2_service_name_drop(sn);
        sb
    }

    /// `iox2_service_does_exist` with this node's config
    pub fn service_exists(&self, name: &str, pattern: iox2_messaging_pattern_e) -> Result<bool, c_int> {
        unsafe {
            let mut sn: iox2_service_name_h = null_mut();
            let rc = iox2_service_name_new(null_mut(), name.as_ptr() as *const c_char, name.len(), &mut sn);
            assert_eq!(rc, IOX2_OK);
            let mut b = false;
            let rc = iox2_service_does_exist(self.svc, iox2_cast_service_name_ptr(sn), iox2_node_config(&self.h), pattern, &mut b);
            iox2_service_name_drop(sn);
            if rc == IOX2_OK {
                Ok(b)
            } else {
                Err(rc)
            }
        }
    }
}

/// `iox2_service_does_exist` with a config built through the C API (no node involved)
pub fn service_exists(s: SvcType, prefix: &str, name: &str, pattern: iox2_messaging_pattern_e) -> Result<bool, c_int> {
    unsafe {
        let mut cfg: iox2_config_h = null_mut();
        let rc = iox2_config_default(null_mut(), &mut cfg);
        assert_eq!(rc, IOX2_OK);
        let p = CString::new(prefix).unwrap();
        let rc = iox2_config_global_set_prefix(&cfg, p.as_ptr());
        assert_eq!(rc, IOX2_OK);
        let rp = CString::new(crate::rside::root_path()).unwrap();
        let rc = iox2_config_global_set_root_path(&cfg, rp.as_ptr());
        assert_eq!(rc, IOX2_OK);
        let mut sn: iox2_service_name_h = null_mut();
        let rc = iox2_service_name_new(null_mut(), name.as_ptr() as *const c_char, name.len(), &mut sn);
        assert_eq!(rc, IOX2_OK);
        let mut b = false;
        let rc = iox2_service_does_exist(st(s), iox2_cast_service_name_ptr(sn), iox2_cast_config_ptr(cfg), pattern, &mut b);
        iox2_service_name_drop(sn);
        iox2_config_drop(cfg);
        if rc == IOX2_OK {
            Ok(b)
        } else {
            Err(rc)
        }
    }
}

impl Drop for CNode {
    fn drop(&mut self) {
        unsafe { iox2_node_drop(self.h) }
    }
}

fn variant(slice: bool) -> iox2_type_variant_e {
    if slice {
        iox2_type_variant_e::DYNAMIC
    } else {
        iox2_type_variant_e::FIXED_SIZE
    }
}

unsafe fn loan_err(rc: c_int) -> Obs {
    let e: iox2_loan_error_e = core::mem::transmute(rc);
    err(rc, format!("iox2_loan_error_e: {}", cstr(iox2_loan_error_string(e))))
}

unsafe fn send_err(rc: c_int) -> Obs {
    // 1..=9 are the discriminants of iox2_send_error_e
    if (1..=9).contains(&rc) {
        let e: iox2_send_error_e = core::mem::transmute(rc);
        err(rc, format!("iox2_send_error_e: {}", cstr(iox2_send_error_string(e))))
    } else {
        err(rc, "not an iox2_send_error_e".into())
    }
}

unsafe fn request_send_err(rc: c_int) -> Obs {
    if (1..=10).contains(&rc) {
        let e: iox2_request_send_error_e = core::mem::transmute(rc);
        err(rc, format!("iox2_request_send_error_e: {}", cstr(iox2_request_send_error_string(e))))
    } else {
        err(rc, "not an iox2_request_send_error_e".into())
    }
}

unsafe fn receive_err(rc: c_int) -> Obs {
    if (1..=3).contains(&rc) {
        let e: iox2_receive_error_e = core::mem::transmute(rc);
        err(rc, format!("iox2_receive_error_e: {}", cstr(iox2_receive_error_string(e))))
    } else {
        err(rc, "not an iox2_receive_error_e".into())
    }
}

unsafe fn connection_err(rc: c_int) -> Obs {
    if (0..=1).contains(&rc) {
        let e: iox2_connection_failure_e = core::mem::transmute(rc);
        err(rc, format!("iox2_connection_failure_e: {}", cstr(iox2_connection_failure_string(e))))
    } else {
        err(rc, "not an iox2_connection_failure_e".into())
    }
}

// -------------------------------------------------------------------------------- publish-subscribe

unsafe fn open_pub_sub(node: &CNode, name: &str, c: &PsCfg) -> Result<iox2_port_factory_pub_sub_h, Obs> {
    let sb = node.service_builder(name);
    let sb = iox2_service_builder_pub_sub(sb);
    let rc = iox2_service_builder_pub_sub_set_payload_type_details(
        &sb,
        variant(c.slice),
        c.type_name.as_ptr() as *const c_char,
        c.type_name.len(),
        c.size,
        c.align,
    );
    if rc != IOX2_OK {
        return Err(err(rc, "iox2_type_detail_error_e".into()));
    }
    iox2_service_builder_pub_sub_set_max_publishers(&sb, 2);
    iox2_service_builder_pub_sub_set_max_subscribers(&sb, 2);
    iox2_service_builder_pub_sub_set_max_nodes(&sb, 4);
    iox2_service_builder_pub_sub_set_history_size(&sb, c.history);
    iox2_service_builder_pub_sub_set_subscriber_max_buffer_size(&sb, c.buffer);
    iox2_service_builder_pub_sub_set_subscriber_max_borrowed_samples(&sb, c.max_borrow);
    iox2_service_builder_pub_sub_set_enable_safe_overflow(&sb, c.safe_overflow);
    let mut svc: iox2_port_factory_pub_sub_h = null_mut();
    let rc = iox2_service_builder_pub_sub_open_or_create(sb, null_mut(), &mut svc);
    if rc != IOX2_OK {
        let e: iox2_pub_sub_open_or_create_error_e = core::mem::transmute(rc);
        return Err(err(rc, cstr(iox2_pub_sub_open_or_create_error_string(e))));
    }
    Ok(svc)
}

pub struct CPub {
    cfg: PsCfg,
    svc: iox2_port_factory_pub_sub_h,
    port: iox2_publisher_h,
    loans: Vec<iox2_sample_mut_h>,
    node: CNode,
}

/// the C publisher's backpressure handler; `ctx` points to the mode (see PsCfg::handler)
extern "C" fn c_backpressure_handler(info: iox2_backpressure_info_h_ref, ctx: iox2_callback_context) -> iox2_backpressure_action_e {
    let mode = unsafe { *(ctx as *const u8) };
    match mode {
        1 => iox2_backpressure_action_e::DISCARD_DATA,
        2 => iox2_backpressure_action_e::DISCARD_DATA_AND_FAIL,
        3 => {
            if unsafe { iox2_backpressure_info_retries(info) } == 0 {
                iox2_backpressure_action_e::RETRY
            } else {
                iox2_backpressure_action_e::DISCARD_DATA_AND_FAIL
            }
        }
        _ => iox2_backpressure_action_e::FOLLOW_BACKPRESSUREY_STRATEGY,
    }
}

impl CPub {
    pub fn new(prefix: &str, name: &str, cfg: &PsCfg) -> Result<Box<dyn PubPort>, Obs> {
        let node = CNode::new(cfg.svc, prefix)?;
        let svc = unsafe { open_pub_sub(&node, name, cfg)? };
        Ok(Box::new(CPub { cfg: cfg.clone(), svc, port: null_mut(), loans: Vec::new(), node }))
    }

    unsafe fn id_of(h: iox2_unique_publisher_id_h) -> u128 {
        let mut b = [0u8; 16];
        iox2_unique_publisher_id_value(h, b.as_mut_ptr(), 16);
        iox2_unique_publisher_id_drop(h);
        u128::from_ne_bytes(b)
    }
}

impl PubPort for CPub {
    fn create(&mut self) -> Obs {
        unsafe {
            let b = iox2_port_factory_pub_sub_publisher_builder(&self.svc, null_mut());
            iox2_port_factory_publisher_builder_set_max_loaned_samples(&b, self.cfg.max_loans);
            iox2_port_factory_publisher_builder_backpressure_strategy(&b, iox2_backpressure_strategy_e::DISCARD_DATA);
            if self.cfg.handler != 0 {
                // the context outlives the port (leaked on purpose: one byte per created publisher)
                let ctx = Box::into_raw(Box::new(self.cfg.handler)) as *mut c_void;
                iox2_port_factory_publisher_builder_set_backpressure_handler(&b, c_backpressure_handler, ctx);
            }
            if self.cfg.slice {
                iox2_port_factory_publisher_builder_set_initial_max_slice_len(&b, self.cfg.max_slice_len);
                iox2_port_factory_publisher_builder_set_allocation_strategy(&b, iox2_allocation_strategy_e::STATIC);
            }
            let mut p: iox2_publisher_h = null_mut();
            let rc = iox2_port_factory_publisher_builder_create(b, null_mut(), &mut p);
            if rc != IOX2_OK {
                let e: iox2_publisher_create_error_e = core::mem::transmute(rc);
                return err(rc, cstr(iox2_publisher_create_error_string(e)));
            }
            self.port = p;
            Obs::Done
        }
    }
    fn destroy(&mut self) {
        unsafe {
            if !self.port.is_null() {
                iox2_publisher_drop(self.port);
                self.port = null_mut();
            }
            for l in self.loans.drain(..) {
                iox2_sample_mut_drop(l);
            }
        }
    }
    fn exists(&self) -> bool {
        !self.port.is_null()
    }
    fn id(&self) -> Option<u128> {
        if self.port.is_null() {
            return None;
        }
        unsafe {
            let mut h: iox2_unique_publisher_id_h = null_mut();
            iox2_publisher_id(&self.port, null_mut(), &mut h);
            Some(Self::id_of(h))
        }
    }
    fn loans(&self) -> usize {
        self.loans.len()
    }
    fn loan(&mut self, n: usize, fill: u8) -> Obs {
        if self.port.is_null() {
            return Obs::Skipped;
        }
        unsafe {
            let mut s: iox2_sample_mut_h = null_mut();
            let rc = iox2_publisher_loan_slice_uninit(&self.port, null_mut(), &mut s, n);
            if rc != IOX2_OK {
                return loan_err(rc);
            }
            let mut p: *mut c_void = null_mut();
            let mut ne: usize = 0;
            iox2_sample_mut_payload_mut(&s, &mut p, &mut ne);
            let nbytes = iox2_sample_mut_payload_number_of_bytes(&s);
            fill_bytes(core::slice::from_raw_parts_mut(p as *mut u8, nbytes), fill);
            let mut hh: iox2_publish_subscribe_header_h = null_mut();
            iox2_sample_mut_header(&s, null_mut(), &mut hh);
            let hdr_elems = iox2_publish_subscribe_header_number_of_elements(&hh);
            let mut idh: iox2_unique_publisher_id_h = null_mut();
            iox2_publish_subscribe_header_publisher_id(&hh, null_mut(), &mut idh);
            let origin = Self::id_of(idh);
            iox2_publish_subscribe_header_drop(hh);
            self.loans.push(s);
            Obs::Loaned { bytes: nbytes, elems: ne as u64, hdr_elems, aligned: (p as usize) % self.cfg.align == 0, own_id: Some(origin) == self.id() }
        }
    }
    fn send(&mut self, idx: usize) -> Obs {
        let s = self.loans.remove(idx);
        unsafe {
            let mut n: usize = usize::MAX;
            let rc = iox2_sample_mut_send(s, &mut n);
            if rc != IOX2_OK {
                return send_err(rc);
            }
            Obs::Count(n as u64)
        }
    }
    fn drop_loan(&mut self, idx: usize) {
        let s = self.loans.remove(idx);
        unsafe { iox2_sample_mut_drop(s) }
    }
    fn send_copy(&mut self, n: usize, fill: u8) -> Obs {
        if self.port.is_null() {
            return Obs::Skipped;
        }
        let data = pattern(self.cfg.size * n, fill);
        unsafe {
            let mut r: usize = usize::MAX;
            let rc = if self.cfg.slice {
                iox2_publisher_send_slice_copy(&self.port, data.as_ptr() as *const c_void, self.cfg.size, n, &mut r)
            } else {
                iox2_publisher_send_copy(&self.port, data.as_ptr() as *const c_void, self.cfg.size, &mut r)
            };
            if rc != IOX2_OK {
                return send_err(rc);
            }
            Obs::Count(r as u64)
        }
    }
    fn update_connections(&mut self) -> Obs {
        if self.port.is_null() {
            return Obs::Skipped;
        }
        unsafe {
            let rc = iox2_publisher_update_connections(&self.port);
            // NOTE: 0 is both IOX2_OK and a discriminant of iox2_connection_failure_e
            if rc != IOX2_OK {
                return connection_err(rc);
            }
            Obs::Done
        }
    }
    fn probe_loans(&mut self, n: usize) -> u64 {
        if self.port.is_null() {
            return 0;
        }
        let mut got: Vec<iox2_sample_mut_h> = Vec::new();
        unsafe {
            for _ in 0..16 {
                let mut s: iox2_sample_mut_h = null_mut();
                let rc = iox2_publisher_loan_slice_uninit(&self.port, null_mut(), &mut s, n);
                if rc != IOX2_OK {
                    break;
                }
                got.push(s);
            }
            let k = got.len() as u64;
            for s in got {
                iox2_sample_mut_drop(s);
            }
            k
        }
    }
    fn census(&self) -> Vec<i64> {
        unsafe {
            vec![
                iox2_port_factory_pub_sub_dynamic_config_number_of_publishers(&self.svc) as i64,
                iox2_port_factory_pub_sub_dynamic_config_number_of_subscribers(&self.svc) as i64,
                !self.port.is_null() as i64,
            ]
        }
    }
    fn close(self: Box<Self>) {
        // Drop releases loans, port, service and (last, as a field) the node
    }
}

impl Drop for CPub {
    fn drop(&mut self) {
        unsafe {
            for l in self.loans.drain(..) {
                iox2_sample_mut_drop(l);
            }
            if !self.port.is_null() {
                iox2_publisher_drop(self.port);
                self.port = null_mut();
            }
            iox2_port_factory_pub_sub_drop(self.svc);
        }
    }
}

pub struct CSub {
    cfg: PsCfg,
    svc: iox2_port_factory_pub_sub_h,
    port: iox2_subscriber_h,
    samples: Vec<iox2_sample_h>,
    node: CNode,
}

impl CSub {
    pub fn new(prefix: &str, name: &str, cfg: &PsCfg) -> Result<Box<dyn SubPort>, Obs> {
        let node = CNode::new(cfg.svc, prefix)?;
        let svc = unsafe { open_pub_sub(&node, name, cfg)? };
        Ok(Box::new(CSub { cfg: cfg.clone(), svc, port: null_mut(), samples: Vec::new(), node }))
    }
}

impl SubPort for CSub {
    fn create(&mut self) -> Obs {
        unsafe {
            let b = iox2_port_factory_pub_sub_subscriber_builder(&self.svc, null_mut());
            iox2_port_factory_subscriber_builder_set_buffer_size(&b, self.cfg.buffer);
            let mut p: iox2_subscriber_h = null_mut();
            let rc = iox2_port_factory_subscriber_builder_create(b, null_mut(), &mut p);
            if rc != IOX2_OK {
                let e: iox2_subscriber_create_error_e = core::mem::transmute(rc);
                return err(rc, cstr(iox2_subscriber_create_error_string(e)));
            }
            self.port = p;
            Obs::Done
        }
    }
    fn destroy(&mut self) {
        unsafe {
            if !self.port.is_null() {
                iox2_subscriber_drop(self.port);
                self.port = null_mut();
            }
            for s in self.samples.drain(..) {
                iox2_sample_drop(s);
            }
        }
    }
    fn exists(&self) -> bool {
        !self.port.is_null()
    }
    fn held(&self) -> usize {
        self.samples.len()
    }
    fn receive(&mut self) -> Obs {
        if self.port.is_null() {
            return Obs::Skipped;
        }
        unsafe {
            let mut s: iox2_sample_h = null_mut();
            let rc = iox2_subscriber_receive(&self.port, null_mut(), &mut s);
            if rc != IOX2_OK {
                return receive_err(rc);
            }
            if s.is_null() {
                return Obs::Nothing;
            }
            let mut p: *const c_void = null();
            let mut ne: usize = 0;
            iox2_sample_payload(&s, &mut p, &mut ne);
            let nbytes = iox2_sample_payload_number_of_bytes(&s);
            let bytes = core::slice::from_raw_parts(p as *const u8, nbytes).to_vec();
            let mut hh: iox2_publish_subscribe_header_h = null_mut();
            iox2_sample_header(&s, null_mut(), &mut hh);
            let hdr_elems = iox2_publish_subscribe_header_number_of_elements(&hh);
            let mut idh: iox2_unique_publisher_id_h = null_mut();
            iox2_publish_subscribe_header_publisher_id(&hh, null_mut(), &mut idh);
            let origin = CPub::id_of(idh);
            iox2_publish_subscribe_header_drop(hh);
            self.samples.push(s);
            Obs::Data { bytes, elems: ne as u64, hdr_elems, aligned: (p as usize) % self.cfg.align == 0, origin }
        }
    }
    fn release(&mut self, idx: usize) {
        let s = self.samples.remove(idx);
        unsafe { iox2_sample_drop(s) }
    }
    fn has_samples(&mut self) -> Obs {
        if self.port.is_null() {
            return Obs::Skipped;
        }
        unsafe {
            let mut b = false;
            let rc = iox2_subscriber_has_samples(&self.port, &mut b);
            if rc != IOX2_OK {
                return connection_err(rc);
            }
            Obs::Flag(b)
        }
    }
    fn update_connections(&mut self) -> Obs {
        Obs::Skipped
    }
    fn census(&self) -> Vec<i64> {
        unsafe {
            vec![
                iox2_port_factory_pub_sub_dynamic_config_number_of_publishers(&self.svc) as i64,
                iox2_port_factory_pub_sub_dynamic_config_number_of_subscribers(&self.svc) as i64,
                if self.port.is_null() { -1 } else { iox2_subscriber_buffer_size(&self.port) as i64 },
            ]
        }
    }
    fn close(self: Box<Self>) {}
}

impl Drop for CSub {
    fn drop(&mut self) {
        unsafe {
            for s in self.samples.drain(..) {
                iox2_sample_drop(s);
            }
            if !self.port.is_null() {
                iox2_subscriber_drop(self.port);
                self.port = null_mut();
            }
            iox2_port_factory_pub_sub_drop(self.svc);
        }
    }
}

// ------------------------------------------------------------------------------------------ event

unsafe fn open_event(node: &CNode, name: &str, c: &EvCfg) -> Result<iox2_port_factory_event_h, Obs> {
    let sb = node.service_builder(name);
    let sb = iox2_service_builder_event(sb);
    iox2_service_builder_event_set_max_notifiers(&sb, 2);
    iox2_service_builder_event_set_max_listeners(&sb, 2);
    iox2_service_builder_event_set_max_nodes(&sb, 4);
    iox2_service_builder_event_set_event_id_max_value(&sb, c.max_id);
    iox2_service_builder_event_disable_deadline(&sb);
    iox2_service_builder_event_disable_notifier_dead_event(&sb);
    match c.created {
        Some(v) => iox2_service_builder_event_set_notifier_created_event(&sb, v),
        None => iox2_service_builder_event_disable_notifier_created_event(&sb),
    }
    match c.dropped {
        Some(v) => iox2_service_builder_event_set_notifier_dropped_event(&sb, v),
        None => iox2_service_builder_event_disable_notifier_dropped_event(&sb),
    }
    let mut svc: iox2_port_factory_event_h = null_mut();
    let rc = iox2_service_builder_event_open_or_create(sb, null_mut(), &mut svc);
    if rc != IOX2_OK {
        let e: iox2_event_open_or_create_error_e = core::mem::transmute(rc);
        return Err(err(rc, cstr(iox2_event_open_or_create_error_string(e))));
    }
    Ok(svc)
}

pub struct CNotifier {
    cfg: EvCfg,
    svc: iox2_port_factory_event_h,
    port: iox2_notifier_h,
    #[allow(dead_code)]
    node: CNode,
}

impl CNotifier {
    pub fn new(prefix: &str, name: &str, cfg: &EvCfg) -> Result<Box<dyn NotifierPort>, Obs> {
        let node = CNode::new(cfg.svc, prefix)?;
        let svc = unsafe { open_event(&node, name, cfg)? };
        Ok(Box::new(CNotifier { cfg: cfg.clone(), svc, port: null_mut(), node }))
    }
}

impl NotifierPort for CNotifier {
    fn create(&mut self) -> Obs {
        unsafe {
            let b = iox2_port_factory_event_notifier_builder(&self.svc, null_mut());
            let id = iox2_event_id_t { value: self.cfg.default_id };
            iox2_port_factory_notifier_builder_set_default_event_id(&b, &id);
            let mut p: iox2_notifier_h = null_mut();
            let rc = iox2_port_factory_notifier_builder_create(b, null_mut(), &mut p);
            if rc != IOX2_OK {
                let e: iox2_notifier_create_error_e = core::mem::transmute(rc);
                return err(rc, cstr(iox2_notifier_create_error_string(e)));
            }
            self.port = p;
            Obs::Done
        }
    }
    fn destroy(&mut self) {
        unsafe {
            if !self.port.is_null() {
                iox2_notifier_drop(self.port);
                self.port = null_mut();
            }
        }
    }
    fn exists(&self) -> bool {
        !self.port.is_null()
    }
    fn notify(&mut self, id: Option<usize>) -> Obs {
        if self.port.is_null() {
            return Obs::Skipped;
        }
        unsafe {
            let mut n: usize = usize::MAX;
            let rc = match id {
                None => iox2_notifier_notify(&self.port, &mut n),
                Some(v) => {
                    let id = iox2_event_id_t { value: v };
                    iox2_notifier_notify_with_custom_event_id(&self.port, &id, &mut n)
                }
            };
            if rc != IOX2_OK {
                if (1..=4).contains(&rc) {
                    let e: iox2_notifier_notify_error_e = core::mem::transmute(rc);
                    return err(rc, cstr(iox2_notifier_notify_error_string(e)));
                }
                return err(rc, "not an iox2_notifier_notify_error_e".into());
            }
            Obs::Count(n as u64)
        }
    }
    fn census(&self) -> Vec<i64> {
        unsafe {
            vec![
                iox2_port_factory_event_dynamic_config_number_of_notifiers(&self.svc) as i64,
                iox2_port_factory_event_dynamic_config_number_of_listeners(&self.svc) as i64,
            ]
        }
    }
    fn close(self: Box<Self>) {}
}

impl Drop for CNotifier {
    fn drop(&mut self) {
        unsafe {
            if !self.port.is_null() {
                iox2_notifier_drop(self.port);
                self.port = null_mut();
            }
            iox2_port_factory_event_drop(self.svc)
        }
    }
}

pub struct CListener {
    svc: iox2_port_factory_event_h,
    port: iox2_listener_h,
    #[allow(dead_code)]
    node: CNode,
}

impl CListener {
    pub fn new(prefix: &str, name: &str, cfg: &EvCfg) -> Result<Box<dyn ListenerPort>, Obs> {
        let node = CNode::new(cfg.svc, prefix)?;
        let svc = unsafe { open_event(&node, name, cfg)? };
        Ok(Box::new(CListener { svc, port: null_mut(), node }))
    }
}

extern "C" fn collect_event(id: *const iox2_event_id_t, count: u64, ctx: iox2_callback_context) {
    let v = unsafe { &mut *(ctx as *mut Vec<(usize, u64)>) };
    v.push((unsafe { (*id).value }, count));
}

impl ListenerPort for CListener {
    fn create(&mut self) -> Obs {
        unsafe {
            let b = iox2_port_factory_event_listener_builder(&self.svc, null_mut());
            let mut p: iox2_listener_h = null_mut();
            let rc = iox2_port_factory_listener_builder_create(b, null_mut(), &mut p);
            if rc != IOX2_OK {
                let e: iox2_listener_create_error_e = core::mem::transmute(rc);
                return err(rc, cstr(iox2_listener_create_error_string(e)));
            }
            self.port = p;
            Obs::Done
        }
    }
    fn destroy(&mut self) {
        unsafe {
            if !self.port.is_null() {
                iox2_listener_drop(self.port);
                self.port = null_mut();
            }
        }
    }
    fn exists(&self) -> bool {
        !self.port.is_null()
    }
    fn try_wait(&mut self) -> Obs {
        if self.port.is_null() {
            return Obs::Skipped;
        }
        unsafe {
            let mut list: Vec<(usize, u64)> = Vec::new();
            let mut total: u64 = u64::MAX;
            let rc = iox2_listener_try_wait(&self.port, &mut total, collect_event, &mut list as *mut _ as *mut c_void);
            if rc != IOX2_OK {
                if (1..=3).contains(&rc) {
                    let e: iox2_listener_wait_error_e = core::mem::transmute(rc);
                    return err(rc, cstr(iox2_listener_wait_error_string(e)));
                }
                return err(rc, "not an iox2_listener_wait_error_e".into());
            }
            Obs::Events { list, total }
        }
    }
    fn census(&self) -> Vec<i64> {
        unsafe {
            vec![
                iox2_port_factory_event_dynamic_config_number_of_notifiers(&self.svc) as i64,
                iox2_port_factory_event_dynamic_config_number_of_listeners(&self.svc) as i64,
            ]
        }
    }
    fn close(self: Box<Self>) {}
}

impl Drop for CListener {
    fn drop(&mut self) {
        unsafe {
            if !self.port.is_null() {
                iox2_listener_drop(self.port);
                self.port = null_mut();
            }
            iox2_port_factory_event_drop(self.svc)
        }
    }
}

// ------------------------------------------------------------------------------- request-response

unsafe fn open_req_res(node: &CNode, name: &str, c: &RrCfg) -> Result<iox2_port_factory_request_response_h, Obs> {
    let sb = node.service_builder(name);
    let sb = iox2_service_builder_request_response(sb);
    let tn = c.type_name.as_ptr() as *const c_char;
    let rc = iox2_service_builder_request_response_set_request_payload_type_details(&sb, variant(c.slice), tn, c.type_name.len(), c.size, c.align);
    if rc != IOX2_OK {
        return Err(err(rc, "iox2_type_detail_error_e".into()));
    }
    let rc = iox2_service_builder_request_response_set_response_payload_type_details(&sb, variant(c.slice), tn, c.type_name.len(), c.size, c.align);
    if rc != IOX2_OK {
        return Err(err(rc, "iox2_type_detail_error_e".into()));
    }
    iox2_service_builder_request_response_max_clients(&sb, 2);
    iox2_service_builder_request_response_max_servers(&sb, 2);
    iox2_service_builder_request_response_max_active_requests_per_client(&sb, c.max_active);
    iox2_service_builder_request_response_max_loaned_requests(&sb, c.max_loaned_requests);
    iox2_service_builder_request_response_max_response_buffer_size(&sb, c.response_buffer);
    iox2_service_builder_request_response_max_borrowed_responses_per_pending_response(&sb, c.max_borrowed_responses);
    iox2_service_builder_request_response_enable_safe_overflow_for_requests(&sb, true);
    iox2_service_builder_request_response_enable_safe_overflow_for_responses(&sb, true);
    iox2_service_builder_request_response_enable_fire_and_forget_requests(&sb, c.fire_and_forget);
    let mut svc: iox2_port_factory_request_response_h = null_mut();
    let rc = iox2_service_builder_request_response_open_or_create(sb, null_mut(), &mut svc);
    if rc != IOX2_OK {
        let e: iox2_request_response_open_or_create_error_e = core::mem::transmute(rc);
        return Err(err(rc, cstr(iox2_request_response_open_or_create_error_string(e))));
    }
    Ok(svc)
}

pub struct CClient {
    cfg: RrCfg,
    svc: iox2_port_factory_request_response_h,
    port: iox2_client_h,
    loans: Vec<iox2_request_mut_h>,
    pendings: Vec<iox2_pending_response_h>,
    responses: Vec<iox2_response_h>,
    #[allow(dead_code)]
    node: CNode,
}

impl CClient {
    pub fn new(prefix: &str, name: &str, cfg: &RrCfg) -> Result<Box<dyn ClientPort>, Obs> {
        let node = CNode::new(cfg.svc, prefix)?;
        let svc = unsafe { open_req_res(&node, name, cfg)? };
        Ok(Box::new(CClient { cfg: cfg.clone(), svc, port: null_mut(), loans: vec![], pendings: vec![], responses: vec![], node }))
    }
    unsafe fn client_id_of(h: iox2_unique_client_id_h) -> u128 {
        let mut b = [0u8; 16];
        iox2_unique_client_id_value(h, b.as_mut_ptr(), 16);
        iox2_unique_client_id_drop(h);
        u128::from_ne_bytes(b)
    }
    unsafe fn server_id_of(h: iox2_unique_server_id_h) -> u128 {
        let mut b = [0u8; 16];
        iox2_unique_server_id_value(h, b.as_mut_ptr(), 16);
        iox2_unique_server_id_drop(h);
        u128::from_ne_bytes(b)
    }
    unsafe fn drop_all(&mut self) {
        for l in self.loans.drain(..) {
            iox2_request_mut_drop(l);
        }
        for r in self.responses.drain(..) {
            iox2_response_drop(r);
        }
        for p in self.pendings.drain(..) {
            iox2_pending_response_drop(p);
        }
    }
}

impl ClientPort for CClient {
    fn create(&mut self) -> Obs {
        unsafe {
            let b = iox2_port_factory_request_response_client_builder(&self.svc, null_mut());
            iox2_port_factory_client_builder_set_max_active_requests(&b, self.cfg.max_active);
            if self.cfg.slice {
                iox2_port_factory_client_builder_set_initial_max_slice_len(&b, self.cfg.max_slice_len);
                iox2_port_factory_client_builder_set_allocation_strategy(&b, iox2_allocation_strategy_e::STATIC);
            }
            let mut p: iox2_client_h = null_mut();
            let rc = iox2_port_factory_client_builder_create(b, null_mut(), &mut p);
            if rc != IOX2_OK {
                let e: iox2_client_create_error_e = core::mem::transmute(rc);
                return err(rc, cstr(iox2_client_create_error_string(e)));
            }
            self.port = p;
            Obs::Done
        }
    }
    fn destroy(&mut self) {
        unsafe {
            if !self.port.is_null() {
                iox2_client_drop(self.port);
                self.port = null_mut();
            }
            self.drop_all();
        }
    }
    fn exists(&self) -> bool {
        !self.port.is_null()
    }
    fn id(&self) -> Option<u128> {
        if self.port.is_null() {
            return None;
        }
        unsafe {
            let mut h: iox2_unique_client_id_h = null_mut();
            iox2_client_id(&self.port, null_mut(), &mut h);
            Some(Self::client_id_of(h))
        }
    }
    fn loans(&self) -> usize {
        self.loans.len()
    }
    fn pendings(&self) -> usize {
        self.pendings.len()
    }
    fn responses(&self) -> usize {
        self.responses.len()
    }
    fn loan(&mut self, n: usize, fill: u8) -> Obs {
        if self.port.is_null() {
            return Obs::Skipped;
        }
        unsafe {
            let mut r: iox2_request_mut_h = null_mut();
            let rc = iox2_client_loan_slice_uninit(&self.port, null_mut(), &mut r, n);
            if rc != IOX2_OK {
                return loan_err(rc);
            }
            let mut p: *mut c_void = null_mut();
            let mut ne: usize = 0;
            iox2_request_mut_payload_mut(&r, &mut p, &mut ne);
            let nbytes = iox2_request_mut_payload_number_of_bytes(&r);
            fill_bytes(core::slice::from_raw_parts_mut(p as *mut u8, nbytes), fill);
            let mut hh: iox2_request_header_h = null_mut();
            iox2_request_mut_header(&r, null_mut(), &mut hh);
            let hdr_elems = iox2_request_header_number_of_elements(&hh);
            let mut idh: iox2_unique_client_id_h = null_mut();
            iox2_request_header_client_id(&hh, null_mut(), &mut idh);
            let origin = Self::client_id_of(idh);
            iox2_request_header_drop(hh);
            self.loans.push(r);
            Obs::Loaned { bytes: nbytes, elems: ne as u64, hdr_elems, aligned: (p as usize) % self.cfg.align == 0, own_id: Some(origin) == self.id() }
        }
    }
    fn send(&mut self, idx: usize) -> Obs {
        let r = self.loans.remove(idx);
        unsafe {
            let mut p: iox2_pending_response_h = null_mut();
            let rc = iox2_request_mut_send(r, null_mut(), &mut p);
            if rc != IOX2_OK {
                return request_send_err(rc);
            }
            self.pendings.push(p);
            Obs::Done
        }
    }
    fn drop_loan(&mut self, idx: usize) {
        let r = self.loans.remove(idx);
        unsafe { iox2_request_mut_drop(r) }
    }
    fn send_copy(&mut self, n: usize, fill: u8) -> Obs {
        if self.port.is_null() {
            return Obs::Skipped;
        }
        let data = pattern(self.cfg.size * n, fill);
        unsafe {
            let mut p: iox2_pending_response_h = null_mut();
            let rc = iox2_client_send_copy(&self.port, data.as_ptr() as *const c_void, self.cfg.size, n, null_mut(), &mut p);
            if rc != IOX2_OK {
                return request_send_err(rc);
            }
            self.pendings.push(p);
            Obs::Done
        }
    }
    fn pending_receive(&mut self, idx: usize) -> Obs {
        unsafe {
            let pr = self.pendings[idx];
            let mut r: iox2_response_h = null_mut();
            let rc = iox2_pending_response_receive(&pr, null_mut(), &mut r);
            if rc != IOX2_OK {
                return receive_err(rc);
            }
            if r.is_null() {
                return Obs::Nothing;
            }
            let mut p: *const c_void = null();
            let mut ne: usize = 0;
            iox2_response_payload(&r, &mut p, &mut ne);
            let nbytes = iox2_response_payload_number_of_bytes(&r);
            let bytes = core::slice::from_raw_parts(p as *const u8, nbytes).to_vec();
            let mut hh: iox2_response_header_h = null_mut();
            iox2_response_header(&r, null_mut(), &mut hh);
            let hdr_elems = iox2_response_header_number_of_elements(&hh);
            let mut idh: iox2_unique_server_id_h = null_mut();
            iox2_response_header_server_id(&hh, null_mut(), &mut idh);
            let origin = Self::server_id_of(idh);
            iox2_response_header_drop(hh);
            self.responses.push(r);
            Obs::Data { bytes, elems: ne as u64, hdr_elems, aligned: (p as usize) % self.cfg.align == 0, origin }
        }
    }
    fn pending_status(&mut self, idx: usize) -> Vec<i64> {
        unsafe {
            let pr = self.pendings[idx];
            vec![
                iox2_pending_response_is_connected(&pr) as i64,
                iox2_pending_response_has_response(&pr) as i64,
                iox2_pending_response_number_of_server_connections(&pr) as i64,
            ]
        }
    }
    fn drop_pending(&mut self, idx: usize) {
        let p = self.pendings.remove(idx);
        unsafe { iox2_pending_response_drop(p) }
    }
    fn release_response(&mut self, idx: usize) {
        let r = self.responses.remove(idx);
        unsafe { iox2_response_drop(r) }
    }
    fn census(&self) -> Vec<i64> {
        unsafe {
            vec![
                iox2_port_factory_request_response_dynamic_config_number_of_clients(&self.svc) as i64,
                iox2_port_factory_request_response_dynamic_config_number_of_servers(&self.svc) as i64,
                if self.port.is_null() { -1 } else { iox2_client_max_active_requests(&self.port) as i64 },
            ]
        }
    }
    fn close(self: Box<Self>) {}
}

impl Drop for CClient {
    fn drop(&mut self) {
        unsafe {
            self.drop_all();
            if !self.port.is_null() {
                iox2_client_drop(self.port);
                self.port = null_mut();
            }
            iox2_port_factory_request_response_drop(self.svc);
        }
    }
}

pub struct CServer {
    cfg: RrCfg,
    svc: iox2_port_factory_request_response_h,
    port: iox2_server_h,
    actives: Vec<iox2_active_request_h>,
    #[allow(dead_code)]
    node: CNode,
}

impl CServer {
    pub fn new(prefix: &str, name: &str, cfg: &RrCfg) -> Result<Box<dyn ServerPort>, Obs> {
        let node = CNode::new(cfg.svc, prefix)?;
        let svc = unsafe { open_req_res(&node, name, cfg)? };
        Ok(Box::new(CServer { cfg: cfg.clone(), svc, port: null_mut(), actives: vec![], node }))
    }
}

impl ServerPort for CServer {
    fn create(&mut self) -> Obs {
        unsafe {
            let b = iox2_port_factory_request_response_server_builder(&self.svc, null_mut());
            iox2_port_factory_server_builder_set_max_loaned_responses_per_request(&b, self.cfg.max_loaned_responses);
            if self.cfg.slice {
                iox2_port_factory_server_builder_set_initial_max_slice_len(&b, self.cfg.max_slice_len);
                iox2_port_factory_server_builder_set_allocation_strategy(&b, iox2_allocation_strategy_e::STATIC);
            }
            let mut p: iox2_server_h = null_mut();
            let rc = iox2_port_factory_server_builder_create(b, null_mut(), &mut p);
            if rc != IOX2_OK {
                let e: iox2_server_create_error_e = core::mem::transmute(rc);
                return err(rc, cstr(iox2_server_create_error_string(e)));
            }
            self.port = p;
            Obs::Done
        }
    }
    fn destroy(&mut self) {
        unsafe {
            if !self.port.is_null() {
                iox2_server_drop(self.port);
                self.port = null_mut();
            }
            for a in self.actives.drain(..) {
                iox2_active_request_drop(a);
            }
        }
    }
    fn exists(&self) -> bool {
        !self.port.is_null()
    }
    fn id(&self) -> Option<u128> {
        if self.port.is_null() {
            return None;
        }
        unsafe {
            let mut h: iox2_unique_server_id_h = null_mut();
            iox2_server_id(&self.port, null_mut(), &mut h);
            Some(CClient::server_id_of(h))
        }
    }
    fn actives(&self) -> usize {
        self.actives.len()
    }
    fn receive(&mut self) -> Obs {
        if self.port.is_null() {
            return Obs::Skipped;
        }
        unsafe {
            let mut a: iox2_active_request_h = null_mut();
            let rc = iox2_server_receive(&self.port, null_mut(), &mut a);
            if rc != IOX2_OK {
                return receive_err(rc);
            }
            if a.is_null() {
                return Obs::Nothing;
            }
            let mut p: *const c_void = null();
            let mut ne: usize = 0;
            iox2_active_request_payload(&a, &mut p, &mut ne);
            let nbytes = iox2_active_request_payload_number_of_bytes(&a);
            let bytes = core::slice::from_raw_parts(p as *const u8, nbytes).to_vec();
            let mut hh: iox2_request_header_h = null_mut();
            iox2_active_request_header(&a, null_mut(), &mut hh);
            let hdr_elems = iox2_request_header_number_of_elements(&hh);
            let mut idh: iox2_unique_client_id_h = null_mut();
            iox2_request_header_client_id(&hh, null_mut(), &mut idh);
            let origin = CClient::client_id_of(idh);
            iox2_request_header_drop(hh);
            self.actives.push(a);
            Obs::Data { bytes, elems: ne as u64, hdr_elems, aligned: (p as usize) % self.cfg.align == 0, origin }
        }
    }
    fn has_requests(&mut self) -> Obs {
        if self.port.is_null() {
            return Obs::Skipped;
        }
        unsafe {
            let mut b = false;
            let rc = iox2_server_has_requests(&self.port, &mut b);
            if rc != IOX2_OK {
                return connection_err(rc);
            }
            Obs::Flag(b)
        }
    }
    fn respond_copy(&mut self, idx: usize, n: usize, fill: u8) -> Obs {
        let data = pattern(self.cfg.size * n, fill);
        unsafe {
            let a = self.actives[idx];
            let rc = iox2_active_request_send_copy(&a, data.as_ptr() as *const c_void, self.cfg.size, n);
            if rc != IOX2_OK {
                return send_err(rc);
            }
            Obs::Done
        }
    }
    fn respond_loan(&mut self, idx: usize, n: usize, fill: u8) -> (Obs, Obs) {
        unsafe {
            let a = self.actives[idx];
            let mut r: iox2_response_mut_h = null_mut();
            let rc = iox2_active_request_loan_slice_uninit(&a, null_mut(), &mut r, n);
            if rc != IOX2_OK {
                return (loan_err(rc), Obs::Skipped);
            }
            let mut p: *mut c_void = null_mut();
            let mut ne: usize = 0;
            iox2_response_mut_payload_mut(&r, &mut p, &mut ne);
            let nbytes = iox2_response_mut_payload_number_of_bytes(&r);
            fill_bytes(core::slice::from_raw_parts_mut(p as *mut u8, nbytes), fill);
            let mut hh: iox2_response_header_h = null_mut();
            iox2_response_mut_header(&r, null_mut(), &mut hh);
            let hdr_elems = iox2_response_header_number_of_elements(&hh);
            let mut idh: iox2_unique_server_id_h = null_mut();
            iox2_response_header_server_id(&hh, null_mut(), &mut idh);
            let origin = CClient::server_id_of(idh);
            iox2_response_header_drop(hh);
            let loan = Obs::Loaned { bytes: nbytes, elems: ne as u64, hdr_elems, aligned: (p as usize) % self.cfg.align == 0, own_id: Some(origin) == self.id() };
            let rc = iox2_response_mut_send(r);
            if rc != IOX2_OK {
                return (loan, send_err(rc));
            }
            (loan, Obs::Done)
        }
    }
    fn active_status(&mut self, idx: usize) -> Vec<i64> {
        unsafe {
            let a = self.actives[idx];
            vec![iox2_active_request_is_connected(&a) as i64, iox2_active_request_has_disconnect_hint(&a) as i64]
        }
    }
    fn drop_active(&mut self, idx: usize) {
        let a = self.actives.remove(idx);
        unsafe { iox2_active_request_drop(a) }
    }
    fn census(&self) -> Vec<i64> {
        unsafe {
            vec![
                iox2_port_factory_request_response_dynamic_config_number_of_clients(&self.svc) as i64,
                iox2_port_factory_request_response_dynamic_config_number_of_servers(&self.svc) as i64,
            ]
        }
    }
    fn close(self: Box<Self>) {}
}

impl Drop for CServer {
    fn drop(&mut self) {
        unsafe {
            for a in self.actives.drain(..) {
                iox2_active_request_drop(a);
            }
            if !self.port.is_null() {
                iox2_server_drop(self.port);
                self.port = null_mut();
            }
            iox2_port_factory_request_response_drop(self.svc);
        }
    }
}
