//! Garbage collection of the harness's own runtime resources.
//!
//! Everything this harness creates carries the prefix `hffi_<pid>_`. An execution that ends with
//! a violation (or a crashed worker) abandons its object graph, and the per-prefix global
//! management segment of the node layer is persistent by design; stale nodes in the shared
//! directories slow down every node creation on the machine. So: a worker removes what is left
//! of its own prefix before it builds the next object graph, and the parent removes the
//! resources of dead processes when it starts and when it exits.

use std::path::Path;

const DIRS: [&str; 3] = ["/dev/shm", "/tmp/iceoryx2/services", "/tmp/iceoryx2/nodes"];

fn pid_of(name: &str) -> Option<u32> {
    name.strip_prefix("hffi_")?.split('_').next()?.parse().ok()
}

fn alive(pid: u32) -> bool {
    unsafe { libc::kill(pid as i32, 0) == 0 || *libc::__errno_location() != libc::ESRCH }
}

fn mine(name: &str, own: Option<u32>, me: u32) -> bool {
    match pid_of(name) {
        None => false,
        Some(p) => match own {
            Some(o) => p == o,
            None => p != me && !alive(p),
        },
    }
}

/// `own == Some(pid)`: remove everything with this pid's prefix (the caller knows it is garbage);
/// `own == None`: remove everything whose creating process no longer exists.
pub fn collect(own: Option<u32>) {
    let me = std::process::id();
    for dir in DIRS {
        let Ok(rd) = std::fs::read_dir(dir) else { continue };
        for e in rd.flatten() {
            let n = e.file_name().to_string_lossy().into_owned();
            let p = e.path();
            if n.starts_with("hffi_") {
                if mine(&n, own, me) {
                    let _ = std::fs::remove_file(&p);
                }
            } else if dir.ends_with("nodes") && e.file_type().map(|t| t.is_dir()).unwrap_or(false) {
                collect_node_dir(&p, own, me);
            }
        }
    }
}

fn collect_node_dir(dir: &Path, own: Option<u32>, me: u32) {
    let Ok(rd) = std::fs::read_dir(dir) else { return };
    let mut removed = false;
    for e in rd.flatten() {
        let n = e.file_name().to_string_lossy().into_owned();
        if n.starts_with("hffi_") && mine(&n, own, me) {
            let _ = std::fs::remove_file(e.path());
            removed = true;
        }
    }
    if removed {
        let _ = std::fs::remove_dir(dir);
    }
}

extern "C" fn at_exit() {
    collect(None);
    collect(Some(std::process::id()));
}

/// Parent / replay processes: collect the dead now and again (plus the own prefix) at exit.
pub fn install() {
    collect(None);
    unsafe {
        libc::atexit(at_exit);
    }
}
