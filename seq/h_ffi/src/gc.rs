//! Garbage collection of the harness's own runtime resources.
//!
//! Everything this harness creates is named `hffi_<pid>_…`: shared memory objects in /dev/shm and
//! the per-process root directory /dev/shm/hffi_<pid>_root/ (nodes, services). An execution that
//! ends with a violation (or a crashed worker) abandons its object graph, and the per-prefix
//! global management segment of the node layer is persistent by design. So: a worker removes
//! what is left of its own names before it builds the next object graph, and the parent removes
//! the resources of dead harness processes when it starts and when it exits.

fn pid_of(name: &str) -> Option<u32> {
    name.strip_prefix("hffi_")?.split('_').next()?.parse().ok()
}

fn alive(pid: u32) -> bool {
    unsafe { libc::kill(pid as i32, 0) == 0 || *libc::__errno_location() != libc::ESRCH }
}

/// `own == Some(pid)`: remove everything named after this pid (the caller knows it is garbage);
/// `own == None`: remove everything whose creating process no longer exists.
pub fn collect(own: Option<u32>) {
    let me = std::process::id();
    let Ok(rd) = std::fs::read_dir("/dev/shm") else { return };
    for e in rd.flatten() {
        let n = e.file_name().to_string_lossy().into_owned();
        let Some(p) = pid_of(&n) else { continue };
        let garbage = match own {
            Some(o) => p == o,
            None => p != me && !alive(p),
        };
        if garbage {
            if e.file_type().map(|t| t.is_dir()).unwrap_or(false) {
                let _ = std::fs::remove_dir_all(e.path());
            } else {
                let _ = std::fs::remove_file(e.path());
            }
        }
    }
}

extern "C" fn at_exit() {
    collect(None);
    collect(Some(std::process::id()));
}

/// Parent / replay processes: collect the dead now and again (plus the own names) at exit.
pub fn install() {
    collect(None);
    unsafe {
        libc::atexit(at_exit);
    }
}
