//! Part (b) of C18: the mapping Rust error enum -> C error code -> printable name.
//!
//! For one `impl IntoCInt for X` of the C binding (reached through the feature-guarded
//! `verif_hooks` wrappers) ALL values of the Rust enum (all variants, all values of nested enums)
//! are converted and checked. Every single conversion runs in a sacrificial child process because
//! a conversion that does not terminate (unbounded recursion) must become a finding and not a
//! dead worker.

use crate::errmap::{self, EnumSpec, Kind};
use core::ffi::c_int;
use seqx::Fail;
use serde::{Deserialize, Serialize};
use std::collections::BTreeMap;

#[derive(Clone, Copy, Debug, Serialize, Deserialize, PartialEq, Eq, Hash)]
pub enum Aspect {
    /// every value converts (terminates), the code is a discriminant of the C enum and – for error
    /// enums – never IOX2_OK
    Total,
    /// different variants never share a code; the values of a nested enum are either all kept
    /// apart or all folded into the one code of their variant
    Injective,
    /// every produced code has a printable, NUL-terminated, non-empty name that no other code of
    /// the same C enum carries, reachable through an exported `iox2_*_string` function
    Names,
}

pub const ASPECTS: [Aspect; 3] = [Aspect::Total, Aspect::Injective, Aspect::Names];

#[derive(Clone, Debug)]
pub enum ConvResult {
    Code(c_int),
    /// the child process that performed the conversion was killed by this signal
    Died(i32),
}

/// Runs the conversions `from..` in a forked child which streams (index, code) pairs through a
/// pipe; returns the results it delivered and, if it died, the signal.
fn run_in_child(spec: &EnumSpec, from: usize) -> (Vec<c_int>, Option<i32>) {
    unsafe {
        let mut fds = [0i32; 2];
        if libc::pipe(fds.as_mut_ptr()) != 0 {
            seqx::machinery_error("pipe failed");
        }
        let pid = libc::fork();
        if pid < 0 {
            seqx::machinery_error("fork failed");
        }
        if pid == 0 {
            // child: default dispositions, small stack, watchdog
            libc::close(fds[0]);
            for s in [libc::SIGSEGV, libc::SIGBUS, libc::SIGABRT, libc::SIGILL, libc::SIGFPE, libc::SIGALRM] {
                libc::signal(s, libc::SIG_DFL);
            }
            let lim = libc::rlimit { rlim_cur: 1 << 20, rlim_max: 1 << 20 };
            libc::setrlimit(libc::RLIMIT_STACK, &lim);
            let nocore = libc::rlimit { rlim_cur: 0, rlim_max: 0 };
            libc::setrlimit(libc::RLIMIT_CORE, &nocore);
            libc::alarm(2);
            for c in spec.convs.iter().skip(from) {
                let code: c_int = (c.run)();
                let b = code.to_le_bytes();
                libc::write(fds[1], b.as_ptr() as *const libc::c_void, b.len());
            }
            libc::_exit(0);
        }
        libc::close(fds[1]);
        let mut out = Vec::new();
        let mut buf = [0u8; 4];
        loop {
            let mut got = 0usize;
            while got < 4 {
                let n = libc::read(fds[0], buf.as_mut_ptr().add(got) as *mut libc::c_void, 4 - got);
                if n <= 0 {
                    break;
                }
                got += n as usize;
            }
            if got < 4 {
                break;
            }
            out.push(c_int::from_le_bytes(buf));
        }
        libc::close(fds[0]);
        let mut status = 0i32;
        libc::waitpid(pid, &mut status, 0);
        let died = if libc::WIFSIGNALED(status) { Some(libc::WTERMSIG(status)) } else { None };
        (out, died)
    }
}

pub fn convert_all(spec: &EnumSpec) -> Vec<ConvResult> {
    let mut res: Vec<ConvResult> = Vec::new();
    while res.len() < spec.convs.len() {
        let (codes, died) = run_in_child(spec, res.len());
        res.extend(codes.into_iter().map(ConvResult::Code));
        if res.len() < spec.convs.len() {
            match died {
                Some(sig) => res.push(ConvResult::Died(sig)),
                None => seqx::machinery_error("conversion child ended early without a signal"),
            }
        }
    }
    res
}

fn signal_name(sig: i32) -> &'static str {
    match sig {
        libc::SIGSEGV => "SIGSEGV (stack exhausted by unbounded recursion)",
        libc::SIGALRM => "SIGALRM (did not return within 2 s)",
        libc::SIGABRT => "SIGABRT",
        libc::SIGBUS => "SIGBUS",
        _ => "a signal",
    }
}

/// Reads at most 256 bytes; None if no NUL was found in them.
unsafe fn bounded_cstr(p: *const core::ffi::c_char) -> Option<Vec<u8>> {
    let mut v = Vec::new();
    for i in 0..256 {
        let b = *p.add(i) as u8;
        if b == 0 {
            return Some(v);
        }
        v.push(b);
    }
    None
}

pub struct Outcome {
    pub variants: usize,
    pub values: usize,
    pub codes: usize,
}

pub fn check(name: &str, aspect: Aspect) -> Result<Outcome, Fail> {
    let spec = errmap::spec(name).ok_or_else(|| Fail::new("errmap-unknown-enum", name.to_string(), "no such enum in errmap.rs"))?;
    let results = convert_all(&spec);
    let mut tops: Vec<&'static str> = spec.convs.iter().map(|c| c.path[0]).collect();
    tops.dedup();
    let outcome = Outcome { variants: tops.len(), values: spec.convs.len(), codes: spec.c_codes.len() };
    let e = spec.rust;
    match aspect {
        Aspect::Total => {
            let mut problems: Vec<(String, &'static str, String)> = Vec::new();
            for (c, r) in spec.convs.iter().zip(results.iter()) {
                match r {
                    ConvResult::Died(sig) => problems.push((
                        format!("{}::{}", e, c.path[0]),
                        "errmap-not-total",
                        format!("into_c_int({}) does not return: the converting process was killed by {}", c.label, signal_name(*sig)),
                    )),
                    ConvResult::Code(code) => {
                        if spec.kind == Kind::Error && *code == 0 {
                            problems.push((
                                format!("{}::{}", e, c.path[0]),
                                "errmap-error-is-ok",
                                format!("into_c_int({}) == 0 == IOX2_OK: a C caller cannot tell this failure from success ({})", c.label, spec.c_enum),
                            ));
                        }
                        if !spec.c_codes.iter().any(|cc| cc.code == *code) {
                            problems.push((
                                format!("{}::{}", e, c.path[0]),
                                "errmap-code-not-in-c-enum",
                                format!("into_c_int({}) == {} is not a discriminant of {}", c.label, code, spec.c_enum),
                            ));
                        }
                    }
                }
            }
            if let Some((site, tag, _)) = problems.first().cloned() {
                let all: Vec<String> = problems.iter().filter(|p| p.1 == tag).map(|p| p.2.clone()).collect();
                let more = if all.len() > 2 { format!(" (and {} more values of this enum)", all.len() - 2) } else { String::new() };
                return Err(Fail::new(tag, site, format!("{}{}", all[..all.len().min(2)].join("; "), more)));
            }
        }
        Aspect::Injective => {
            // The values of the enum form a tree (variant, nested variant, ...). A faithful mapping
            // cuts this tree: all values below one cut node share a code, different cut nodes have
            // different codes. So for every code the values mapping to it must be exactly one full
            // subtree, and that subtree must lie below a single top-level variant.
            let mut by_code: BTreeMap<c_int, Vec<usize>> = BTreeMap::new();
            for (i, r) in results.iter().enumerate() {
                if let ConvResult::Code(code) = r {
                    by_code.entry(*code).or_default().push(i);
                }
            }
            let ident = |code: c_int| spec.c_codes.iter().find(|cc| cc.code == code).map(|cc| cc.ident).unwrap_or("?");
            for (code, users) in &by_code {
                let mut lcp: Vec<&'static str> = spec.convs[users[0]].path.clone();
                for &u in users {
                    let p = &spec.convs[u].path;
                    let n = lcp.iter().zip(p.iter()).take_while(|(a, b)| a == b).count();
                    lcp.truncate(n);
                }
                if lcp.is_empty() {
                    let mut t: Vec<&'static str> = users.iter().map(|&u| spec.convs[u].path[0]).collect();
                    t.sort();
                    t.dedup();
                    let labels: Vec<&str> = users.iter().map(|&u| spec.convs[u].label.as_str()).collect();
                    return Err(Fail::new(
                        "errmap-not-injective",
                        format!("{}::{{{}}}", e, t.join(",")),
                        format!("{} different variants of {} map to the same C code {} ({}::{}): {}", t.len(), e, code, spec.c_enum, ident(*code), labels.join(", ")),
                    ));
                }
                let strays: Vec<&str> = spec
                    .convs
                    .iter()
                    .zip(results.iter())
                    .filter(|(c, r)| c.path.starts_with(&lcp) && !matches!(r, ConvResult::Code(x) if x == code) && matches!(r, ConvResult::Code(_)))
                    .map(|(c, _)| c.label.as_str())
                    .collect();
                if users.len() > 1 && !strays.is_empty() {
                    return Err(Fail::new(
                        "errmap-not-injective",
                        format!("{}::{}", e, lcp.join("::")),
                        format!(
                            "{} values below {}::{} share the C code {} ({}) while their siblings {} have codes of their own: distinct nested variants collide",
                            users.len(), e, lcp.join("::"), code, ident(*code), strays.join(", ")
                        ),
                    ));
                }
            }
        }
        Aspect::Names => {
            if spec.kind == Kind::Value && spec.string_fn.is_none() {
                return Ok(outcome);
            }
            if spec.string_fn.is_none() {
                // Not demanded: C18 asks for distinct printable names of the codes, not for an
                // exported string function per enum. Four enums (service_remove_error,
                // node_cleanup_failure, service_name_error, allocation_grow_error) keep their names
                // internally only; that is an observation (DESIGN.md §9), not a violation.
                return Ok(outcome);
            }
            let mut names: Vec<(c_int, &'static str, Vec<u8>)> = Vec::new();
            for cc in &spec.c_codes {
                let p = cc.exported_name.unwrap();
                if p.is_null() {
                    return Err(Fail::new("errmap-name-null", format!("{}::{}", spec.c_enum, cc.ident), format!("{}({}) returned NULL", spec.string_fn.unwrap(), cc.ident)));
                }
                match unsafe { bounded_cstr(p) } {
                    None => return Err(Fail::new("errmap-name-not-terminated", format!("{}::{}", spec.c_enum, cc.ident), "no NUL within 256 bytes".to_string())),
                    Some(v) => names.push((cc.code, cc.ident, v)),
                }
            }
            let produced: Vec<c_int> = {
                let mut p: Vec<c_int> = results.iter().filter_map(|r| if let ConvResult::Code(c) = r { Some(*c) } else { None }).collect();
                p.sort();
                p.dedup();
                p
            };
            for code in &produced {
                let Some((_, ident, nm)) = names.iter().find(|n| n.0 == *code) else { continue };
                let printable = !nm.is_empty() && nm.iter().all(|b| (0x20..0x7f).contains(b));
                if !printable {
                    return Err(Fail::new(
                        "errmap-name-not-printable",
                        format!("{}::{}", spec.c_enum, ident),
                        format!("{}({}) = {:?} is empty or not printable ASCII", spec.string_fn.unwrap(), ident, String::from_utf8_lossy(nm)),
                    ));
                }
            }
            // distinctness: report all groups of codes sharing a name that contain a produced code
            let mut groups: BTreeMap<Vec<u8>, Vec<&'static str>> = BTreeMap::new();
            for (code, ident, nm) in &names {
                let _ = code;
                groups.entry(nm.clone()).or_default().push(ident);
            }
            let clashes: Vec<String> = groups
                .iter()
                .filter(|(nm, ids)| ids.len() > 1 && names.iter().any(|n| &n.2 == *nm && produced.contains(&n.0)))
                .map(|(nm, ids)| format!("\"{}\" <- {}", String::from_utf8_lossy(nm), ids.join("/")))
                .collect();
            if !clashes.is_empty() {
                return Err(Fail::new(
                    "errmap-name-not-distinct",
                    spec.c_enum.to_string(),
                    format!("{} returns the same name for different codes that {} produces: {}", spec.string_fn.unwrap(), e, clashes.join("; ")),
                ));
            }
        }
    }
    Ok(outcome)
}
