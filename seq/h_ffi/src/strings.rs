//! Names and paths: every C entry point that takes a string and validates it as a semantic
//! string (config prefix, config root path, service name, node name) against the Rust
//! constructor of the same type. The expectation is whatever the Rust constructor says; for a
//! failure the C code must be the one IntoCInt assigns to the Rust error, and a rejected value
//! must leave the object unchanged on both sides.

use crate::ports::Obs;
use core::ffi::{c_char, c_int};
use iceoryx2::prelude::*;
use iceoryx2_ffi_c::verif_hooks as hooks;
use iceoryx2_ffi_c::*;
use serde::{Deserialize, Serialize};
use std::ffi::{CStr, CString};
use std::ptr::null_mut;

#[derive(Clone, Copy, Debug, Serialize, Deserialize, PartialEq, Eq, Hash)]
pub enum StrApi {
    ConfigPrefix,
    ConfigRootPath,
    ServiceName,
    NodeName,
}

#[derive(Clone, Copy, Debug, Serialize, Deserialize, PartialEq, Eq, Hash)]
pub enum StrKind {
    Plain,
    Other,
    WithSlash,
    Empty,
    TooLong,
}

pub const APIS: [StrApi; 4] = [StrApi::ConfigPrefix, StrApi::ConfigRootPath, StrApi::ServiceName, StrApi::NodeName];
pub const KINDS: [StrKind; 5] = [StrKind::Plain, StrKind::Other, StrKind::WithSlash, StrKind::Empty, StrKind::TooLong];

fn text(k: StrKind) -> String {
    match k {
        StrKind::Plain => "hffi_plain".into(),
        StrKind::Other => "hffi_other.2".into(),
        StrKind::WithSlash => "hffi/with/slash".into(),
        StrKind::Empty => String::new(),
        StrKind::TooLong => "x".repeat(5000),
    }
}

pub struct Strings {
    c_cfg: iox2_config_h,
    r_cfg: Config,
}

fn sem(e: SemanticStringError) -> Obs {
    Obs::Err { what: format!("{e:?}"), code: hooks::semantic_string_error_into_c_int(e) }
}

fn c_res(rc: c_int) -> Obs {
    if rc == IOX2_OK {
        Obs::Done
    } else {
        let name = if (1..=2).contains(&rc) {
            let e: iox2_semantic_string_error_e = unsafe { core::mem::transmute(rc) };
            unsafe { CStr::from_ptr(iox2_semantic_string_error_string(e)) }.to_string_lossy().into_owned()
        } else {
            "?".into()
        };
        Obs::Err { code: rc, what: format!("C code {rc} \"{name}\"") }
    }
}

impl Strings {
    pub fn new() -> Strings {
        let mut c_cfg: iox2_config_h = null_mut();
        let rc = unsafe { iox2_config_default(null_mut(), &mut c_cfg) };
        assert_eq!(rc, IOX2_OK);
        Strings { c_cfg, r_cfg: Config::default() }
    }

    /// returns (Rust: result, value afterwards), (C: result, value afterwards)
    pub fn apply(&mut self, api: StrApi, kind: StrKind) -> ((Obs, String), (Obs, String)) {
        let t = text(kind);
        let ct = CString::new(t.clone()).unwrap();
        unsafe {
            match api {
                StrApi::ConfigPrefix => {
                    let r = match FileName::new(t.as_bytes()) {
                        Ok(v) => {
                            self.r_cfg.global.prefix = v;
                            Obs::Done
                        }
                        Err(e) => sem(e),
                    };
                    let c = c_res(iox2_config_global_set_prefix(&self.c_cfg, ct.as_ptr()));
                    let cv = CStr::from_ptr(iox2_config_global_prefix(&self.c_cfg)).to_string_lossy().into_owned();
                    ((r, self.r_cfg.global.prefix.to_string()), (c, cv))
                }
                StrApi::ConfigRootPath => {
                    let r = match Path::new(t.as_bytes()) {
                        Ok(v) => {
                            self.r_cfg.global.set_root_path(&v);
                            Obs::Done
                        }
                        Err(e) => sem(e),
                    };
                    let c = c_res(iox2_config_global_set_root_path(&self.c_cfg, ct.as_ptr()));
                    let cv = CStr::from_ptr(iox2_config_global_root_path(&self.c_cfg)).to_string_lossy().into_owned();
                    ((r, self.r_cfg.global.root_path().to_string()), (c, cv))
                }
                StrApi::ServiceName => {
                    let (r, rv) = match ServiceName::new(&t) {
                        Ok(v) => (Obs::Done, v.as_str().to_string()),
                        Err(e) => (Obs::Err { what: format!("{e:?}"), code: hooks::service_name_error_into_c_int(e) }, String::new()),
                    };
                    let mut h: iox2_service_name_h = null_mut();
                    let rc = iox2_service_name_new(null_mut(), t.as_ptr() as *const c_char, t.len(), &mut h);
                    let mut cv = String::new();
                    if rc == IOX2_OK && !h.is_null() {
                        let mut len = 0usize;
                        let p = iox2_service_name_as_chars(iox2_cast_service_name_ptr(h), &mut len);
                        cv = String::from_utf8_lossy(core::slice::from_raw_parts(p as *const u8, len)).into_owned();
                        iox2_service_name_drop(h);
                    }
                    ((r, rv), (c_res(rc), cv))
                }
                StrApi::NodeName => {
                    let (r, rv) = match NodeName::new(&t) {
                        Ok(v) => (Obs::Done, v.as_str().to_string()),
                        Err(e) => (sem(e), String::new()),
                    };
                    let mut h: iox2_node_name_h = null_mut();
                    let rc = iox2_node_name_new(null_mut(), t.as_ptr() as *const c_char, t.len(), &mut h);
                    let mut cv = String::new();
                    if rc == IOX2_OK && !h.is_null() {
                        let mut len = 0usize;
                        let p = iox2_node_name_as_chars(iox2_cast_node_name_ptr(h), &mut len);
                        cv = String::from_utf8_lossy(core::slice::from_raw_parts(p as *const u8, len)).into_owned();
                        iox2_node_name_drop(h);
                    }
                    ((r, rv), (c_res(rc), cv))
                }
            }
        }
    }
}

impl Drop for Strings {
    fn drop(&mut self) {
        unsafe { iox2_config_drop(self.c_cfg) }
    }
}
