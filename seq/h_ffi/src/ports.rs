//! Observations and the port interfaces that the C driver (cside.rs) and the Rust driver
//! (rside.rs) both implement. A *world* is one service with a sending participant and a receiving
//! participant; each participant has its own node and its own service handle, exactly like two
//! independent programs would, and each is driven through either the C API or the Rust API.

use core::ffi::c_int;

/// What one call let the caller observe. Only things a program can legitimately depend on.
#[derive(Clone, Debug, PartialEq, Eq)]
pub enum Obs {
    /// success, nothing else to see
    Done,
    /// success with a count (recipients, notified listeners, …)
    Count(u64),
    Flag(bool),
    /// a loan: payload bytes handed out, number of elements (accessor and header), whether the
    /// pointer honours the alignment of the payload type, whether the header names the loaning port
    Loaned { bytes: usize, elems: u64, hdr_elems: u64, aligned: bool, own_id: bool },
    /// receive found nothing
    Nothing,
    /// received data: payload bytes, number of elements (accessor and header), alignment of the
    /// pointer, and the id of the sending port (raw; the world turns it into an equality class)
    Data { bytes: Vec<u8>, elems: u64, hdr_elems: u64, aligned: bool, origin: u128 },
    /// events: (id, count) in delivery order, and the reported total
    Events { list: Vec<(usize, u64)>, total: u64 },
    /// failure: the C code, and for the Rust API the code that the binding's IntoCInt mapping
    /// assigns to the Rust error (what a correct binding would have returned)
    Err { code: c_int, what: String },
    /// the operation does not apply (port absent) – must agree, too
    Skipped,
}

impl Obs {
    pub fn class(&self) -> String {
        match self {
            Obs::Done => "Ok".into(),
            Obs::Count(_) => "Ok(count)".into(),
            Obs::Flag(_) => "Ok(flag)".into(),
            Obs::Loaned { .. } => "Ok(loan)".into(),
            Obs::Nothing => "Ok(None)".into(),
            Obs::Data { .. } => "Ok(data)".into(),
            Obs::Events { .. } => "Ok(events)".into(),
            Obs::Err { what, .. } => format!("Err({what})"),
            Obs::Skipped => "Skipped".into(),
        }
    }
    /// rendering for messages: without the raw port id, which differs from run to run
    pub fn show(&self) -> String {
        match self {
            Obs::Data { bytes, elems, hdr_elems, aligned, .. } => format!("Data {{ bytes: {bytes:?}, elems: {elems}, hdr_elems: {hdr_elems}, aligned: {aligned} }}"),
            other => format!("{other:?}"),
        }
    }
    pub fn is_err(&self) -> bool {
        matches!(self, Obs::Err { .. })
    }
    pub fn is_ok_loan(&self) -> bool {
        matches!(self, Obs::Loaned { .. })
    }
    pub fn is_data(&self) -> bool {
        matches!(self, Obs::Data { .. })
    }
}

/// Two observations agree if they are equal up to the free-text part of an error and the raw id.
pub fn agree(a: &Obs, b: &Obs) -> bool {
    match (a, b) {
        (Obs::Err { code: x, .. }, Obs::Err { code: y, .. }) => x == y,
        (
            Obs::Data { bytes: b1, elems: e1, hdr_elems: h1, aligned: a1, .. },
            Obs::Data { bytes: b2, elems: e2, hdr_elems: h2, aligned: a2, .. },
        ) => b1 == b2 && e1 == e2 && h1 == h2 && a1 == a2,
        _ => a == b,
    }
}

/// `defaults.*.expired_connection_buffer` of both worlds' configs
pub const EXPIRED_CONNECTIONS: usize = 4;

#[derive(Clone, Copy, Debug, PartialEq, Eq, Hash, serde::Serialize, serde::Deserialize)]
pub enum SvcType {
    Ipc,
    Local,
}

#[derive(Clone, Debug)]
pub struct PsCfg {
    pub svc: SvcType,
    pub size: usize,
    pub align: usize,
    pub slice: bool,
    /// the Rust side has no type with this size/alignment and uses the custom payload API
    pub rust_custom: bool,
    pub type_name: String,
    pub buffer: usize,
    pub max_borrow: usize,
    pub max_loans: usize,
    pub max_slice_len: usize,
    pub history: usize,
    pub safe_overflow: bool,
    /// backpressure handler of the publisher: 0 none, 1 DISCARD_DATA, 2 DISCARD_DATA_AND_FAIL,
    /// 3 RETRY on the first invocation of a delivery (retries == 0) and DISCARD_DATA_AND_FAIL afterwards,
    /// 4 FOLLOW the strategy
    pub handler: u8,
}

pub trait PubPort {
    fn create(&mut self) -> Obs;
    /// drops the port handle first and the loans it still has afterwards
    fn destroy(&mut self);
    fn exists(&self) -> bool;
    fn id(&self) -> Option<u128>;
    fn loans(&self) -> usize;
    fn loan(&mut self, n: usize, fill: u8) -> Obs;
    fn send(&mut self, idx: usize) -> Obs;
    fn drop_loan(&mut self, idx: usize);
    fn send_copy(&mut self, n: usize, fill: u8) -> Obs;
    fn update_connections(&mut self) -> Obs;
    /// number of further loans obtainable right now (all of them given back)
    fn probe_loans(&mut self, n: usize) -> u64;
    /// [publishers, subscribers] as the service's dynamic config shows them
    fn census(&self) -> Vec<i64>;
    fn close(self: Box<Self>);
}

pub trait SubPort {
    fn create(&mut self) -> Obs;
    fn destroy(&mut self);
    fn exists(&self) -> bool;
    fn held(&self) -> usize;
    fn receive(&mut self) -> Obs;
    fn release(&mut self, idx: usize);
    fn has_samples(&mut self) -> Obs;
    fn update_connections(&mut self) -> Obs;
    fn census(&self) -> Vec<i64>;
    fn close(self: Box<Self>);
}

#[derive(Clone, Debug)]
pub struct EvCfg {
    pub svc: SvcType,
    pub max_id: usize,
    pub default_id: usize,
    /// notifier_created / notifier_dropped event ids (None = disabled)
    pub created: Option<usize>,
    pub dropped: Option<usize>,
}

pub trait NotifierPort {
    fn create(&mut self) -> Obs;
    fn destroy(&mut self);
    fn exists(&self) -> bool;
    fn notify(&mut self, id: Option<usize>) -> Obs;
    fn census(&self) -> Vec<i64>;
    fn close(self: Box<Self>);
}

pub trait ListenerPort {
    fn create(&mut self) -> Obs;
    fn destroy(&mut self);
    fn exists(&self) -> bool;
    fn try_wait(&mut self) -> Obs;
    fn census(&self) -> Vec<i64>;
    fn close(self: Box<Self>);
}

#[derive(Clone, Debug)]
pub struct RrCfg {
    pub svc: SvcType,
    pub size: usize,
    pub align: usize,
    pub slice: bool,
    pub type_name: String,
    pub max_active: usize,
    pub max_loaned_requests: usize,
    pub response_buffer: usize,
    pub max_borrowed_responses: usize,
    pub max_loaned_responses: usize,
    pub max_slice_len: usize,
    pub fire_and_forget: bool,
}

pub trait ClientPort {
    fn create(&mut self) -> Obs;
    /// drops the client handle, then its loans, then its pending responses (and their responses)
    fn destroy(&mut self);
    fn exists(&self) -> bool;
    fn id(&self) -> Option<u128>;
    fn loans(&self) -> usize;
    fn pendings(&self) -> usize;
    fn responses(&self) -> usize;
    fn loan(&mut self, n: usize, fill: u8) -> Obs;
    fn send(&mut self, idx: usize) -> Obs;
    fn drop_loan(&mut self, idx: usize);
    fn send_copy(&mut self, n: usize, fill: u8) -> Obs;
    fn pending_receive(&mut self, idx: usize) -> Obs;
    /// [is_connected, has_response, number_of_server_connections]
    fn pending_status(&mut self, idx: usize) -> Vec<i64>;
    fn drop_pending(&mut self, idx: usize);
    fn release_response(&mut self, idx: usize);
    fn census(&self) -> Vec<i64>;
    fn close(self: Box<Self>);
}

pub trait ServerPort {
    fn create(&mut self) -> Obs;
    fn destroy(&mut self);
    fn exists(&self) -> bool;
    fn id(&self) -> Option<u128>;
    fn actives(&self) -> usize;
    fn receive(&mut self) -> Obs;
    fn has_requests(&mut self) -> Obs;
    fn respond_copy(&mut self, idx: usize, n: usize, fill: u8) -> Obs;
    /// loan + write + send in one step; the loan observation is folded into the result
    fn respond_loan(&mut self, idx: usize, n: usize, fill: u8) -> (Obs, Obs);
    /// [is_connected, has_disconnect_hint]
    fn active_status(&mut self, idx: usize) -> Vec<i64>;
    fn drop_active(&mut self, idx: usize);
    fn census(&self) -> Vec<i64>;
    fn close(self: Box<Self>);
}

pub fn fill_bytes(buf: &mut [u8], fill: u8) {
    for (i, b) in buf.iter_mut().enumerate() {
        *b = fill.wrapping_mul(31).wrapping_add(i as u8).wrapping_add(1);
    }
}

pub fn pattern(len: usize, fill: u8) -> Vec<u8> {
    let mut v = vec![0u8; len];
    fill_bytes(&mut v, fill);
    v
}
