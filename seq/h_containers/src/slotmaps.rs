//! SlotMap flavours: FixedSizeSlotMap<Elem, N>, SlotMap<Elem> (heap), RelocatableSlotMap<Elem>.
//! Reference model: Vec<Option<(element id, value)>> indexed by key. Which free key `insert` uses is
//! documented only through `next_free_key()` ("the key that will be used when the user calls
//! insert()"), so the model follows the key the real map announces and demands that it is free.

use std::mem::ManuallyDrop;

use iceoryx2_bb_container::slotmap::{FixedSizeSlotMap, RelocatableSlotMap, SlotMap, SlotMapKey};
use seqx::Fail;
use serde::{Deserialize, Serialize};

use crate::common::*;
use crate::elem::Elem;
use crate::expect_eq;
use crate::mem::Reloc;

#[derive(Clone, Debug, Serialize, Deserialize)]
pub enum SlotOp {
    Insert(u8),
    InsertAt(usize, u8),
    Remove(usize),
    /// get(key) with key >= capacity (keys < capacity are probed after every operation)
    GetOutOfBounds(usize),
    ContainsOutOfBounds(usize),
}

type Id = (u32, u8);

pub trait SlotOps {
    fn insert(&mut self, e: Elem) -> Option<usize>;
    fn insert_at(&mut self, k: usize, e: Elem) -> bool;
    fn remove(&mut self, k: usize) -> Option<Elem>;
    fn get(&self, k: usize) -> Option<Id>;
    fn get_mut(&mut self, k: usize) -> Option<Id>;
    fn contains(&self, k: usize) -> bool;
    fn next_free_key(&self) -> Option<usize>;
    fn iter_all(&self) -> Vec<(usize, Id)>;
    fn len(&self) -> usize;
    fn is_empty(&self) -> bool;
    fn is_full(&self) -> bool;
    fn capacity(&self) -> usize;
}

macro_rules! impl_slot_ops {
    ($t:ty, $s:ident, $r:expr, $m:expr) => {
        #[allow(unused_unsafe)]
        impl SlotOps for $t {
            fn insert(&mut self, e: Elem) -> Option<usize> {
                let $s = self;
                unsafe { $m.insert(e) }.map(|k| k.value())
            }
            fn insert_at(&mut self, k: usize, e: Elem) -> bool {
                let $s = self;
                unsafe { $m.insert_at(SlotMapKey::new(k), e) }
            }
            fn remove(&mut self, k: usize) -> Option<Elem> {
                let $s = self;
                unsafe { $m.remove(SlotMapKey::new(k)) }
            }
            fn get(&self, k: usize) -> Option<Id> {
                let $s = self;
                unsafe { $r.get(SlotMapKey::new(k)) }.map(|e| e.ident())
            }
            fn get_mut(&mut self, k: usize) -> Option<Id> {
                let $s = self;
                unsafe { $m.get_mut(SlotMapKey::new(k)) }.map(|e| e.ident())
            }
            fn contains(&self, k: usize) -> bool {
                let $s = self;
                unsafe { $r.contains(SlotMapKey::new(k)) }
            }
            fn next_free_key(&self) -> Option<usize> {
                let $s = self;
                unsafe { $r.next_free_key() }.map(|k| k.value())
            }
            fn iter_all(&self) -> Vec<(usize, Id)> {
                let $s = self;
                unsafe { $r.iter() }.map(|(k, e)| (k.value(), e.ident())).collect()
            }
            fn len(&self) -> usize {
                let $s = self;
                $r.len()
            }
            fn is_empty(&self) -> bool {
                let $s = self;
                $r.is_empty()
            }
            fn is_full(&self) -> bool {
                let $s = self;
                $r.is_full()
            }
            fn capacity(&self) -> usize {
                let $s = self;
                $r.capacity()
            }
        }
    };
}

impl_slot_ops!(FixedSizeSlotMap<Elem, 0>, s, s, s);
impl_slot_ops!(FixedSizeSlotMap<Elem, 1>, s, s, s);
impl_slot_ops!(FixedSizeSlotMap<Elem, 2>, s, s, s);
impl_slot_ops!(FixedSizeSlotMap<Elem, 3>, s, s, s);
impl_slot_ops!(FixedSizeSlotMap<Elem, 4>, s, s, s);
impl_slot_ops!(SlotMap<Elem>, s, s, s);
impl_slot_ops!(Reloc<RelocatableSlotMap<Elem>>, s, s.get(), s.get_mut());

pub fn min_cap(f: Flavour) -> usize {
    match f {
        Flavour::Inline | Flavour::Heap => 0,
        // RelocatableSlotMap::init fails with AllocationError::SizeIsZero for capacity 0
        Flavour::Reloc => 1,
    }
}

fn construct(f: Flavour, cap: usize) -> Result<Box<dyn SlotOps>, Fail> {
    let site = Site("slotmap.new", flavour_name(f), cap_class(cap));
    real(&site, || -> Result<Box<dyn SlotOps>, Fail> {
        Ok(match f {
            Flavour::Inline => match cap {
                0 => Box::new(FixedSizeSlotMap::<Elem, 0>::new()),
                1 => Box::new(FixedSizeSlotMap::<Elem, 1>::new()),
                2 => Box::new(FixedSizeSlotMap::<Elem, 2>::new()),
                3 => Box::new(FixedSizeSlotMap::<Elem, 3>::new()),
                4 => Box::new(FixedSizeSlotMap::<Elem, 4>::new()),
                _ => unreachable!(),
            },
            Flavour::Heap => Box::new(SlotMap::<Elem>::new(cap)),
            Flavour::Reloc => Box::new(Reloc::<RelocatableSlotMap<Elem>>::new(cap).map_err(|e| Fail::new("construct", site, e))?),
        })
    })?
}

pub struct SlotSys {
    real: ManuallyDrop<Box<dyn SlotOps>>,
    model: Vec<Option<Id>>,
    /// what next_free_key() returned at the last observation
    next: Option<usize>,
    cap: usize,
}

impl SlotSys {
    pub fn new(cfg: &Cfg) -> Result<SlotSys, Fail> {
        let real = construct(cfg.flavour, cfg.cap)?;
        let mut s = SlotSys { real: ManuallyDrop::new(real), model: vec![None; cfg.cap], next: None, cap: cfg.cap };
        s.observe(&Site("slotmap.new", cap_class(cfg.cap), ""))?;
        Ok(s)
    }

    pub fn key(&self) -> u64 {
        seqx::hash_of(&(self.model.iter().map(|e| e.map(|x| x.1)).collect::<Vec<_>>(), self.next))
    }

    fn count(&self) -> usize {
        self.model.iter().filter(|e| e.is_some()).count()
    }

    pub fn enabled(&self) -> Vec<SlotOp> {
        let c = self.cap;
        let mut v = vec![SlotOp::Insert(0)];
        for k in 0..=c + 1 {
            v.push(SlotOp::Remove(k));
        }
        for k in 0..=c + 1 {
            v.push(SlotOp::InsertAt(k, 1));
        }
        v.push(SlotOp::GetOutOfBounds(c));
        v.push(SlotOp::ContainsOutOfBounds(c));
        v
    }

    fn key_class(&self, k: usize) -> &'static str {
        if k > self.cap {
            "key>cap"
        } else if k == self.cap {
            "key==cap"
        } else if self.model[k].is_some() {
            "key occupied"
        } else if self.next == Some(k) {
            "key==next_free_key"
        } else {
            "key free"
        }
    }

    pub fn apply(&mut self, op: &SlotOp) -> Result<(), Fail> {
        let c = self.cap;
        let full = self.count() == c;
        let site: Site;
        match *op {
            SlotOp::Insert(v) => {
                site = Site("slotmap.insert", if c == 0 { "cap0" } else if full { "full" } else { "room" }, "");
                let e = Elem::new(v);
                let id = e.ident();
                let r = real(&site, || self.real.insert(e))?;
                if full {
                    expect_eq!(r, None, "return", &site, "insert into a full slot map");
                } else {
                    let Some(k) = r else {
                        return Err(Fail::new("return", &site, format!("insert returned None although only {} of {c} slots are used", self.count())));
                    };
                    if k >= c {
                        return Err(Fail::new("return", &site, format!("insert returned the out-of-bounds key {k}")));
                    }
                    if let Some(old) = self.model[k] {
                        return Err(Fail::new("key-reuse", &site, format!("insert returned key {k}, which already holds element (id,val) {old:?}")));
                    }
                    expect_eq!(Some(k), self.next, "next-free-key", &site, "key used by insert vs. the key announced by next_free_key() before");
                    self.model[k] = Some(id);
                }
            }
            SlotOp::InsertAt(k, v) => {
                site = Site("slotmap.insert_at", self.key_class(k), "");
                let e = Elem::new(v);
                let id = e.ident();
                let r = real(&site, || self.real.insert_at(k, e))?;
                expect_eq!(r, k < c, "return", &site, "insert_at (documented: false iff the key is out of bounds)");
                if k < c {
                    self.model[k] = Some(id);
                }
            }
            SlotOp::Remove(k) => {
                site = Site("slotmap.remove", self.key_class(k), "");
                let r = real(&site, || self.real.remove(k))?;
                let m = if k < c { self.model[k].take() } else { None };
                expect_eq!(r.as_ref().map(|e| e.ident()), m, "return", &site, "remove");
                drop(r);
            }
            SlotOp::GetOutOfBounds(k) => {
                site = Site("slotmap.get", self.key_class(k), "");
                let r = real(&site, || self.real.get(k))?;
                expect_eq!(r, None, "return", &site, "get with a key that is not contained");
            }
            SlotOp::ContainsOutOfBounds(k) => {
                site = Site("slotmap.contains", self.key_class(k), "");
                let r = real(&site, || self.real.contains(k))?;
                expect_eq!(r, false, "return", &site, "contains with a key that is not contained");
            }
        }
        self.observe(&site)
    }

    fn observe(&mut self, site: &Site) -> Result<(), Fail> {
        let n = self.count();
        let c = self.cap;
        let (len, is_empty, is_full, capacity, mut it, next) = real(site, || {
            (self.real.len(), self.real.is_empty(), self.real.is_full(), self.real.capacity(), self.real.iter_all(), self.real.next_free_key())
        })?;
        expect_eq!(len, n, "len", site, "len()");
        expect_eq!(is_empty, n == 0, "flags", site, "is_empty()");
        expect_eq!(is_full, n == c, "flags", site, "is_full()");
        expect_eq!(capacity, c, "flags", site, "capacity()");
        // the iteration order is not documented
        it.sort_by_key(|e| e.0);
        let want: Vec<(usize, Id)> = self.model.iter().enumerate().filter_map(|(k, e)| e.map(|x| (k, x))).collect();
        expect_eq!(it, want, "content", site, "iter() (sorted by key)");
        for k in 0..c {
            let (g, gm, ct) = real(site, || (self.real.get(k), self.real.get_mut(k), self.real.contains(k)))?;
            expect_eq!(g, self.model[k], "content", site, format!("get({k})"));
            expect_eq!(gm, self.model[k], "content", site, format!("get_mut({k})"));
            expect_eq!(ct, self.model[k].is_some(), "content", site, format!("contains({k})"));
        }
        // investigation aid (never set in a check run): look past the next_free_key() oracle to see what a
        // wrong announcement leads to
        let next = if skip_next_free_key_oracle() { return self.after_skip(site, n, next) } else { next };
        match next {
            None => {
                if n != c {
                    return Err(Fail::new("next-free-key", site, format!("next_free_key() is None although only {n} of {c} slots are used")));
                }
            }
            Some(k) => {
                if n == c {
                    return Err(Fail::new("next-free-key", site, format!("next_free_key() is Some({k}) although the slot map is full (documented: None)")));
                }
                if k >= c || self.model[k].is_some() {
                    return Err(Fail::new("next-free-key", site, format!("next_free_key() announces key {k}, which is not a free key (occupied or out of bounds)")));
                }
            }
        }
        self.next = next;
        check_live(site, n)
    }

    fn after_skip(&mut self, site: &Site, n: usize, next: Option<usize>) -> Result<(), Fail> {
        self.next = next;
        check_live(site, n)
    }

    pub fn finish(mut self) -> Result<(), Fail> {
        let site = &Site("slotmap.drop", "", "");
        real(site, || unsafe { ManuallyDrop::drop(&mut self.real) })?;
        check_all_dropped(site)
    }
}

fn skip_next_free_key_oracle() -> bool {
    static SKIP: std::sync::OnceLock<bool> = std::sync::OnceLock::new();
    *SKIP.get_or_init(|| std::env::var("H_CONTAINERS_SKIP").map(|v| v.contains("next-free-key")).unwrap_or(false))
}
