//! RelocatableOption<Elem>. Reference model: Option<(element id, value)>.

use std::mem::ManuallyDrop;

use iceoryx2_bb_container::relocatable_option::RelocatableOption;
use seqx::Fail;
use serde::{Deserialize, Serialize};

use crate::common::*;
use crate::elem::Elem;
use crate::expect_eq;

#[derive(Clone, Debug, Serialize, Deserialize)]
pub enum OptOp {
    Replace(u8),
    Take,
    /// take_if(|_| flag)
    TakeIf(bool),
    /// *self = self.take().map(|e| e) – moves the element out and back in
    MapRoundTrip,
    /// clone() of the option; the clone is dropped by the harness
    CloneAndDrop,
    /// unwrap_or(alternative) on a taken copy; the returned element is put back with replace
    UnwrapOr(u8),
}

type Id = (u32, u8);

pub struct OptSys {
    real: ManuallyDrop<Box<RelocatableOption<Elem>>>,
    model: Option<Id>,
}

fn id(o: &RelocatableOption<Elem>) -> Option<Id> {
    o.as_option_ref().map(|e| e.ident())
}

impl OptSys {
    pub fn new(_cfg: &Cfg) -> Result<OptSys, Fail> {
        let mut s = OptSys { real: ManuallyDrop::new(Box::new(RelocatableOption::default())), model: None };
        s.observe(&Site("option.default", "", ""))?;
        Ok(s)
    }

    pub fn key(&self) -> u64 {
        seqx::hash_of(&self.model.map(|e| e.1))
    }

    pub fn enabled(&self) -> Vec<OptOp> {
        vec![OptOp::Replace(0), OptOp::Replace(1), OptOp::Take, OptOp::TakeIf(true), OptOp::TakeIf(false), OptOp::MapRoundTrip, OptOp::CloneAndDrop, OptOp::UnwrapOr(2)]
    }

    pub fn apply(&mut self, op: &OptOp) -> Result<(), Fail> {
        let st = if self.model.is_some() { "some" } else { "none" };
        let site: Site;
        match *op {
            OptOp::Replace(v) => {
                site = Site("option.replace", st, "");
                let e = Elem::new(v);
                let new = e.ident();
                let r = real(&site, || self.real.replace(e))?;
                expect_eq!(id(&r), self.model, "return", &site, "replace (returns the old content)");
                self.model = Some(new);
                drop(r);
            }
            OptOp::Take => {
                site = Site("option.take", st, "");
                let r = real(&site, || self.real.take())?;
                expect_eq!(id(&r), self.model.take(), "return", &site, "take");
                drop(r);
            }
            OptOp::TakeIf(flag) => {
                site = Site("option.take_if", st, if flag { "true" } else { "false" });
                let mut seen = None;
                let r = real(&site, || {
                    self.real.take_if(|e| {
                        seen = Some(e.ident());
                        flag
                    })
                })?;
                expect_eq!(seen, self.model, "return", &site, "element shown to the predicate of take_if");
                let m = if flag { self.model.take() } else { None };
                expect_eq!(id(&r), m, "return", &site, "take_if");
                drop(r);
            }
            OptOp::MapRoundTrip => {
                site = Site("option.map", st, "");
                real(&site, || {
                    let t = self.real.take().map(|e| e);
                    **self.real = t;
                })?;
            }
            OptOp::CloneAndDrop => {
                site = Site("option.clone", st, "");
                let c = real(&site, || (**self.real).clone())?;
                expect_eq!(id(&c).map(|e| e.1), self.model.map(|e| e.1), "return", &site, "value inside the clone");
                if let (Some(a), Some(b)) = (id(&c), self.model) {
                    if a.0 == b.0 {
                        return Err(Fail::new("return", &site, "the clone holds the same element as the original"));
                    }
                }
                drop(c);
            }
            OptOp::UnwrapOr(v) => {
                site = Site("option.unwrap_or", st, "");
                let alt = Elem::new(v);
                let alt_id = alt.ident();
                let got = real(&site, || self.real.take().unwrap_or(alt))?;
                let want = self.model.unwrap_or(alt_id);
                expect_eq!(got.ident(), want, "return", &site, "unwrap_or");
                let old = real(&site, || self.real.replace(got))?;
                expect_eq!(id(&old), None, "return", &site, "replace after take");
                self.model = Some(want);
            }
        }
        self.observe(&site)
    }

    fn observe(&mut self, site: &Site) -> Result<(), Fail> {
        let (r, rm, is_some, is_none, as_ref, to_opt) = real(site, || {
            (
                id(&self.real),
                self.real.as_option_mut().map(|e| e.ident()),
                self.real.is_some(),
                self.real.is_none(),
                RelocatableOption::as_ref(&**self.real).to_option().map(|e| e.ident()),
                RelocatableOption::as_mut(&mut **self.real).to_option().map(|e| e.ident()),
            )
        })?;
        expect_eq!(r, self.model, "content", site, "as_option_ref()");
        expect_eq!(rm, self.model, "content", site, "as_option_mut()");
        expect_eq!(as_ref, self.model, "content", site, "as_ref().to_option()");
        expect_eq!(to_opt, self.model, "content", site, "as_mut().to_option()");
        expect_eq!(is_some, self.model.is_some(), "flags", site, "is_some()");
        expect_eq!(is_none, self.model.is_none(), "flags", site, "is_none()");
        check_live(site, self.model.is_some() as usize)
    }

    pub fn finish(mut self) -> Result<(), Fail> {
        let site = &Site("option.drop", "", "");
        real(site, || unsafe { ManuallyDrop::drop(&mut self.real) })?;
        check_all_dropped(site)
    }
}
