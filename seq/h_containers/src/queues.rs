//! Queue flavours: FixedSizeQueue<T, N>, Queue<T> (heap), RelocatableQueue<T>; T = Elem (drop tracking)
//! or u8 (the only way to reach `get(i)`). Reference model: VecDeque<(element id, value)>.

use std::collections::VecDeque;
use std::mem::ManuallyDrop;

use iceoryx2_bb_container::queue::{FixedSizeQueue, Queue, RelocatableQueue};
use seqx::Fail;
use serde::{Deserialize, Serialize};

use crate::common::*;
use crate::elem::Elem;
use crate::expect_eq;
use crate::mem::Reloc;

#[derive(Clone, Debug, Serialize, Deserialize)]
pub enum QueueOp {
    Push(u8),
    PushWithOverflow(u8),
    Pop,
    Clear,
}

pub trait Payload: Sized + 'static {
    const TRACKED: bool;
    fn make(v: u8) -> Self;
    fn ident(&self) -> (u32, u8);
}

impl Payload for Elem {
    const TRACKED: bool = true;
    fn make(v: u8) -> Elem {
        Elem::new(v)
    }
    fn ident(&self) -> (u32, u8) {
        Elem::ident(self)
    }
}

impl Payload for u8 {
    const TRACKED: bool = false;
    fn make(v: u8) -> u8 {
        v
    }
    fn ident(&self) -> (u32, u8) {
        (0, *self)
    }
}

pub trait QueueOps<T> {
    fn push(&mut self, v: T) -> bool;
    fn push_with_overflow(&mut self, v: T) -> Option<T>;
    fn pop(&mut self) -> Option<T>;
    fn clear(&mut self);
    fn peek(&self) -> Option<&T>;
    fn peek_mut(&mut self) -> Option<&mut T>;
    fn len(&self) -> usize;
    fn is_empty(&self) -> bool;
    fn is_full(&self) -> bool;
    fn capacity(&self) -> usize;
    /// all elements through get(i), i < len (only for Copy payloads)
    fn get_all(&self) -> Option<Vec<u8>>;
}

macro_rules! impl_queue_ops {
    ($t:ty, $p:ty, $s:ident, $r:expr, $m:expr, $getall:expr) => {
        impl QueueOps<$p> for $t {
            #[allow(unused_unsafe)]
            fn push(&mut self, v: $p) -> bool {
                #[allow(unused_variables)]
                let $s = self;
                unsafe { $m.push(v) }
            }
            #[allow(unused_unsafe)]
            fn push_with_overflow(&mut self, v: $p) -> Option<$p> {
                #[allow(unused_variables)]
                let $s = self;
                unsafe { $m.push_with_overflow(v) }
            }
            #[allow(unused_unsafe)]
            fn pop(&mut self) -> Option<$p> {
                #[allow(unused_variables)]
                let $s = self;
                unsafe { $m.pop() }
            }
            #[allow(unused_unsafe)]
            fn clear(&mut self) {
                #[allow(unused_variables)]
                let $s = self;
                unsafe { $m.clear() }
            }
            fn peek(&self) -> Option<&$p> {
                #[allow(unused_variables)]
                let $s = self;
                $r.peek()
            }
            fn peek_mut(&mut self) -> Option<&mut $p> {
                #[allow(unused_variables)]
                let $s = self;
                $m.peek_mut()
            }
            fn len(&self) -> usize {
                #[allow(unused_variables)]
                let $s = self;
                $r.len()
            }
            fn is_empty(&self) -> bool {
                #[allow(unused_variables)]
                let $s = self;
                $r.is_empty()
            }
            fn is_full(&self) -> bool {
                #[allow(unused_variables)]
                let $s = self;
                $r.is_full()
            }
            fn capacity(&self) -> usize {
                #[allow(unused_variables)]
                let $s = self;
                $r.capacity()
            }
            fn get_all(&self) -> Option<Vec<u8>> {
                #[allow(unused_variables)]
                let $s = self;
                $getall
            }
        }
    };
}

macro_rules! impl_queue_both {
    ($t:ident < T $(, $n:literal)? >, $s:ident, $r:expr, $m:expr) => {
        impl_queue_ops!($t<Elem $(, $n)?>, Elem, $s, $r, $m, None);
        impl_queue_ops!($t<u8 $(, $n)?>, u8, $s, $r, $m, Some((0..$r.len()).map(|i| $r.get(i)).collect()));
    };
}

impl_queue_both!(FixedSizeQueue<T, 0>, s, s, s);
impl_queue_both!(FixedSizeQueue<T, 1>, s, s, s);
impl_queue_both!(FixedSizeQueue<T, 2>, s, s, s);
impl_queue_both!(FixedSizeQueue<T, 3>, s, s, s);
impl_queue_both!(FixedSizeQueue<T, 4>, s, s, s);
impl_queue_both!(Queue<T>, s, s, s);
impl_queue_ops!(Reloc<RelocatableQueue<Elem>>, Elem, s, s.get(), s.get_mut(), None);
impl_queue_ops!(Reloc<RelocatableQueue<u8>>, u8, s, s.get(), s.get_mut(), Some((0..s.get().len()).map(|i| s.get().get(i)).collect()));

pub fn min_cap(f: Flavour) -> usize {
    match f {
        // FixedSizeQueue<T, 0>::new() compiles and is not documented as invalid
        Flavour::Inline | Flavour::Heap => 0,
        // RelocatableQueue::init fails with AllocationError::SizeIsZero for capacity 0
        Flavour::Reloc => 1,
    }
}

trait Construct: Payload {
    fn construct(f: Flavour, cap: usize) -> Result<Box<dyn QueueOps<Self>>, Fail>;
}

macro_rules! impl_construct {
    ($p:ty) => {
        impl Construct for $p {
            fn construct(f: Flavour, cap: usize) -> Result<Box<dyn QueueOps<$p>>, Fail> {
                let site = Site("queue.new", flavour_name(f), cap_class(cap));
                real(&site, || -> Result<Box<dyn QueueOps<$p>>, Fail> {
                    Ok(match f {
                        Flavour::Inline => match cap {
                            0 => Box::new(FixedSizeQueue::<$p, 0>::new()),
                            1 => Box::new(FixedSizeQueue::<$p, 1>::new()),
                            2 => Box::new(FixedSizeQueue::<$p, 2>::new()),
                            3 => Box::new(FixedSizeQueue::<$p, 3>::new()),
                            4 => Box::new(FixedSizeQueue::<$p, 4>::new()),
                            _ => unreachable!(),
                        },
                        Flavour::Heap => Box::new(Queue::<$p>::new(cap)),
                        Flavour::Reloc => Box::new(Reloc::<RelocatableQueue<$p>>::new(cap).map_err(|e| Fail::new("construct", site, e))?),
                    })
                })?
            }
        }
    };
}
impl_construct!(Elem);
impl_construct!(u8);

pub struct QueueSys<T: Payload> {
    real: ManuallyDrop<Box<dyn QueueOps<T>>>,
    model: VecDeque<(u32, u8)>,
    cap: usize,
}

pub type QueueElemSys = QueueSys<Elem>;
pub type QueueU8Sys = QueueSys<u8>;

#[allow(private_bounds)]
impl<T: Construct> QueueSys<T> {
    pub fn new(cfg: &Cfg) -> Result<Self, Fail> {
        let real = T::construct(cfg.flavour, cfg.cap)?;
        let mut s = QueueSys { real: ManuallyDrop::new(real), model: VecDeque::new(), cap: cfg.cap };
        s.observe(&Site("queue.new", "", ""))?;
        Ok(s)
    }

    pub fn key(&self) -> u64 {
        seqx::hash_of(&self.model.iter().map(|e| e.1).collect::<Vec<u8>>())
    }

    pub fn enabled(&self) -> Vec<QueueOp> {
        let mut v = Vec::new();
        for x in 0..3 {
            v.push(QueueOp::Push(x));
        }
        v.push(QueueOp::Pop);
        for x in 0..3 {
            v.push(QueueOp::PushWithOverflow(x));
        }
        v.push(QueueOp::Clear);
        v
    }

    pub fn apply(&mut self, op: &QueueOp) -> Result<(), Fail> {
        let (l, c) = (self.model.len(), self.cap);
        let full = l == c;
        let site: Site;
        match *op {
            QueueOp::Push(v) => {
                site = Site("queue.push", if full { "full" } else { "room" }, "");
                let e = T::make(v);
                let id = e.ident();
                let r = real(&site, || self.real.push(e))?;
                expect_eq!(r, !full, "return", &site, "push (documented: false if the queue is full)");
                if !full {
                    self.model.push_back(id);
                }
            }
            QueueOp::PushWithOverflow(v) => {
                site = Site("queue.push_with_overflow", if c == 0 { "cap0" } else if full { "full" } else { "room" }, "");
                let e = T::make(v);
                let id = e.ident();
                let r = real(&site, || self.real.push_with_overflow(e))?;
                let r_id = r.as_ref().map(|e| e.ident());
                if c == 0 {
                    // nothing can be stored: the only element that can overflow is the pushed one
                    if let Some(x) = r_id {
                        expect_eq!(x, id, "return", &site, "element returned by push_with_overflow on a queue of capacity 0");
                    }
                } else if full {
                    let oldest = self.model.pop_front();
                    expect_eq!(r_id, oldest, "return", &site, "push_with_overflow on a full queue (documented: returns the oldest element)");
                    self.model.push_back(id);
                } else {
                    expect_eq!(r_id, None, "return", &site, "push_with_overflow on a queue with room");
                    self.model.push_back(id);
                }
                drop(r);
            }
            QueueOp::Pop => {
                site = Site("queue.pop", if l == 0 { "empty" } else { "nonempty" }, "");
                let r = real(&site, || self.real.pop())?;
                let m = self.model.pop_front();
                expect_eq!(r.as_ref().map(|e| e.ident()), m, "return", &site, "pop");
                drop(r);
            }
            QueueOp::Clear => {
                site = Site("queue.clear", "", "");
                real(&site, || self.real.clear())?;
                self.model.clear();
            }
        }
        self.observe(&site)
    }

    fn observe(&mut self, site: &Site) -> Result<(), Fail> {
        let l = self.model.len();
        let front = self.model.front().copied();
        let (len, is_empty, is_full, capacity, peek, peek_mut, all) = real(site, || {
            (
                self.real.len(),
                self.real.is_empty(),
                self.real.is_full(),
                self.real.capacity(),
                self.real.peek().map(|e| e.ident()),
                self.real.peek_mut().map(|e| e.ident()),
                self.real.get_all(),
            )
        })?;
        expect_eq!(len, l, "len", site, "len()");
        expect_eq!(is_empty, l == 0, "flags", site, "is_empty()");
        expect_eq!(is_full, l == self.cap, "flags", site, "is_full()");
        expect_eq!(capacity, self.cap, "flags", site, "capacity()");
        expect_eq!(peek, front, "content", site, "peek()");
        expect_eq!(peek_mut, front, "content", site, "peek_mut()");
        if let Some(all) = all {
            let m: Vec<u8> = self.model.iter().map(|e| e.1).collect();
            expect_eq!(all, m, "content", site, "get(0..len)");
        }
        if T::TRACKED {
            check_live(site, l)?;
        }
        Ok(())
    }

    pub fn finish(mut self) -> Result<(), Fail> {
        let site = &Site("queue.drop", "", "");
        real(site, || unsafe { ManuallyDrop::drop(&mut self.real) })?;
        check_all_dropped(site)
    }
}
