//! String flavours: StaticString<N>, PolymorphicString<PoisonAlloc>, RelocatableString.
//! Reference model: Vec<u8> plus the documented content restriction of the `String` trait
//! ("The NUL code point is not allowed anywhere in the string", "only Unicode code points less
//! than 128 are supported"): exactly the bytes 1..=127 are accepted, everything else fails with
//! `InvalidCharacter` and changes nothing.
//!
//! Memory of the heap-backed and the relocatable flavour: zero-filled in the main families (what a
//! fresh shared-memory segment or calloc provides), 0xAA-filled in the `StrUninit` family (what
//! `HeapAllocator`/malloc or a `BumpAllocator` over used memory provides).

use std::mem::ManuallyDrop;

use iceoryx2_bb_container::string::{PolymorphicString, RelocatableString, StaticString, String as IoxString, StringModificationError};
use seqx::Fail;
use serde::{Deserialize, Serialize};

use crate::common::*;
use crate::expect_eq;
use crate::mem::{self, PoisonAlloc, Reloc, PALLOC};

/// byte-string arguments
#[derive(Clone, Copy, Debug, PartialEq, Eq, Serialize, Deserialize)]
pub enum Pat {
    Empty,
    A,
    ADot,
    DotSlash,
    /// "/\0"
    SlashNul,
    /// "a\x80"
    AHigh,
    /// capacity - len + 1 times 'a'
    TooLong,
}

impl Pat {
    fn bytes(self, len: usize, cap: usize) -> &'static [u8] {
        match self {
            Pat::Empty => b"",
            Pat::A => b"a",
            Pat::ADot => b"a.",
            Pat::DotSlash => b"./",
            Pat::SlashNul => b"/\0",
            Pat::AHigh => b"a\x80",
            Pat::TooLong => &b"aaaaaaaa"[..cap - len + 1],
        }
    }
}

#[derive(Clone, Debug, Serialize, Deserialize)]
pub enum StrOp {
    Push(u8),
    PushBytes(Pat),
    Insert(usize, u8),
    InsertBytes(usize, Pat),
    Pop,
    Remove(usize),
    RemoveRange(usize, usize),
    Truncate(usize),
    Clear,
    StripPrefix(Pat),
    StripSuffix(Pat),
    /// retain(|c| c == byte)
    Retain(u8),
}

#[derive(PartialEq)]
pub enum StrRet {
    Mod(Result<(), StringModificationError>),
    Byte(Option<u8>),
    Bool(bool),
    Unit,
}

impl std::fmt::Debug for StrRet {
    fn fmt(&self, f: &mut std::fmt::Formatter<'_>) -> std::fmt::Result {
        match self {
            StrRet::Mod(r) => write!(f, "{r:?}"),
            StrRet::Byte(Some(b)) => write!(f, "Some({b:#04x})"),
            StrRet::Byte(None) => write!(f, "None"),
            StrRet::Bool(b) => write!(f, "{b}"),
            StrRet::Unit => write!(f, "()"),
        }
    }
}

/// patterns probed with find / rfind after every operation
const PATTERNS: [&[u8]; 5] = [b"", b"a", b".", b"a.", b"/"];

fn call<S: IoxString>(s: &mut S, op: &StrOp, len: usize, cap: usize) -> StrRet {
    match *op {
        StrOp::Push(b) => StrRet::Mod(s.push(b)),
        StrOp::PushBytes(p) => StrRet::Mod(s.push_bytes(p.bytes(len, cap))),
        StrOp::Insert(i, b) => StrRet::Mod(s.insert(i, b)),
        StrOp::InsertBytes(i, p) => StrRet::Mod(s.insert_bytes(i, p.bytes(len, cap))),
        StrOp::Pop => StrRet::Byte(s.pop()),
        StrOp::Remove(i) => StrRet::Byte(s.remove(i)),
        StrOp::RemoveRange(i, n) => StrRet::Bool(s.remove_range(i, n)),
        StrOp::Truncate(n) => {
            s.truncate(n);
            StrRet::Unit
        }
        StrOp::Clear => {
            s.clear();
            StrRet::Unit
        }
        StrOp::StripPrefix(p) => StrRet::Bool(s.strip_prefix(p.bytes(len, cap))),
        StrOp::StripSuffix(p) => StrRet::Bool(s.strip_suffix(p.bytes(len, cap))),
        StrOp::Retain(b) => {
            s.retain(|c| c == b);
            StrRet::Unit
        }
    }
}

type Mismatch = (&'static str, std::string::String);

/// the whole observation against the model (allocates only when something differs)
fn check<S: IoxString>(s: &S, m: &[u8], cap: usize) -> Result<(), Mismatch> {
    let l = m.len();
    if s.as_bytes() != m {
        return Err(("content", format!("as_bytes(): real {}, model {}", hex(s.as_bytes()), hex(m))));
    }
    if s.len() != l {
        return Err(("len", format!("len(): real {}, model {l}", s.len())));
    }
    if s.is_empty() != (l == 0) || s.is_full() != (l == cap) || s.capacity() != cap {
        return Err(("flags", format!("is_empty() {} is_full() {} capacity() {} with model len {l} capacity {cap}", s.is_empty(), s.is_full(), s.capacity())));
    }
    if !s.iter().eq(m.iter()) {
        return Err(("content", format!("iteration over deref(): real {}, model {}", hex(s), hex(m))));
    }
    let z = s.as_bytes_with_nul();
    if z.len() != l + 1 || &z[..l] != m || z[l] != 0 {
        return Err(("nul-termination", format!("as_bytes_with_nul() (documented: null-terminated): real {}, model {} + [0x00]", hex(z), hex(m))));
    }
    // the bytes before the first NUL behind as_c_str(), looking at most at capacity + 1 bytes
    let p = s.as_c_str() as *const u8;
    if !((0..l).all(|i| unsafe { *p.add(i) } == m[i]) && unsafe { *p.add(l) } == 0) {
        let c: Vec<u8> = (0..=cap).map(|i| unsafe { *p.add(i) }).collect();
        return Err(("nul-termination", format!("as_c_str() (documented: zero terminated): the capacity + 1 bytes behind it are {}, model {} + [0x00]", hex(&c), hex(m))));
    }
    for pat in PATTERNS {
        let (a, b) = (s.find(pat), find(m, pat));
        if a != b {
            return Err(("find", format!("find({}): real {a:?}, model {b:?} in {}", hex(pat), hex(m))));
        }
        let (a, b) = (s.rfind(pat), rfind(m, pat));
        if a != b {
            return Err(("find", format!("rfind({}): real {a:?}, model {b:?} in {}", hex(pat), hex(m))));
        }
    }
    Ok(())
}

pub trait StrOps {
    fn call(&mut self, op: &StrOp, len: usize, cap: usize) -> StrRet;
    fn check(&self, model: &[u8], cap: usize) -> Result<(), Mismatch>;
}

macro_rules! impl_str_ops {
    ($t:ty, $s:ident, $r:expr, $m:expr) => {
        impl StrOps for $t {
            fn call(&mut self, op: &StrOp, len: usize, cap: usize) -> StrRet {
                let $s = self;
                call($m, op, len, cap)
            }
            fn check(&self, model: &[u8], cap: usize) -> Result<(), Mismatch> {
                let $s = self;
                check($r, model, cap)
            }
        }
    };
}

impl_str_ops!(StaticString<0>, s, s, s);
impl_str_ops!(StaticString<1>, s, s, s);
impl_str_ops!(StaticString<2>, s, s, s);
impl_str_ops!(StaticString<3>, s, s, s);
impl_str_ops!(StaticString<4>, s, s, s);
impl_str_ops!(PolymorphicString<'static, PoisonAlloc>, s, s, s);
impl_str_ops!(Reloc<RelocatableString>, s, s.get(), s.get_mut());

pub fn min_cap(_f: Flavour) -> usize {
    // all three flavours reserve capacity + 1 bytes, so capacity 0 is constructible in principle
    0
}

fn construct(f: Flavour, cap: usize) -> Result<Box<dyn StrOps>, Fail> {
    let site = Site("string.new", flavour_name(f), cap_class(cap));
    real(&site, || -> Result<Box<dyn StrOps>, Fail> {
        Ok(match f {
            Flavour::Inline => match cap {
                0 => Box::new(StaticString::<0>::new()),
                1 => Box::new(StaticString::<1>::new()),
                2 => Box::new(StaticString::<2>::new()),
                3 => Box::new(StaticString::<3>::new()),
                4 => Box::new(StaticString::<4>::new()),
                _ => unreachable!(),
            },
            Flavour::Heap => Box::new(PolymorphicString::<PoisonAlloc>::new(&PALLOC, cap).map_err(|e| Fail::new("construct", site, format!("{e:?}")))?),
            Flavour::Reloc => Box::new(Reloc::<RelocatableString>::new(cap).map_err(|e| Fail::new("construct", site, e))?),
        })
    })?
}

fn valid(b: u8) -> bool {
    (1..128).contains(&b)
}

/// the bytes of the sequence alphabet
pub const BYTES: [u8; 6] = [b'a', b'.', b'/', 0x00, 0x80, 0xFF];

pub struct StrSys {
    real: ManuallyDrop<Box<dyn StrOps>>,
    model: Vec<u8>,
    cap: usize,
    kind: Kind,
    group: u8,
    steps: usize,
}

enum Expect {
    Ret(StrRet),
    AnyErr,
    Panic,
}

impl StrSys {
    pub fn new(cfg: &Cfg) -> Result<StrSys, Fail> {
        mem::set_fill(if cfg.kind == Kind::StrUninit { mem::POISON } else { 0 });
        let real = construct(cfg.flavour, cfg.cap);
        mem::set_fill(mem::POISON);
        let mut s = StrSys { real: ManuallyDrop::new(real?), model: Vec::new(), cap: cfg.cap, kind: cfg.kind, group: cfg.group, steps: 0 };
        s.observe(&Site("string.new", if cfg.kind == Kind::StrUninit { "uninitialised memory" } else { "" }, ""))?;
        Ok(s)
    }

    pub fn key(&self) -> u64 {
        seqx::hash_of(&(&self.model, self.steps.min(2)))
    }

    pub fn enabled(&self) -> Vec<StrOp> {
        let (l, c) = (self.model.len(), self.cap);
        let mut v = Vec::with_capacity(32);
        // an index behind the end is documented to panic whatever the state; probed at the two extremes
        let probe_oob = l == 0 || l == c;
        match self.kind {
            Kind::StrPushPop => match self.steps {
                0 => (0..=255u8).for_each(|b| v.push(StrOp::Push(b))),
                1 => v.push(StrOp::Pop),
                _ => {}
            },
            Kind::StrInsertFront => match self.steps {
                0 => v.push(StrOp::Push(b'a')),
                1 => (0..=255u8).for_each(|b| v.push(StrOp::Insert(0, b))),
                _ => {}
            },
            Kind::StrRetain => {
                v.push(StrOp::Push(b'a'));
                v.push(StrOp::Push(b'.'));
                v.push(StrOp::Retain(b'a'));
                v.push(StrOp::Retain(b'/'));
            }
            Kind::StrUninit => {
                v.push(StrOp::Push(b'a'));
                v.push(StrOp::Pop);
                v.push(StrOp::PushBytes(Pat::ADot));
                v.push(StrOp::Insert(0, b'/'));
                v.push(StrOp::InsertBytes(0, Pat::DotSlash));
                v.push(StrOp::Clear);
                v.push(StrOp::Truncate(1));
                v.push(StrOp::RemoveRange(0, 1));
            }
            _ => match self.group {
                // single bytes at every position
                1 => {
                    for b in BYTES {
                        v.push(StrOp::Push(b));
                    }
                    v.push(StrOp::Pop);
                    v.push(StrOp::Clear);
                    for i in 0..=l {
                        v.push(StrOp::Insert(i, b'/'));
                    }
                    v.push(StrOp::Insert(0, 0x00));
                    if probe_oob {
                        v.push(StrOp::Insert(l + 1, b'a'));
                    }
                    for i in 0..=l + 1 {
                        v.push(StrOp::Remove(i));
                    }
                }
                // byte strings in, truncation
                2 => {
                    v.push(StrOp::Push(b'a'));
                    v.push(StrOp::Push(b'.'));
                    v.push(StrOp::Pop);
                    v.push(StrOp::Clear);
                    v.push(StrOp::PushBytes(Pat::Empty));
                    v.push(StrOp::PushBytes(Pat::ADot));
                    v.push(StrOp::PushBytes(Pat::SlashNul));
                    v.push(StrOp::PushBytes(Pat::TooLong));
                    for i in 0..=l {
                        v.push(StrOp::InsertBytes(i, Pat::DotSlash));
                    }
                    v.push(StrOp::InsertBytes(0, Pat::AHigh));
                    if probe_oob {
                        v.push(StrOp::InsertBytes(l + 1, Pat::Empty));
                    }
                    for n in 0..=l + 1 {
                        v.push(StrOp::Truncate(n));
                    }
                }
                // ranges out, prefixes and suffixes
                _ => {
                    v.push(StrOp::Push(b'a'));
                    v.push(StrOp::Push(b'.'));
                    v.push(StrOp::PushBytes(Pat::ADot));
                    v.push(StrOp::Pop);
                    for i in 0..=l {
                        // 0, 1, everything behind i, one more than that
                        let mut ns = [0, 1, l - i, l - i + 1];
                        ns.sort_unstable();
                        let mut last = usize::MAX;
                        for n in ns {
                            if n != last {
                                v.push(StrOp::RemoveRange(i, n));
                            }
                            last = n;
                        }
                    }
                    for p in [Pat::Empty, Pat::A, Pat::ADot] {
                        v.push(StrOp::StripPrefix(p));
                        v.push(StrOp::StripSuffix(p));
                    }
                }
            },
        }
        v
    }

    fn insert_model(&mut self, i: usize, p: &[u8], what: &'static str) -> (Site, Expect) {
        let (l, c) = (self.model.len(), self.cap);
        let exceeds = l + p.len() > c;
        let invalid = p.iter().any(|b| !valid(*b));
        if i > l {
            return (Site(what, "idx>len", ""), Expect::Panic);
        }
        let extra = if p.is_empty() {
            "empty"
        } else if !exceeds && !invalid && l + p.len() == c {
            "fills"
        } else {
            ""
        };
        let (cls, e) = match (exceeds, invalid) {
            (false, false) => {
                let tail = self.model.split_off(i);
                self.model.extend_from_slice(p);
                self.model.extend_from_slice(&tail);
                ("ok", Expect::Ret(StrRet::Mod(Ok(()))))
            }
            (true, false) => ("exceeds", Expect::Ret(StrRet::Mod(Err(StringModificationError::InsertWouldExceedCapacity)))),
            (false, true) => ("invalid byte", Expect::Ret(StrRet::Mod(Err(StringModificationError::InvalidCharacter)))),
            // both documented errors apply; the documentation gives no precedence
            (true, true) => ("exceeds+invalid byte", Expect::AnyErr),
        };
        (Site(what, cls, extra), e)
    }

    pub fn apply(&mut self, op: &StrOp) -> Result<(), Fail> {
        let (l, c) = (self.model.len(), self.cap);
        let full = if l == c { "full" } else { "" };
        self.steps += 1;
        let (site, expect): (Site, Expect) = match *op {
            StrOp::Push(b) => self.insert_model(l, &[b], "string.push"),
            StrOp::PushBytes(p) => self.insert_model(l, p.bytes(l, c), "string.push_bytes"),
            StrOp::Insert(i, b) => self.insert_model(i, &[b], "string.insert"),
            StrOp::InsertBytes(i, p) => self.insert_model(i, p.bytes(l, c), "string.insert_bytes"),
            StrOp::Pop => (Site("string.pop", if l == 0 { "empty" } else { "nonempty" }, ""), Expect::Ret(StrRet::Byte(self.model.pop()))),
            StrOp::Remove(i) => {
                let cls = if i < l { "idx<len" } else if i == l { "idx==len" } else { "idx>len" };
                let m = if i < l { Some(self.model.remove(i)) } else { None };
                (Site("string.remove", cls, if i >= l { full } else { "" }), Expect::Ret(StrRet::Byte(m)))
            }
            StrOp::RemoveRange(i, n) => {
                if i + n <= l {
                    self.model.drain(i..i + n);
                    let site = if n == 0 { Site("string.remove_range", "empty range", full) } else { Site("string.remove_range", "in range", "") };
                    (site, Expect::Ret(StrRet::Bool(true)))
                } else {
                    (Site("string.remove_range", "out of range", ""), Expect::Ret(StrRet::Bool(false)))
                }
            }
            StrOp::Truncate(n) => {
                let cls = if n < l { "n<len" } else { "n>=len" };
                self.model.truncate(n);
                (Site("string.truncate", cls, ""), Expect::Ret(StrRet::Unit))
            }
            StrOp::Clear => {
                self.model.clear();
                (Site("string.clear", "", ""), Expect::Ret(StrRet::Unit))
            }
            StrOp::StripPrefix(p) => {
                let p = p.bytes(l, c);
                let m = self.model.starts_with(p);
                if m {
                    self.model.drain(..p.len());
                }
                let site = if p.is_empty() { Site("string.strip_prefix", "empty pattern", full) } else { Site("string.strip_prefix", if m { "match" } else { "no match" }, "") };
                (site, Expect::Ret(StrRet::Bool(m)))
            }
            StrOp::StripSuffix(p) => {
                let p = p.bytes(l, c);
                let m = self.model.ends_with(p);
                if m {
                    self.model.truncate(l - p.len());
                }
                let site = if p.is_empty() { Site("string.strip_suffix", "empty pattern", full) } else { Site("string.strip_suffix", if m { "match" } else { "no match" }, "") };
                (site, Expect::Ret(StrRet::Bool(m)))
            }
            StrOp::Retain(b) => {
                // documented: "Removes all characters where f(c) returns false" (= Vec::retain / String::retain)
                self.model.retain(|c| *c == b);
                (Site("string.retain", "", ""), Expect::Ret(StrRet::Unit))
            }
        };
        match expect {
            Expect::Panic => {
                let r = real_may_panic(&site, || self.real.call(op, l, c))?;
                if let Some(r) = r {
                    return Err(Fail::new("return", &site, format!("documented to panic for an out-of-bounds index but returned {r:?}")));
                }
            }
            Expect::Ret(m) => {
                let r = real(&site, || self.real.call(op, l, c))?;
                expect_eq!(r, m, "return", &site, format!("{op:?}"));
            }
            Expect::AnyErr => {
                let r = real(&site, || self.real.call(op, l, c))?;
                if !matches!(r, StrRet::Mod(Err(_))) {
                    return Err(Fail::new("return", &site, format!("{op:?} must fail, returned {r:?}")));
                }
            }
        }
        self.observe(&site)
    }

    fn observe(&mut self, site: &Site) -> Result<(), Fail> {
        match real(site, || self.real.check(&self.model, self.cap))? {
            Ok(()) => Ok(()),
            Err((tag, detail)) => Err(Fail::new(tag, site, detail)),
        }
    }

    pub fn finish(mut self) -> Result<(), Fail> {
        let site = &Site("string.drop", "", "");
        real(site, || unsafe { ManuallyDrop::drop(&mut self.real) })?;
        check_all_dropped(site)
    }
}

/// Bytes are printed in hex: uninitialised bytes differ between processes and the engine's replay
/// comparison ignores hex numbers.
fn hex(b: &[u8]) -> std::string::String {
    let v: Vec<std::string::String> = b.iter().map(|x| format!("{x:#04x}")).collect();
    format!("[{}]", v.join(" "))
}

fn find(h: &[u8], p: &[u8]) -> Option<usize> {
    if p.len() > h.len() {
        return None;
    }
    (0..=h.len() - p.len()).find(|&i| &h[i..i + p.len()] == p)
}

fn rfind(h: &[u8], p: &[u8]) -> Option<usize> {
    if p.len() > h.len() {
        return None;
    }
    (0..=h.len() - p.len()).rev().find(|&i| &h[i..i + p.len()] == p)
}
