//! h_containers – property C16: the vector, queue, slot map, flat map and string types of
//! iceoryx2-bb-container in all storage flavours behave like the corresponding unbounded standard
//! container (except that operations exceeding the capacity fail with the documented error and
//! change nothing) and drop every stored element exactly once.
//!
//! Every operation sequence is run on the real container from a fresh instance and compared after
//! every step with a reference model (Vec / VecDeque / Vec<Option<_>> / BTreeMap / Vec<u8>): return
//! value, len / is_empty / is_full / capacity, the whole content in iteration order, and the number of
//! live elements (a drop-tracking payload type, see elem.rs). `finish` drops the container and demands
//! that no element is left alive and none was dropped twice.
//!
//! Signatures: `tag` names the oracle (return, content, len, flags, live-count, elem-lifetime,
//! drop-count, drop-order, alloc-balance, next-free-key, key-reuse, nul-termination, find, panic,
//! construct), `site` names the operation and the class of its input relative to the state
//! (e.g. `slotmap.insert_at[key==cap]`). A worker process reports the first execution that fails with a
//! given signature and ends later executions that run into the same signature without reporting them
//! again, so that the exploration of everything else continues past known defects.

// provides the default logger symbol iceoryx2-log links against (the null logger: no feature selected)
extern crate iceoryx2_bb_loggers;

mod common;
mod elem;
mod flatmaps;
mod mem;
mod opts;
mod queues;
mod slotmaps;
mod strings;
mod vecs;

use std::cell::RefCell;
use std::collections::HashMap;

use seqx::{Fail, Harness, Plan, Tier};
use serde::{Deserialize, Serialize};

use common::{Cfg, Flavour, Kind};

#[derive(Clone, Debug, Serialize, Deserialize)]
enum Op {
    V(vecs::VecOp),
    Q(queues::QueueOp),
    S(slotmaps::SlotOp),
    F(flatmaps::FlatOp),
    T(strings::StrOp),
    O(opts::OptOp),
}

enum Inner {
    V(vecs::VecSys),
    Q(queues::QueueElemSys),
    Q8(queues::QueueU8Sys),
    S(slotmaps::SlotSys),
    F(flatmaps::FlatSys),
    T(strings::StrSys),
    O(opts::OptSys),
}

struct Sys {
    cfg: Cfg,
    inner: Option<Inner>,
    /// a failure was seen: the real object may be corrupt, it is abandoned (leaked), nothing more is enabled
    dead: bool,
    steps: usize,
}

thread_local! {
    /// signature -> length of the shortest history reported so far by this process
    static REPORTED: RefCell<HashMap<(String, String), usize>> = RefCell::new(HashMap::new());
}

/// A failure is reported if its signature is new in this process or its history is shorter than
/// the one reported before (the parent keeps the shortest witness per signature); otherwise the
/// execution just ends, so that the exploration of everything else continues past known defects.
fn dedup(f: Fail, steps: usize) -> Result<(), Fail> {
    let report = REPORTED.with(|r| {
        let mut r = r.borrow_mut();
        match r.get_mut(&(f.tag.clone(), f.site.clone())) {
            Some(best) if *best <= steps => false,
            Some(best) => {
                *best = steps;
                true
            }
            None => {
                r.insert((f.tag.clone(), f.site.clone()), steps);
                true
            }
        }
    });
    if report {
        Err(f)
    } else {
        Ok(())
    }
}

struct H;

const FLAVOURS: [Flavour; 3] = [Flavour::Inline, Flavour::Heap, Flavour::Reloc];

impl Harness for H {
    type Cfg = Cfg;
    type Op = Op;
    type Sys = Sys;

    fn name(&self) -> &'static str {
        "h_containers"
    }

    fn property(&self) -> &'static str {
        "C16"
    }

    fn rule(&self) -> String {
        "One configuration = (container kind, storage flavour, capacity 0..=4 where constructible, operation group). For each, \
         every sequence of operations up to the tree depth is executed on a fresh real container (every prefix is an execution of \
         its own that ends with dropping the container), with all positional arguments 0..=len+1 / 0..=capacity+1 and a small value \
         domain; strings use the bytes {a . / 0x00 0x80 0xFF} in sequences (three operation groups: single bytes, byte strings in + \
         truncate, ranges out + strip) and all 256 byte values in the push/pop and push/insert-front families; heap-backed and \
         relocatable strings run over zeroed memory in the main families and over 0xAA-filled memory in a small extra family. After \
         every step the return value, len/is_empty/is_full/capacity, the whole content in iteration order and the set of live \
         drop-tracked elements are compared with a reference model (Vec, VecDeque, Vec<Option>, BTreeMap, Vec<u8>). A distinct \
         state is a distinct (configuration, model content); the empty initial state and states after a failure are not counted. \
         An execution that fails ends there; a worker reports a signature (oracle, operation + input class) once and with its \
         shortest history."
            .into()
    }

    fn configs(&self, tier: Tier) -> Vec<(Cfg, Plan)> {
        let quick = tier == Tier::Quick;
        let mut v: Vec<(Cfg, Plan)> = Vec::new();
        let mut add = |kind: Kind, flavour: Flavour, cap: usize, group: u8, depth: usize, split: u32| {
            v.push((Cfg { kind, flavour, cap, group }, Plan { tree_depth: depth, finish_prefixes: true, frontier: None, split }));
        };
        let d = if quick { 5 } else { 6 };
        for f in FLAVOURS {
            for cap in vecs::min_cap(f)..=4 {
                let split = if cap >= 3 { 8 } else { 1 };
                if quick {
                    // the whole alphabet to depth 4, the two halves (1: push/pop/insert/remove/clear,
                    // 2: push/pop/truncate/resize/extend/clear) to depth 5
                    add(Kind::Vec, f, cap, 0, 4, split);
                    add(Kind::Vec, f, cap, 1, 5, 1);
                    add(Kind::Vec, f, cap, 2, 5, split);
                } else {
                    add(Kind::Vec, f, cap, 0, 6, if cap >= 2 { 16 } else { 4 });
                }
            }
            for cap in queues::min_cap(f)..=4 {
                add(Kind::Queue, f, cap, 0, d, 1);
                add(Kind::QueueU8, f, cap, 0, d, 1);
            }
            for cap in slotmaps::min_cap(f)..=4 {
                add(Kind::SlotMap, f, cap, 0, d, if cap >= 3 { 8 } else { 1 });
            }
            for cap in flatmaps::min_cap(f)..=4 {
                add(Kind::FlatMap, f, cap, 0, d, if cap >= 3 { 4 } else { 1 });
            }
            for cap in strings::min_cap(f)..=4 {
                // 1: single bytes at every position, 2: byte strings in + truncate, 3: ranges out + strip
                for group in 1..=3 {
                    add(Kind::Str, f, cap, group, d, if cap >= 1 { 8 } else { 1 });
                }
            }
            add(Kind::StrPushPop, f, 2, 0, 2, 1);
            add(Kind::StrInsertFront, f, 2, 0, 2, 1);
            add(Kind::StrRetain, f, 3, 0, 4, 1);
            if f != Flavour::Inline {
                for cap in 0..=2 {
                    add(Kind::StrUninit, f, cap, 0, 4, 1);
                }
            }
        }
        add(Kind::Opt, Flavour::Inline, 1, 0, if quick { 5 } else { 6 }, 1);
        v
    }

    fn new_sys(&self, cfg: &Cfg) -> Result<Sys, Fail> {
        iceoryx2_log::set_log_level(iceoryx2_log::LogLevel::Fatal);
        elem::reset();
        mem::reset();
        let inner = match cfg.kind {
            Kind::Vec => vecs::VecSys::new(cfg).map(Inner::V),
            Kind::Queue => queues::QueueElemSys::new(cfg).map(Inner::Q),
            Kind::QueueU8 => queues::QueueU8Sys::new(cfg).map(Inner::Q8),
            Kind::SlotMap => slotmaps::SlotSys::new(cfg).map(Inner::S),
            Kind::FlatMap => flatmaps::FlatSys::new(cfg).map(Inner::F),
            Kind::Str | Kind::StrPushPop | Kind::StrInsertFront | Kind::StrRetain | Kind::StrUninit => strings::StrSys::new(cfg).map(Inner::T),
            Kind::Opt => opts::OptSys::new(cfg).map(Inner::O),
        };
        // no dedup here and for the empty sequence: the engine probes the root once (peek) before it
        // executes it, and the probe discards failures
        inner.map(|i| Sys { cfg: cfg.clone(), inner: Some(i), dead: false, steps: 0 })
    }

    fn enabled(&self, s: &Sys) -> Vec<Op> {
        if s.dead {
            return Vec::new();
        }
        match s.inner.as_ref().unwrap() {
            Inner::V(x) => x.enabled().into_iter().map(Op::V).collect(),
            Inner::Q(x) => x.enabled().into_iter().map(Op::Q).collect(),
            Inner::Q8(x) => x.enabled().into_iter().map(Op::Q).collect(),
            Inner::S(x) => x.enabled().into_iter().map(Op::S).collect(),
            Inner::F(x) => x.enabled().into_iter().map(Op::F).collect(),
            Inner::T(x) => x.enabled().into_iter().map(Op::T).collect(),
            Inner::O(x) => x.enabled().into_iter().map(Op::O).collect(),
        }
    }

    fn apply(&self, s: &mut Sys, op: &Op) -> Result<(), Fail> {
        if s.dead {
            return Ok(());
        }
        s.steps += 1;
        let r = match (s.inner.as_mut().unwrap(), op) {
            (Inner::V(x), Op::V(o)) => x.apply(o),
            (Inner::Q(x), Op::Q(o)) => x.apply(o),
            (Inner::Q8(x), Op::Q(o)) => x.apply(o),
            (Inner::S(x), Op::S(o)) => x.apply(o),
            (Inner::F(x), Op::F(o)) => x.apply(o),
            (Inner::T(x), Op::T(o)) => x.apply(o),
            (Inner::O(x), Op::O(o)) => x.apply(o),
            _ => Err(Fail::new("machinery", "apply", format!("operation {op:?} does not belong to configuration {:?}", s.cfg))),
        };
        match r {
            Ok(()) => Ok(()),
            Err(f) => {
                s.dead = true;
                let _ = elem::take_errors();
                dedup(f, s.steps)
            }
        }
    }

    fn finish(&self, mut s: Sys) -> Result<(), Fail> {
        let _ = &mut s;
        if s.dead {
            // the real object is leaked on purpose (ManuallyDrop inside)
            return Ok(());
        }
        let r = match s.inner.take().unwrap() {
            Inner::V(x) => x.finish(),
            Inner::Q(x) => x.finish(),
            Inner::Q8(x) => x.finish(),
            Inner::S(x) => x.finish(),
            Inner::F(x) => x.finish(),
            Inner::T(x) => x.finish(),
            Inner::O(x) => x.finish(),
        };
        match r {
            Ok(()) => Ok(()),
            Err(f) if s.steps == 0 => Err(f),
            Err(f) => dedup(f, s.steps),
        }
    }

    fn model_key(&self, s: &Sys) -> u64 {
        let k = match s.inner.as_ref() {
            None => 0,
            Some(Inner::V(x)) => x.key(),
            Some(Inner::Q(x)) => x.key(),
            Some(Inner::Q8(x)) => x.key(),
            Some(Inner::S(x)) => x.key(),
            Some(Inner::F(x)) => x.key(),
            Some(Inner::T(x)) => x.key(),
            Some(Inner::O(x)) => x.key(),
        };
        seqx::hash_of(&(s.cfg.kind, s.cfg.flavour, s.cfg.cap, k, s.dead))
    }

    fn nontrivial(&self, s: &Sys) -> bool {
        !s.dead
    }

    fn max_violations_per_worker(&self) -> usize {
        // only new signatures and shorter witnesses are reported (see dedup), so this is never reached
        1000
    }
}

fn main() {
    seqx::main(H);
}
