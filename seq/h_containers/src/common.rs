//! Shared plumbing: configuration / operation types, guarded calls into the real code, failure helpers.

use seqx::Fail;
use serde::{Deserialize, Serialize};

use crate::elem;

#[derive(Clone, Copy, Debug, PartialEq, Eq, Hash, Serialize, Deserialize)]
pub enum Kind {
    Vec,
    Queue,
    /// queue of `u8` (the only way to reach `get(i)`, which needs `T: Copy`)
    QueueU8,
    SlotMap,
    FlatMap,
    Str,
    /// for every byte b: [push(b)], [push(b), pop]
    StrPushPop,
    /// for every byte b: [push(a), insert(0, b)]
    StrInsertFront,
    /// heap-backed / relocatable string over memory that is not zeroed (0xAA); small alphabet
    StrUninit,
    /// `retain` only (its implementation contradicts its documentation on every call)
    StrRetain,
    Opt,
}

#[derive(Clone, Copy, Debug, PartialEq, Eq, Hash, Serialize, Deserialize)]
pub enum Flavour {
    /// compile-time capacity, storage inline: StaticVec / FixedSizeQueue / FixedSizeSlotMap / FixedSizeFlatMap / StaticString
    Inline,
    /// run-time capacity, storage from a heap(-like) allocator: PolymorphicVec / Queue / SlotMap / FlatMap / PolymorphicString
    Heap,
    /// run-time capacity, relocatable: Relocatable{Vec,Queue,SlotMap,FlatMap,String} via new_uninit + init(&BumpAllocator)
    Reloc,
}

#[derive(Clone, Debug, Serialize, Deserialize)]
pub struct Cfg {
    pub kind: Kind,
    pub flavour: Flavour,
    pub cap: usize,
    /// operation group (sub-alphabet); 0 = the whole alphabet of the kind
    pub group: u8,
}

/// Stable name of a call site / input class: "<kind>.<operation>[<class>,<class>]". Built from
/// static pieces so that it costs nothing unless a failure is reported.
#[derive(Clone, Copy, Debug)]
pub struct Site(pub &'static str, pub &'static str, pub &'static str);

impl Site {
    pub fn text(&self) -> String {
        match (self.1.is_empty(), self.2.is_empty()) {
            (true, true) => self.0.to_string(),
            (false, true) => format!("{}[{}]", self.0, self.1),
            (true, false) => format!("{}[{}]", self.0, self.2),
            (false, false) => format!("{}[{},{}]", self.0, self.1, self.2),
        }
    }
}

impl From<&Site> for String {
    fn from(s: &Site) -> String {
        s.text()
    }
}

impl From<Site> for String {
    fn from(s: Site) -> String {
        s.text()
    }
}

pub fn flavour_name(f: Flavour) -> &'static str {
    match f {
        Flavour::Inline => "Inline",
        Flavour::Heap => "Heap",
        Flavour::Reloc => "Reloc",
    }
}

pub fn cap_class(cap: usize) -> &'static str {
    if cap == 0 {
        "cap0"
    } else {
        "cap>0"
    }
}

pub fn panic_message(p: Box<dyn std::any::Any + Send>) -> String {
    if let Some(s) = p.downcast_ref::<&str>() {
        s.to_string()
    } else if let Some(s) = p.downcast_ref::<String>() {
        s.clone()
    } else {
        "panic with non-string payload".to_string()
    }
}

/// Calls into the real code. A panic becomes a `panic` failure with the precise site; element
/// life-time errors recorded during the call become an `elem-lifetime` failure.
pub fn real<R>(site: &Site, f: impl FnOnce() -> R) -> Result<R, Fail> {
    let r = match std::panic::catch_unwind(std::panic::AssertUnwindSafe(f)) {
        Ok(r) => r,
        Err(p) => {
            let _ = elem::take_errors();
            return Err(Fail::new("panic", site, first_line(&panic_message(p))));
        }
    };
    check_elems(site)?;
    Ok(r)
}

/// Same, for a call that is documented to panic: Ok(None) = it panicked as documented.
pub fn real_may_panic<R>(site: &Site, f: impl FnOnce() -> R) -> Result<Option<R>, Fail> {
    let r = std::panic::catch_unwind(std::panic::AssertUnwindSafe(f)).ok();
    check_elems(site)?;
    Ok(r)
}

fn first_line(s: &str) -> String {
    // messages of the repository's fatal_panic! carry type names and values but no addresses
    s.lines().next().unwrap_or("").chars().take(300).collect()
}

pub fn check_elems(site: &Site) -> Result<(), Fail> {
    match elem::take_errors() {
        Some(e) => Err(Fail::new("elem-lifetime", site, e)),
        None => Ok(()),
    }
}

/// number of live elements == what the model says must be alive (stored + held by the harness)
pub fn check_live(site: &Site, expected: usize) -> Result<(), Fail> {
    let live = elem::live_count();
    if live != expected {
        let what = if live > expected { "an element that had to be dropped is still alive (leak)" } else { "an element that is still stored was dropped" };
        return Err(Fail::new("live-count", site, format!("{live} live elements, model expects {expected}: {what}; live (id,val): {:?}", elem::live_list())));
    }
    Ok(())
}

/// after the container itself was dropped
pub fn check_all_dropped(site: &Site) -> Result<(), Fail> {
    check_elems(site)?;
    let live = elem::live_list();
    if !live.is_empty() {
        return Err(Fail::new("drop-count", site, format!("elements never dropped although the container was dropped (id,val): {live:?}")));
    }
    let out = crate::mem::outstanding();
    if out != 0 {
        return Err(Fail::new("alloc-balance", site, format!("{out} allocation(s) of the container's allocator were not returned")));
    }
    Ok(())
}

#[macro_export]
macro_rules! expect_eq {
    ($real:expr, $model:expr, $tag:expr, $site:expr, $what:expr) => {{
        let (r, m) = (&$real, &$model);
        if r != m {
            return Err(seqx::Fail::new($tag, $site, format!("{}: real {:?}, model {:?}", $what, r, m)));
        }
    }};
}
