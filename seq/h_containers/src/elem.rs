//! Drop-tracking element type and the per-execution error log.
//!
//! Every `Elem` ever created in an execution gets a unique id in a thread-local registry. An element
//! is *live* from creation until its `Drop` runs. Dropping a non-live element (double drop, drop of
//! garbage memory), reading the value of a non-live element (use after drop, read of uninitialised
//! memory) or cloning one is recorded as an error; the harness turns recorded errors into a `Fail`
//! right after the operation that caused them.

use std::cell::RefCell;

#[derive(Default)]
struct Registry {
    /// 1 = live, 0 = dropped, indexed by id
    live: Vec<u8>,
    vals: Vec<u8>,
    /// ids in the order in which they were dropped
    drop_log: Vec<u32>,
    errors: Vec<String>,
}

thread_local! {
    static REG: RefCell<Registry> = RefCell::new(Registry::default());
}

fn with<R>(f: impl FnOnce(&mut Registry) -> R) -> Option<R> {
    REG.try_with(|r| match r.try_borrow_mut() {
        Ok(mut g) => Some(f(&mut g)),
        Err(_) => None,
    })
    .ok()
    .flatten()
}

/// start of an execution
pub fn reset() {
    with(|r| {
        r.live.clear();
        r.vals.clear();
        r.drop_log.clear();
        r.errors.clear();
    });
}

pub fn error(msg: String) {
    with(|r| {
        if r.errors.len() < 8 {
            r.errors.push(msg)
        }
    });
}

pub fn take_errors() -> Option<String> {
    with(|r| if r.errors.is_empty() { None } else { Some(std::mem::take(&mut r.errors).join("; ")) }).flatten()
}

pub fn created() -> u32 {
    with(|r| r.live.len() as u32).unwrap_or(0)
}

pub fn live_count() -> usize {
    with(|r| r.live.iter().filter(|&&l| l == 1).count()).unwrap_or(0)
}

/// (id, val) of every live element
pub fn live_list() -> Vec<(u32, u8)> {
    with(|r| r.live.iter().enumerate().filter(|(_, &l)| l == 1).map(|(i, _)| (i as u32, r.vals[i])).collect()).unwrap_or_default()
}

pub fn drop_log_len() -> usize {
    with(|r| r.drop_log.len()).unwrap_or(0)
}

pub fn drop_log_from(start: usize) -> Vec<u32> {
    with(|r| r.drop_log[start.min(r.drop_log.len())..].to_vec()).unwrap_or_default()
}

/// The payload type of all non-string containers. 8 bytes, alignment 4; memory that was never
/// initialised is poisoned with 0xAA by the harness and therefore decodes to an id that was never
/// handed out.
pub struct Elem {
    id: u32,
    val: u8,
}

impl std::fmt::Debug for Elem {
    fn fmt(&self, f: &mut std::fmt::Formatter<'_>) -> std::fmt::Result {
        // must not touch the registry: containers print elements in failure paths
        write!(f, "Elem#{}({})", self.id, self.val)
    }
}

impl Elem {
    pub fn new(val: u8) -> Elem {
        let id = with(|r| {
            r.live.push(1);
            r.vals.push(val);
            (r.live.len() - 1) as u32
        })
        .unwrap_or(u32::MAX);
        Elem { id, val }
    }

    fn check(&self, what: &str) -> bool {
        let (id, val) = (self.id, self.val);
        with(|r| {
            let ok = (id as usize) < r.live.len() && r.live[id as usize] == 1 && r.vals[id as usize] == val;
            if !ok && r.errors.len() < 8 {
                let why = if (id as usize) >= r.live.len() {
                    "was never created (uninitialised or overwritten memory)"
                } else if r.live[id as usize] != 1 {
                    "was already dropped"
                } else {
                    "has a corrupted value"
                };
                // garbage is printed in hex only: the replay comparison ignores hex numbers, which may differ between processes
                r.errors.push(format!("{what} of element id {id:#x} val {val:#x} that {why}"));
            }
            ok
        })
        .unwrap_or(false)
    }

    /// value; records an error if the element is not live
    pub fn val(&self) -> u8 {
        self.check("read");
        self.val
    }

    /// (id, value); records an error if the element is not live
    pub fn ident(&self) -> (u32, u8) {
        self.check("read");
        (self.id, self.val)
    }
}

impl Drop for Elem {
    fn drop(&mut self) {
        if self.check("drop") {
            let id = self.id;
            with(|r| {
                r.live[id as usize] = 0;
                r.drop_log.push(id);
            });
        }
    }
}

impl Clone for Elem {
    fn clone(&self) -> Elem {
        self.check("clone");
        Elem::new(self.val)
    }
}

impl PartialEq for Elem {
    fn eq(&self, other: &Elem) -> bool {
        self.check("compare");
        other.check("compare");
        self.val == other.val
    }
}

impl Eq for Elem {}
