//! FlatMap flavours: FixedSizeFlatMap<Elem, Elem, N>, FlatMap<Elem, Elem> (heap), RelocatableFlatMap<Elem, Elem>.
//! Keys and values are drop-tracked elements (keys compare by value). Reference model: BTreeMap.

use std::collections::BTreeMap;
use std::mem::ManuallyDrop;

use iceoryx2_bb_container::flatmap::{FixedSizeFlatMap, FlatMap, FlatMapError, RelocatableFlatMap};
use iceoryx2_bb_elementary::CallbackProgression;
use seqx::Fail;
use serde::{Deserialize, Serialize};

use crate::common::*;
use crate::elem::Elem;
use crate::expect_eq;
use crate::mem::Reloc;

#[derive(Clone, Debug, Serialize, Deserialize)]
pub enum FlatOp {
    /// insert(key, value = 10 + key)
    Insert(u8),
    Remove(u8),
}

type Id = (u32, u8);

pub trait FlatOps {
    fn insert(&mut self, k: Elem, v: Elem) -> Result<(), FlatMapError>;
    fn remove(&mut self, k: &Elem) -> Option<Elem>;
    fn get(&self, k: &Elem) -> Option<Elem>;
    fn get_ref(&self, k: &Elem) -> Option<Id>;
    fn get_mut_ref(&mut self, k: &Elem) -> Option<Id>;
    fn contains(&self, k: &Elem) -> bool;
    fn keys(&self) -> Vec<Id>;
    fn keys_stop_after_first(&self) -> usize;
    fn len(&self) -> usize;
    fn is_empty(&self) -> bool;
    fn is_full(&self) -> bool;
}

macro_rules! impl_flat_ops {
    ($t:ty, $s:ident, $r:expr, $m:expr) => {
        #[allow(unused_unsafe)]
        impl FlatOps for $t {
            fn insert(&mut self, k: Elem, v: Elem) -> Result<(), FlatMapError> {
                let $s = self;
                unsafe { $m.insert(k, v) }
            }
            fn remove(&mut self, k: &Elem) -> Option<Elem> {
                let $s = self;
                unsafe { $m.remove(k) }
            }
            fn get(&self, k: &Elem) -> Option<Elem> {
                let $s = self;
                unsafe { $r.get(k) }
            }
            fn get_ref(&self, k: &Elem) -> Option<Id> {
                let $s = self;
                unsafe { $r.get_ref(k) }.map(|e| e.ident())
            }
            fn get_mut_ref(&mut self, k: &Elem) -> Option<Id> {
                let $s = self;
                unsafe { $m.get_mut_ref(k) }.map(|e| e.ident())
            }
            fn contains(&self, k: &Elem) -> bool {
                let $s = self;
                unsafe { $r.contains(k) }
            }
            fn keys(&self) -> Vec<Id> {
                let $s = self;
                let mut v = Vec::new();
                $r.list_keys(|k| {
                    v.push(k.ident());
                    CallbackProgression::Continue
                });
                v
            }
            fn keys_stop_after_first(&self) -> usize {
                let $s = self;
                let mut n = 0;
                $r.list_keys(|_| {
                    n += 1;
                    CallbackProgression::Stop
                });
                n
            }
            fn len(&self) -> usize {
                let $s = self;
                $r.len()
            }
            fn is_empty(&self) -> bool {
                let $s = self;
                $r.is_empty()
            }
            fn is_full(&self) -> bool {
                let $s = self;
                $r.is_full()
            }
        }
    };
}

impl_flat_ops!(FixedSizeFlatMap<Elem, Elem, 0>, s, s, s);
impl_flat_ops!(FixedSizeFlatMap<Elem, Elem, 1>, s, s, s);
impl_flat_ops!(FixedSizeFlatMap<Elem, Elem, 2>, s, s, s);
impl_flat_ops!(FixedSizeFlatMap<Elem, Elem, 3>, s, s, s);
impl_flat_ops!(FixedSizeFlatMap<Elem, Elem, 4>, s, s, s);
impl_flat_ops!(FlatMap<Elem, Elem>, s, s, s);
impl_flat_ops!(Reloc<RelocatableFlatMap<Elem, Elem>>, s, s.get(), s.get_mut());

pub fn min_cap(f: Flavour) -> usize {
    match f {
        Flavour::Inline | Flavour::Heap => 0,
        // RelocatableFlatMap::init fails with AllocationError::SizeIsZero for capacity 0
        Flavour::Reloc => 1,
    }
}

fn construct(f: Flavour, cap: usize) -> Result<Box<dyn FlatOps>, Fail> {
    let site = Site("flatmap.new", flavour_name(f), cap_class(cap));
    real(&site, || -> Result<Box<dyn FlatOps>, Fail> {
        Ok(match f {
            Flavour::Inline => match cap {
                0 => Box::new(FixedSizeFlatMap::<Elem, Elem, 0>::new()),
                1 => Box::new(FixedSizeFlatMap::<Elem, Elem, 1>::new()),
                2 => Box::new(FixedSizeFlatMap::<Elem, Elem, 2>::new()),
                3 => Box::new(FixedSizeFlatMap::<Elem, Elem, 3>::new()),
                4 => Box::new(FixedSizeFlatMap::<Elem, Elem, 4>::new()),
                _ => unreachable!(),
            },
            Flavour::Heap => Box::new(FlatMap::<Elem, Elem>::new(cap)),
            Flavour::Reloc => Box::new(Reloc::<RelocatableFlatMap<Elem, Elem>>::new(cap).map_err(|e| Fail::new("construct", site, e))?),
        })
    })?
}

pub struct FlatSys {
    real: ManuallyDrop<Box<dyn FlatOps>>,
    /// key value -> (key element, value element)
    model: BTreeMap<u8, (Id, Id)>,
    cap: usize,
}

impl FlatSys {
    pub fn new(cfg: &Cfg) -> Result<FlatSys, Fail> {
        let real = construct(cfg.flavour, cfg.cap)?;
        let mut s = FlatSys { real: ManuallyDrop::new(real), model: BTreeMap::new(), cap: cfg.cap };
        s.observe(&Site("flatmap.new", "", ""))?;
        Ok(s)
    }

    pub fn key(&self) -> u64 {
        seqx::hash_of(&self.model.keys().copied().collect::<Vec<u8>>())
    }

    /// one key more than fits, so that "full" and "new key" can coincide
    fn keys(&self) -> u8 {
        self.cap as u8 + 1
    }

    pub fn enabled(&self) -> Vec<FlatOp> {
        let mut v = Vec::new();
        for k in 0..self.keys() {
            v.push(FlatOp::Insert(k));
        }
        for k in 0..self.keys() {
            v.push(FlatOp::Remove(k));
        }
        v
    }

    pub fn apply(&mut self, op: &FlatOp) -> Result<(), Fail> {
        let c = self.cap;
        let full = self.model.len() == c;
        let site: Site;
        match *op {
            FlatOp::Insert(k) => {
                let exists = self.model.contains_key(&k);
                site = Site("flatmap.insert", if exists { "key exists" } else { "new key" }, if c == 0 { "cap0" } else if full { "full" } else { "" });
                let (ke, ve) = (Elem::new(k), Elem::new(10 + k));
                let ids = (ke.ident(), ve.ident());
                let r = real(&site, || self.real.insert(ke, ve))?;
                if exists && full {
                    // both documented errors apply; the documentation gives no precedence
                    if r.is_ok() {
                        return Err(Fail::new("return", &site, "insert of an existing key into a full map returned Ok"));
                    }
                } else if exists {
                    expect_eq!(r, Err(FlatMapError::KeyAlreadyExists), "return", &site, "insert of an existing key");
                } else if full {
                    expect_eq!(r, Err(FlatMapError::IsFull), "return", &site, "insert into a full map");
                } else {
                    expect_eq!(r, Ok(()), "return", &site, "insert");
                    self.model.insert(k, ids);
                }
            }
            FlatOp::Remove(k) => {
                site = Site("flatmap.remove", if self.model.contains_key(&k) { "key exists" } else { "no such key" }, "");
                let probe = Elem::new(k);
                let r = real(&site, || self.real.remove(&probe))?;
                drop(probe);
                let m = self.model.remove(&k).map(|e| e.1);
                expect_eq!(r.as_ref().map(|e| e.ident()), m, "return", &site, "remove (documented: the value stored at the key)");
                drop(r);
            }
        }
        self.observe(&site)
    }

    fn observe(&mut self, site: &Site) -> Result<(), Fail> {
        let n = self.model.len();
        let (len, is_empty, is_full, mut keys, stop) =
            real(site, || (self.real.len(), self.real.is_empty(), self.real.is_full(), self.real.keys(), self.real.keys_stop_after_first()))?;
        expect_eq!(len, n, "len", site, "len()");
        expect_eq!(is_empty, n == 0, "flags", site, "is_empty()");
        expect_eq!(is_full, n == self.cap, "flags", site, "is_full()");
        // the order of list_keys is not documented
        keys.sort_by_key(|e| e.1);
        let want: Vec<Id> = self.model.values().map(|e| e.0).collect();
        expect_eq!(keys, want, "content", site, "list_keys() (sorted)");
        expect_eq!(stop, n.min(1), "content", site, "number of callbacks of list_keys() when the callback returns Stop");
        for k in 0..self.keys() {
            let probe = Elem::new(k);
            let m = self.model.get(&k).copied();
            let (g, gr, gm, ct) = real(site, || {
                let g = self.real.get(&probe);
                let gv = g.as_ref().map(|e| e.val());
                drop(g);
                (gv, self.real.get_ref(&probe), self.real.get_mut_ref(&probe), self.real.contains(&probe))
            })?;
            drop(probe);
            expect_eq!(g, m.map(|e| e.1 .1), "content", site, format!("value of the copy returned by get({k})"));
            expect_eq!(gr, m.map(|e| e.1), "content", site, format!("get_ref({k})"));
            expect_eq!(gm, m.map(|e| e.1), "content", site, format!("get_mut_ref({k})"));
            expect_eq!(ct, m.is_some(), "content", site, format!("contains({k})"));
        }
        check_live(site, 2 * n)
    }

    pub fn finish(mut self) -> Result<(), Fail> {
        let site = &Site("flatmap.drop", "", "");
        real(site, || unsafe { ManuallyDrop::drop(&mut self.real) })?;
        check_all_dropped(site)
    }
}
