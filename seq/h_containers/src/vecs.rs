//! Vector flavours: StaticVec<Elem, N>, PolymorphicVec<Elem, PoisonAlloc>, RelocatableVec<Elem>.
//! Reference model: Vec<(element id, value)>.

use std::mem::ManuallyDrop;

use iceoryx2_bb_container::vector::{PolymorphicVec, RelocatableVec, StaticVec, Vector, VectorModificationError};
use seqx::Fail;
use serde::{Deserialize, Serialize};

use crate::common::*;
use crate::elem::{self, Elem};
use crate::expect_eq;
use crate::mem::{Reloc, PALLOC, PoisonAlloc};

#[derive(Clone, Debug, Serialize, Deserialize)]
pub enum VecOp {
    Push(u8),
    Pop,
    Insert(usize, u8),
    Remove(usize),
    Clear,
    Truncate(usize),
    Resize(usize, u8),
    /// extend_from_slice(&[v, v+1, ...]) with the given number of elements
    Extend(usize, u8),
}

#[derive(Debug, PartialEq)]
pub struct VecObs {
    len: usize,
    is_empty: bool,
    is_full: bool,
    capacity: usize,
    as_slice: Vec<(u32, u8)>,
    deref_iter: Vec<(u32, u8)>,
}

type R = Result<(), VectorModificationError>;

pub trait VecOps {
    fn v_push(&mut self, e: Elem) -> R;
    fn v_pop(&mut self) -> Option<Elem>;
    fn v_insert(&mut self, i: usize, e: Elem) -> R;
    fn v_remove(&mut self, i: usize) -> Option<Elem>;
    fn v_clear(&mut self);
    fn v_truncate(&mut self, n: usize);
    fn v_resize(&mut self, n: usize, e: Elem) -> R;
    fn v_extend_from_slice(&mut self, s: &[Elem]) -> R;
    fn obs(&self) -> VecObs;
}

fn obs_of<V: Vector<Elem>>(v: &V) -> VecObs {
    VecObs {
        len: v.len(),
        is_empty: v.is_empty(),
        is_full: v.is_full(),
        capacity: v.capacity(),
        as_slice: v.as_slice().iter().map(|e| e.ident()).collect(),
        deref_iter: v.iter().map(|e| e.ident()).collect(),
    }
}

macro_rules! impl_vec_ops {
    ($t:ty, $s:ident, $r:expr, $m:expr) => {
        impl VecOps for $t {
            fn v_push(&mut self, e: Elem) -> R {
                let $s = self;
                $m.push(e)
            }
            fn v_pop(&mut self) -> Option<Elem> {
                let $s = self;
                $m.pop()
            }
            fn v_insert(&mut self, i: usize, e: Elem) -> R {
                let $s = self;
                $m.insert(i, e)
            }
            fn v_remove(&mut self, i: usize) -> Option<Elem> {
                let $s = self;
                $m.remove(i)
            }
            fn v_clear(&mut self) {
                let $s = self;
                $m.clear()
            }
            fn v_truncate(&mut self, n: usize) {
                let $s = self;
                $m.truncate(n)
            }
            fn v_resize(&mut self, n: usize, e: Elem) -> R {
                let $s = self;
                $m.resize(n, e)
            }
            fn v_extend_from_slice(&mut self, sl: &[Elem]) -> R {
                let $s = self;
                $m.extend_from_slice(sl)
            }
            fn obs(&self) -> VecObs {
                let $s = self;
                obs_of($r)
            }
        }
    };
}

impl_vec_ops!(StaticVec<Elem, 0>, s, s, s);
impl_vec_ops!(StaticVec<Elem, 1>, s, s, s);
impl_vec_ops!(StaticVec<Elem, 2>, s, s, s);
impl_vec_ops!(StaticVec<Elem, 3>, s, s, s);
impl_vec_ops!(StaticVec<Elem, 4>, s, s, s);
impl_vec_ops!(PolymorphicVec<'static, Elem, PoisonAlloc>, s, s, s);
impl_vec_ops!(Reloc<RelocatableVec<Elem>>, s, s.get(), s.get_mut());

pub fn min_cap(f: Flavour) -> usize {
    match f {
        Flavour::Inline => 0,
        // PolymorphicVec::new / RelocatableVec::init fail with AllocationError::SizeIsZero for capacity 0
        Flavour::Heap | Flavour::Reloc => 1,
    }
}

fn construct(f: Flavour, cap: usize) -> Result<Box<dyn VecOps>, Fail> {
    let site = Site("vec.new", flavour_name(f), cap_class(cap));
    real(&site, || -> Result<Box<dyn VecOps>, Fail> {
        Ok(match f {
            Flavour::Inline => match cap {
                0 => Box::new(StaticVec::<Elem, 0>::new()),
                1 => Box::new(StaticVec::<Elem, 1>::new()),
                2 => Box::new(StaticVec::<Elem, 2>::new()),
                3 => Box::new(StaticVec::<Elem, 3>::new()),
                4 => Box::new(StaticVec::<Elem, 4>::new()),
                _ => unreachable!(),
            },
            Flavour::Heap => Box::new(PolymorphicVec::<Elem, PoisonAlloc>::new(&PALLOC, cap).map_err(|e| Fail::new("construct", site, format!("{e:?}")))?),
            Flavour::Reloc => Box::new(Reloc::<RelocatableVec<Elem>>::new(cap).map_err(|e| Fail::new("construct", site, e))?),
        })
    })?
}

pub struct VecSys {
    real: ManuallyDrop<Box<dyn VecOps>>,
    /// (id, value); id u32::MAX = a clone made by the container whose id is adopted at the next observation
    model: Vec<(u32, u8)>,
    cap: usize,
    group: u8,
}

const FRESH: u32 = u32::MAX;

impl VecSys {
    pub fn new(cfg: &Cfg) -> Result<VecSys, Fail> {
        let real = construct(cfg.flavour, cfg.cap)?;
        let s = VecSys { real: ManuallyDrop::new(real), model: Vec::new(), cap: cfg.cap, group: cfg.group };
        Ok(s)
    }

    pub fn key(&self) -> u64 {
        seqx::hash_of(&self.model.iter().map(|e| e.1).collect::<Vec<u8>>())
    }

    pub fn enabled(&self) -> Vec<VecOp> {
        let (l, c) = (self.model.len(), self.cap);
        let mut v = Vec::new();
        // group 0: everything; 1: positional (push/pop/insert/remove/clear); 2: bulk (push/pop/truncate/resize/extend/clear)
        let (positional, bulk) = (self.group != 2, self.group != 1);
        v.push(VecOp::Push(0));
        v.push(VecOp::Push(1));
        v.push(VecOp::Pop);
        v.push(VecOp::Clear);
        if positional {
            for i in 0..=l + 1 {
                v.push(VecOp::Insert(i, 2));
            }
            for i in 0..=l {
                v.push(VecOp::Remove(i));
            }
        }
        if bulk {
            for n in 0..=l {
                v.push(VecOp::Truncate(n));
            }
            for n in 0..=c + 1 {
                v.push(VecOp::Resize(n, 3));
            }
            let rem = c - l;
            let mut ks = vec![0, 1, 2];
            if rem + 1 > 2 {
                ks.push(rem + 1);
            }
            for k in ks {
                v.push(VecOp::Extend(k, 4));
            }
        }
        v
    }

    pub fn apply(&mut self, op: &VecOp) -> Result<(), Fail> {
        let (l, c) = (self.model.len(), self.cap);
        let full = l == c;
        let fresh_from = elem::created();
        let site: Site;
        match *op {
            VecOp::Push(v) => {
                site = Site("vec.push", if full { "full" } else { "room" }, "");
                let e = Elem::new(v);
                let id = e.ident().0;
                let r = real(&site, || self.real.v_push(e))?;
                if full {
                    expect_eq!(r, Err(VectorModificationError::InsertWouldExceedCapacity), "return", &site, "push on a full vector");
                } else {
                    expect_eq!(r, Ok(()), "return", &site, "push");
                    self.model.push((id, v));
                }
            }
            VecOp::Pop => {
                site = Site("vec.pop", if l == 0 { "empty" } else { "nonempty" }, "");
                let r = real(&site, || self.real.v_pop())?;
                let m = self.model.pop();
                expect_eq!(r.as_ref().map(|e| e.ident()), m, "return", &site, "pop");
                drop(r);
            }
            VecOp::Insert(i, v) => {
                let cls = if i < l { "idx<len" } else if i == l { "idx==len" } else { "idx>len" };
                site = Site("vec.insert", cls, if full { "full" } else { "" });
                let e = Elem::new(v);
                let id = e.ident().0;
                let r = real(&site, || self.real.v_insert(i, e))?;
                if full && i > l {
                    // both documented errors apply; the documentation gives no precedence
                    if r.is_ok() {
                        return Err(Fail::new("return", &site, "insert out of bounds into a full vector returned Ok"));
                    }
                } else if full {
                    expect_eq!(r, Err(VectorModificationError::InsertWouldExceedCapacity), "return", &site, "insert into a full vector");
                } else if i > l {
                    expect_eq!(r, Err(VectorModificationError::OutOfBounds), "return", &site, "insert behind the end");
                } else {
                    expect_eq!(r, Ok(()), "return", &site, "insert");
                    self.model.insert(i, (id, v));
                }
            }
            VecOp::Remove(i) => {
                site = Site("vec.remove", if i < l { "idx<len" } else { "idx>=len" }, "");
                let r = real(&site, || self.real.v_remove(i))?;
                let m = if i < l { Some(self.model.remove(i)) } else { None };
                expect_eq!(r.as_ref().map(|e| e.ident()), m, "return", &site, "remove");
                drop(r);
            }
            VecOp::Clear => {
                site = Site("vec.clear", "", "");
                real(&site, || self.real.v_clear())?;
                self.model.clear();
            }
            VecOp::Truncate(n) => {
                site = Site("vec.truncate", if n < l { "n<len" } else { "n>=len" }, "");
                let log = elem::drop_log_len();
                real(&site, || self.real.v_truncate(n))?;
                if n < l {
                    // "drops all elements right of len in reverse order"
                    let want: Vec<u32> = self.model[n..].iter().rev().map(|e| e.0).collect();
                    let got = elem::drop_log_from(log);
                    expect_eq!(got, want, "drop-order", &site, "ids dropped by truncate (documented: reverse order)");
                    self.model.truncate(n);
                }
            }
            VecOp::Resize(n, v) => {
                let cls = if n > c { "n>cap" } else if n < l { "n<len" } else if n == l { "n==len" } else { "n>len" };
                site = Site("vec.resize", cls, "");
                let e = Elem::new(v);
                let r = real(&site, || self.real.v_resize(n, e))?;
                if n > c {
                    expect_eq!(r, Err(VectorModificationError::InsertWouldExceedCapacity), "return", &site, "resize above the capacity");
                } else {
                    expect_eq!(r, Ok(()), "return", &site, "resize");
                    if n < l {
                        self.model.truncate(n);
                    } else {
                        self.model.resize(n, (FRESH, v));
                    }
                }
            }
            VecOp::Extend(k, v) => {
                let fits = l + k <= c;
                site = Site("vec.extend_from_slice", if fits { "fits" } else { "exceeds" }, if k == 0 { "empty" } else { "" });
                let src: Vec<Elem> = (0..k).map(|j| Elem::new(v + j as u8)).collect();
                let r = real(&site, || self.real.v_extend_from_slice(&src))?;
                drop(src);
                if fits {
                    expect_eq!(r, Ok(()), "return", &site, "extend_from_slice");
                    for j in 0..k {
                        self.model.push((FRESH, v + j as u8));
                    }
                } else {
                    expect_eq!(r, Err(VectorModificationError::InsertWouldExceedCapacity), "return", &site, "extend_from_slice above the capacity");
                }
            }
        }
        self.observe(&site, fresh_from)
    }

    /// full observation against the model; adopts the ids of clones made by the container
    fn observe(&mut self, site: &Site, fresh_from: u32) -> Result<(), Fail> {
        let o = real(site, || self.real.obs())?;
        let l = self.model.len();
        expect_eq!(o.len, l, "len", site, "len()");
        expect_eq!(o.is_empty, l == 0, "flags", site, "is_empty()");
        expect_eq!(o.is_full, l == self.cap, "flags", site, "is_full()");
        expect_eq!(o.capacity, self.cap, "flags", site, "capacity()");
        expect_eq!(o.as_slice, o.deref_iter, "content", site, "as_slice() vs. iteration over deref()");
        let vals_r: Vec<u8> = o.as_slice.iter().map(|e| e.1).collect();
        let vals_m: Vec<u8> = self.model.iter().map(|e| e.1).collect();
        expect_eq!(vals_r, vals_m, "content", site, "values in iteration order");
        for (i, (r, m)) in o.as_slice.iter().zip(self.model.iter_mut()).enumerate() {
            if m.0 == FRESH {
                if r.0 < fresh_from {
                    return Err(Fail::new("content", site, format!("position {i} must hold a new clone but holds the older element id {}", r.0)));
                }
                m.0 = r.0;
            } else if m.0 != r.0 {
                return Err(Fail::new("content", site, format!("position {i} holds element id {} but the model expects id {} (same value, different element)", r.0, m.0)));
            }
        }
        let mut ids: Vec<u32> = self.model.iter().map(|e| e.0).collect();
        ids.sort_unstable();
        ids.dedup();
        if ids.len() != l {
            return Err(Fail::new("content", site, "the same element is stored twice"));
        }
        check_live(site, l)
    }

    pub fn finish(mut self) -> Result<(), Fail> {
        let site = &Site("vec.drop", "", "");
        real(site, || unsafe { ManuallyDrop::drop(&mut self.real) })?;
        check_all_dropped(site)
    }
}
