//! Backing memory for the heap-backed ("polymorphic") and relocatable flavours.
//!
//! Both hand out memory filled with 0xAA (never zeroed, never containing a plausible element) and
//! keep a guard zone behind every block whose bytes must still be 0xAA when the block is released,
//! so reads of uninitialised memory and writes behind the capacity become observable.

use std::alloc::Layout;
use std::cell::RefCell;
use std::marker::PhantomData;
use std::ptr::NonNull;

use iceoryx2_bb_elementary::bump_allocator::BumpAllocator;
use iceoryx2_bb_elementary_traits::allocator::{Allocate, AllocationError, Deallocate};
use iceoryx2_bb_elementary_traits::relocatable_container::RelocatableContainer;

use crate::elem;

pub const POISON: u8 = 0xAA;
const GUARD: usize = 32;

thread_local! {
    /// (address, requested size, alignment) of every outstanding PoisonAlloc allocation
    static OUTSTANDING: RefCell<Vec<(usize, usize, usize)>> = const { RefCell::new(Vec::new()) };
}

thread_local! {
    /// what fresh memory handed to a container is filled with (the guard zones are always POISON)
    static FILL: std::cell::Cell<u8> = const { std::cell::Cell::new(POISON) };
}

pub fn set_fill(b: u8) {
    FILL.with(|f| f.set(b));
}

fn fill() -> u8 {
    FILL.with(|f| f.get())
}

pub fn reset() {
    // blocks of abandoned (failed) executions are leaked on purpose
    OUTSTANDING.with(|o| o.borrow_mut().clear());
}

pub fn outstanding() -> usize {
    OUTSTANDING.with(|o| o.borrow().len())
}

fn guard_intact(p: *const u8, from: usize) -> bool {
    (0..GUARD).all(|i| unsafe { *p.add(from + i) } == POISON)
}

/// Stateful allocator for `PolymorphicVec` / `PolymorphicString`. Like the repository's own
/// `HeapAllocator` and `BumpAllocator` it refuses zero-sized requests with `SizeIsZero`.
pub struct PoisonAlloc;

pub static PALLOC: PoisonAlloc = PoisonAlloc;

impl Allocate<NonNull<u8>> for PoisonAlloc {
    fn allocate(&self, layout: Layout) -> Result<NonNull<u8>, AllocationError> {
        if layout.size() == 0 {
            return Err(AllocationError::SizeIsZero);
        }
        let full = Layout::from_size_align(layout.size() + GUARD, layout.align()).map_err(|_| AllocationError::SizeTooLarge)?;
        let p = unsafe { std::alloc::alloc(full) };
        if p.is_null() {
            return Err(AllocationError::OutOfMemory);
        }
        unsafe {
            std::ptr::write_bytes(p, fill(), layout.size());
            std::ptr::write_bytes(p.add(layout.size()), POISON, GUARD);
        }
        OUTSTANDING.with(|o| o.borrow_mut().push((p as usize, layout.size(), layout.align())));
        Ok(unsafe { NonNull::new_unchecked(p) })
    }
}

impl Deallocate<NonNull<u8>> for PoisonAlloc {
    unsafe fn deallocate(&self, ptr: NonNull<u8>, layout: Layout) {
        let addr = ptr.as_ptr() as usize;
        let found = OUTSTANDING.with(|o| {
            let mut o = o.borrow_mut();
            o.iter().position(|e| e.0 == addr).map(|i| o.swap_remove(i))
        });
        match found {
            None => elem::error("deallocate() of a block that is not allocated (double free or foreign pointer)".into()),
            Some((_, size, align)) => {
                if size != layout.size() || align != layout.align() {
                    elem::error(format!(
                        "deallocate() with layout (size {}, align {}) of a block allocated with (size {size}, align {align})",
                        layout.size(),
                        layout.align()
                    ));
                }
                if !guard_intact(ptr.as_ptr(), size) {
                    elem::error(format!("the container wrote behind the end of its {size} byte allocation"));
                }
                unsafe { std::alloc::dealloc(ptr.as_ptr(), Layout::from_size_align_unchecked(size + GUARD, align)) };
            }
        }
    }
}

/// A relocatable container living at the start of one contiguous, 0xAA-poisoned heap block,
/// followed by exactly `C::memory_size(capacity)` bytes for its `init()` and a guard zone.
pub struct Reloc<C: RelocatableContainer> {
    block: *mut u8,
    layout: Layout,
    guard_at: usize,
    dropped: bool,
    _p: PhantomData<C>,
}

impl<C: RelocatableContainer> Reloc<C> {
    pub fn new(capacity: usize) -> Result<Self, String> {
        let hdr = std::mem::size_of::<C>().next_multiple_of(16).max(16);
        let payload = C::memory_size(capacity);
        let guard_at = hdr + payload;
        let layout = Layout::from_size_align(guard_at + GUARD, 64).unwrap();
        let block = unsafe { std::alloc::alloc(layout) };
        assert!(!block.is_null());
        unsafe {
            std::ptr::write_bytes(block, fill(), guard_at);
            std::ptr::write_bytes(block.add(guard_at), POISON, GUARD);
            std::ptr::write(block as *mut C, C::new_uninit(capacity));
            let bump = BumpAllocator::new(NonNull::new_unchecked(block.add(hdr)), payload);
            if let Err(e) = (*(block as *mut C)).init(&bump) {
                // never initialised: must not be dropped as a container
                std::alloc::dealloc(block, layout);
                return Err(format!("init() failed with {e:?} although memory_size({capacity}) = {payload} bytes were available"));
            }
        }
        Ok(Reloc { block, layout, guard_at, dropped: false, _p: PhantomData })
    }

    pub fn get(&self) -> &C {
        unsafe { &*(self.block as *const C) }
    }

    pub fn get_mut(&mut self) -> &mut C {
        unsafe { &mut *(self.block as *mut C) }
    }
}

impl<C: RelocatableContainer> Drop for Reloc<C> {
    fn drop(&mut self) {
        if !self.dropped {
            self.dropped = true;
            unsafe { std::ptr::drop_in_place(self.block as *mut C) };
            if !guard_intact(self.block, self.guard_at) {
                elem::error("the container wrote behind the memory it requested with memory_size()".into());
            }
            unsafe { std::alloc::dealloc(self.block, self.layout) };
        }
    }
}
