//! Self-test of the seqx engine on a toy subject (a bounded stack over std::Vec) with a planted
//! defect that is switched on by SEQX_SELFTEST_BUG=1|2|3: the engine must stay quiet on the
//! correct subject, find the logic bug (1), the panic (2) and the crash (3) and replay them.

use seqx::{ensure, Fail, Harness, Plan, Tier};
use serde::{Deserialize, Serialize};

#[derive(Clone, Debug, Serialize, Deserialize)]
struct Cfg {
    cap: usize,
}

#[derive(Clone, Debug, Serialize, Deserialize)]
enum Op {
    Push(u8),
    Pop,
    Len,
}

struct Sys {
    cap: usize,
    real: Vec<u8>,
    model: Vec<u8>,
    bug: u8,
}

struct H;

impl Harness for H {
    type Cfg = Cfg;
    type Op = Op;
    type Sys = Sys;
    fn name(&self) -> &'static str {
        "h_selftest"
    }
    fn property(&self) -> &'static str {
        "SELFTEST"
    }
    fn rule(&self) -> String {
        "all sequences of push/pop/len on a bounded stack".into()
    }
    fn configs(&self, tier: Tier) -> Vec<(Cfg, Plan)> {
        let d = if tier == Tier::Quick { 5 } else { 7 };
        (1..=3)
            .map(|cap| (Cfg { cap }, Plan { tree_depth: d, finish_prefixes: cap == 2, frontier: Some((1000, 12)), split: if cap == 3 { 3 } else { 1 } }))
            .collect()
    }
    fn new_sys(&self, cfg: &Cfg) -> Result<Sys, Fail> {
        let bug = std::env::var("SEQX_SELFTEST_BUG").ok().and_then(|s| s.parse().ok()).unwrap_or(0);
        Ok(Sys { cap: cfg.cap, real: Vec::new(), model: Vec::new(), bug })
    }
    fn enabled(&self, _s: &Sys) -> Vec<Op> {
        vec![Op::Push(0), Op::Push(1), Op::Pop, Op::Len]
    }
    fn apply(&self, s: &mut Sys, op: &Op) -> Result<(), Fail> {
        match op {
            Op::Push(v) => {
                let ok_model = s.model.len() < s.cap;
                if ok_model {
                    s.model.push(*v);
                }
                // subject
                let limit = if s.bug == 1 && s.real.len() == 2 && s.real[0] == 1 { s.cap + 1 } else { s.cap };
                let ok_real = s.real.len() < limit;
                if ok_real {
                    s.real.push(*v);
                }
                ensure!(ok_real == ok_model, "push-result", "push", "real {} model {}", ok_real, ok_model);
            }
            Op::Pop => {
                if s.bug == 2 && s.real == [1, 0, 1] {
                    panic!("planted panic");
                }
                if s.bug == 3 && s.real == [1, 1, 0] {
                    unsafe { std::ptr::null_mut::<u8>().write_volatile(1) };
                }
                let (a, b) = (s.real.pop(), s.model.pop());
                ensure!(a == b, "pop-result", "pop", "real {:?} model {:?}", a, b);
            }
            Op::Len => {
                ensure!(s.real.len() == s.model.len(), "len", "len", "real {} model {}", s.real.len(), s.model.len());
            }
        }
        Ok(())
    }
    fn model_key(&self, s: &Sys) -> u64 {
        seqx::hash_of(&s.model)
    }
}

fn main() {
    seqx::main(H);
}
