//! h_reloc – property C14: every data structure that iceoryx2 places in shared memory keeps
//! working, with identical observable behaviour, when the memory block containing it is copied
//! byte-for-byte to a different address (as happens in every other process that maps the segment).
//!
//! Every execution builds the structure twice, each in its own page-aligned block of anonymous mmap
//! memory (header at the block start, payload bump-allocated behind it in the same block): the *subject*, which the
//! operation `Relocate` copies to a fresh block (the old one becomes PROT_NONE and stays mapped, so
//! a stray absolute pointer faults), and the *twin*, which never moves. Oracles after every step:
//!   reloc-divergence  return value / observation of the subject != twin
//!   model             return value / observation of the twin != plain reference model
//!   absolute-address  an 8-byte word of the live block holds an address inside any block this
//!                     execution has mapped (not for the shm allocators, see cal.rs)
//!   panic / crash     (crash = SIGSEGV etc., reported by the engine)
//!
//! Self-test of the oracles (never touches /repo), environment variable H_RELOC_SELFTEST:
//!   1  after the first operation an absolute pointer into the live block is planted in the last
//!      word of the block                              -> `absolute-address` must fire
//!   2  `Relocate` copies only the structure header, not the payload -> `reloc-divergence` must fire

extern crate iceoryx2_bb_loggers;

mod cal;
mod containers;
mod lockfree;

use std::hash::Hash;
use std::panic::{catch_unwind, AssertUnwindSafe};
use std::ptr::NonNull;

use iceoryx2_bb_elementary::bump_allocator::BumpAllocator;
use iceoryx2_bb_elementary_traits::relocatable_container::RelocatableContainer;
use seqx::{Fail, Harness, Plan, Tier};
use serde::{Deserialize, Serialize};

pub const MAX_RELOCATIONS: u32 = 2;

#[derive(Clone, Copy, Debug, Serialize, Deserialize, PartialEq, Eq, Hash)]
pub enum Kind {
    Vec,
    Queue,
    Str,
    SlotMap,
    FlatMap,
    IndexQueue,
    SoIndexQueue,
    UniqueIndexSet,
    RobustUniqueIndexSet,
    BitSet,
    CountingBitSet,
    Container,
    UsedChunkList,
    ShmPool,
    ShmBump,
    ShmPoolGrow,
    ShmBumpGrow,
}

#[derive(Clone, Debug, Serialize, Deserialize)]
pub struct Cfg {
    kind: Kind,
    cap: usize,
}

#[derive(Clone, Debug, Serialize, Deserialize, PartialEq, Eq)]
pub enum Op {
    /// copy the block to a fresh address, PROT_NONE the old one, continue on the copy
    Relocate,
    Push(u64),
    Pop,
    Insert0(u64),
    Remove0,
    Clear,
    PushOverflow(u64),
    Insert(u64),
    RemoveKey(u64),
    InsertKV(u8, u64),
    Acquire,
    Release(u32),
    ReleaseLock(u32),
    ReleaseWrongOwner(u32),
    Set(usize),
    ResetNext,
    ResetAll,
    Add(u64),
    RemoveHandle(usize),
    RemoveHandleLock(usize),
    InsertIdx(usize),
    RemoveIdx(usize),
    RemoveAll,
    Alloc { size: usize, align: usize },
    Dealloc(usize),
    GrowFront(usize),
    GrowBack(usize),
    Reset,
}

impl Op {
    pub fn name(&self) -> &'static str {
        match self {
            Op::Relocate => "relocate",
            Op::Push(_) => "push",
            Op::Pop => "pop",
            Op::Insert0(_) => "insert",
            Op::Remove0 => "remove",
            Op::Clear => "clear",
            Op::PushOverflow(_) => "push_with_overflow",
            Op::Insert(_) => "insert",
            Op::RemoveKey(_) => "remove",
            Op::InsertKV(..) => "insert",
            Op::Acquire => "acquire",
            Op::Release(_) => "release",
            Op::ReleaseLock(_) => "release_lock_if_last",
            Op::ReleaseWrongOwner(_) => "release_wrong_owner",
            Op::Set(_) => "set",
            Op::ResetNext => "reset_next",
            Op::ResetAll => "reset_all",
            Op::Add(_) => "add",
            Op::RemoveHandle(_) => "remove",
            Op::RemoveHandleLock(_) => "remove_lock_if_last",
            Op::InsertIdx(_) => "insert",
            Op::RemoveIdx(_) => "remove",
            Op::RemoveAll => "remove_all",
            Op::Alloc { .. } => "allocate",
            Op::Dealloc(_) => "deallocate",
            Op::GrowFront(_) => "grow_front",
            Op::GrowBack(_) => "grow_back",
            Op::Reset => "deallocate_reset",
        }
    }
}

/// canonical form of return values and observations
#[derive(Clone, Debug, PartialEq, Eq)]
pub enum V {
    Unit,
    B(bool),
    N(u64),
    O(Option<u64>),
    Ok(u64),
    /// error variant (Debug name)
    E(String),
    /// symbolic state (Debug name)
    S(String),
    L(Vec<u64>),
    T(Vec<V>),
}

pub fn res_unit<E: std::fmt::Debug>(r: Result<(), E>) -> V {
    match r {
        Ok(()) => V::Unit,
        Err(e) => V::E(format!("{e:?}")),
    }
}

pub fn expect(got: &V, want: V) -> Result<(), String> {
    if *got == want {
        Ok(())
    } else {
        Err(format!("expected {want:?}, got {got:?}"))
    }
}

pub fn round64(n: usize) -> usize {
    (n + 63) & !63
}

/// header of `C` at the block start, payload from a (stack-local) BumpAllocator over the rest
pub unsafe fn build_container<C: RelocatableContainer>(block: *mut u8, len: usize, cap: usize) -> Result<(), String> {
    assert!(std::mem::align_of::<C>() <= 64);
    let start = round64(std::mem::size_of::<C>());
    assert!(start < len);
    std::ptr::write(block as *mut C, C::new_uninit(cap));
    let a = BumpAllocator::new(NonNull::new_unchecked(block.add(start)), len - start);
    (*(block as *mut C)).init(&a).map_err(|e| format!("init failed: {e:?}"))
}

/// One relocatable structure: how to build it in a block, drive it, observe it and model it.
pub trait Subject: 'static {
    const KIND: &'static str;
    /// scan the live block for embedded absolute addresses
    const SCAN: bool = true;
    /// make the old location PROT_NONE on Relocate (a stale absolute pointer then faults and the
    /// engine reports `crash`); if false the old location stays accessible and is filled with
    /// 0xDB, so a stale access shows up as `reloc-divergence` with a precise site instead
    const PROTECT_OLD: bool = true;
    type Model: Hash;
    /// per-instance state that lives outside the block (handles, cached snapshots)
    type Aux;
    fn header_size() -> usize;
    unsafe fn build(block: *mut u8, len: usize, cap: usize) -> Result<(), String>;
    unsafe fn aux(block: *mut u8, cap: usize) -> Self::Aux;
    fn model(cap: usize) -> Self::Model;
    /// enabled structure operations (without Relocate), from the model state only
    fn ops(cap: usize, m: &Self::Model) -> Vec<Op>;
    unsafe fn real(block: *mut u8, aux: &mut Self::Aux, m: &Self::Model, cap: usize, op: &Op) -> V;
    unsafe fn observe(block: *mut u8, aux: &mut Self::Aux, m: &Self::Model, cap: usize) -> V;
    /// validate the real return value against the model and advance the model (following the
    /// real choice where the API leaves the choice open)
    fn model_step(m: &mut Self::Model, cap: usize, op: &Op, ret: &V) -> Result<(), String>;
    fn model_check(m: &mut Self::Model, cap: usize, obs: &V) -> Result<(), String>;
    unsafe fn drop_real(block: *mut u8);
}

// ------------------------------------------------------------------------------------------

/// Page-table changes (mmap / munmap / mprotect) are by far the most expensive thing an execution
/// does (hundreds of microseconds each on the verification machine), so all blocks come from one
/// arena that is mapped once per worker process. Blocks are handed out sequentially and used
/// exactly once per arena cycle; a relocation costs one mprotect(PROT_NONE) of the old block.
/// When the arena is used up, ONE mprotect makes the whole arena accessible again, it is zeroed
/// and the next cycle starts. Within one execution every block is therefore at an address that
/// this execution has never used before, and old locations stay mapped and inaccessible.
struct Arena {
    base: usize,
    next: usize,
}
const ARENA_BLOCKS: usize = 1024;
const BLOCKS_PER_EXECUTION: usize = 2 + MAX_RELOCATIONS as usize;
static ARENA: std::sync::Mutex<Arena> = std::sync::Mutex::new(Arena { base: 0, next: 0 });

struct Blocks {
    len: usize,
    /// address of the first block reserved for this execution
    first: usize,
    arena: usize,
    /// every block used by this execution: [0] twin, [1] first location, [2..] relocations
    all: Vec<*mut u8>,
}

impl Blocks {
    /// reserves the blocks of one execution
    fn new(len: usize) -> Result<Blocks, Fail> {
        let mut a = ARENA.lock().unwrap();
        if a.base == 0 {
            let p = unsafe {
                libc::mmap(
                    std::ptr::null_mut(),
                    ARENA_BLOCKS * len,
                    libc::PROT_READ | libc::PROT_WRITE,
                    libc::MAP_PRIVATE | libc::MAP_ANONYMOUS,
                    -1,
                    0,
                )
            };
            if p == libc::MAP_FAILED {
                return Err(Fail::new("setup", "mmap", "mmap of the block arena failed"));
            }
            if (p as usize) < (1usize << 32) {
                return Err(Fail::new("setup", "mmap", "arena mapped below 4 GiB: payload values could be mistaken for addresses"));
            }
            a.base = p as usize;
            a.next = 0;
        }
        if a.next + BLOCKS_PER_EXECUTION > ARENA_BLOCKS {
            unsafe {
                if libc::mprotect(a.base as *mut libc::c_void, ARENA_BLOCKS * len, libc::PROT_READ | libc::PROT_WRITE) != 0 {
                    return Err(Fail::new("setup", "mprotect", "making the arena accessible again failed"));
                }
                std::ptr::write_bytes(a.base as *mut u8, 0, a.next * len);
            }
            a.next = 0;
        }
        let first = a.base + a.next * len;
        a.next += BLOCKS_PER_EXECUTION;
        Ok(Blocks { len, first, arena: a.base, all: Vec::new() })
    }

    fn map(&mut self) -> Result<*mut u8, Fail> {
        if self.all.len() >= BLOCKS_PER_EXECUTION {
            return Err(Fail::new("setup", "mmap", "more blocks requested than reserved for one execution"));
        }
        let p = (self.first + self.all.len() * self.len) as *mut u8;
        self.all.push(p);
        Ok(p)
    }

    fn protect(&mut self, b: *mut u8) -> Result<(), Fail> {
        if unsafe { libc::mprotect(b as *mut libc::c_void, self.len, libc::PROT_NONE) } != 0 {
            return Err(Fail::new("setup", "mprotect", "mprotect(PROT_NONE) failed"));
        }
        Ok(())
    }
}

fn guard<R>(f: impl FnOnce() -> R) -> Result<R, String> {
    catch_unwind(AssertUnwindSafe(f)).map_err(|p| {
        if let Some(s) = p.downcast_ref::<&str>() {
            s.to_string()
        } else if let Some(s) = p.downcast_ref::<String>() {
            s.clone()
        } else {
            "panic with non-string payload".to_string()
        }
    })
}

trait Driver {
    fn enabled(&self) -> Vec<Op>;
    fn apply(&mut self, op: &Op) -> Result<(), Fail>;
    fn finish(self: Box<Self>) -> Result<(), Fail>;
    fn key(&self) -> u64;
}

struct Inst<S: Subject> {
    kind: Kind,
    cap: usize,
    blocks: Blocks,
    live: *mut u8,
    twin: *mut u8,
    relocs: u32,
    steps: u32,
    selftest: u8,
    aux_live: S::Aux,
    aux_twin: S::Aux,
    model: S::Model,
}

impl<S: Subject> Inst<S> {
    fn new(kind: Kind, cap: usize) -> Result<Self, Fail> {
        let page = unsafe { libc::sysconf(libc::_SC_PAGESIZE) } as usize;
        let len = 4096usize.div_ceil(page) * page;
        let mut blocks = Blocks::new(len)?;
        let twin = blocks.map()?;
        let live = blocks.map()?;
        for (b, who) in [(twin, "twin"), (live, "subject")] {
            match guard(|| unsafe { S::build(b, len, cap) }) {
                Ok(Ok(())) => {}
                Ok(Err(e)) => return Err(Fail::new("setup", format!("{}.init", S::KIND), format!("{who}: {e}"))),
                Err(p) => return Err(Fail::new("panic", format!("{}.init", S::KIND), format!("{who}: {p}"))),
            }
        }
        let aux_twin = guard(|| unsafe { S::aux(twin, cap) }).map_err(|p| Fail::new("panic", format!("{}.init", S::KIND), p))?;
        let aux_live = guard(|| unsafe { S::aux(live, cap) }).map_err(|p| Fail::new("panic", format!("{}.init", S::KIND), p))?;
        let selftest = std::env::var("H_RELOC_SELFTEST").ok().and_then(|s| s.parse().ok()).unwrap_or(0);
        let mut s = Inst { kind, cap, blocks, live, twin, relocs: 0, steps: 0, selftest, aux_live, aux_twin, model: S::model(cap) };
        s.check_all("init")?;
        Ok(s)
    }

    fn relocate(&mut self) -> Result<(), Fail> {
        let len = self.blocks.len;
        let old = self.live;
        let new = self.blocks.map()?;
        assert!(new != old);
        let n = if self.selftest == 2 { round64(S::header_size()) } else { len };
        unsafe { std::ptr::copy_nonoverlapping(old, new, n) };
        if S::PROTECT_OLD {
            self.blocks.protect(old)?;
        } else {
            unsafe { std::ptr::write_bytes(old, 0xDB, len) };
        }
        self.live = new;
        self.relocs += 1;
        Ok(())
    }

    /// oracles that run after every step: observation (subject == twin == model), address scan
    fn check_all(&mut self, opname: &str) -> Result<(), Fail> {
        let site = format!("{}.{}", S::KIND, opname);
        let (cap, twin, live) = (self.cap, self.twin, self.live);
        let ot = guard(|| unsafe { S::observe(twin, &mut self.aux_twin, &self.model, cap) })
            .map_err(|p| Fail::new("panic", site.clone(), format!("while observing the never-relocated twin: {p}")))?;
        let ol = guard(|| unsafe { S::observe(live, &mut self.aux_live, &self.model, cap) })
            .map_err(|p| Fail::new("panic", site.clone(), format!("while observing the subject after {} relocation(s): {p}", self.relocs)))?;
        if ol != ot {
            return Err(Fail::new(
                "reloc-divergence",
                site,
                format!("observation after {} relocation(s): subject {ol:?} != never-relocated twin {ot:?}", self.relocs),
            ));
        }
        if let Err(e) = S::model_check(&mut self.model, cap, &ot) {
            return Err(Fail::new("model", site, format!("observation (identical on subject and twin): {e}")));
        }
        if S::SCAN {
            self.scan()?;
        }
        Ok(())
    }

    fn scan(&self) -> Result<(), Fail> {
        let len = self.blocks.len;
        let (lo, hi) = (self.blocks.arena, self.blocks.arena + ARENA_BLOCKS * len);
        for i in 0..len / 8 {
            let w0 = unsafe { std::ptr::read_volatile((self.live as *const u64).add(i)) } as usize;
            // nothing legitimate points anywhere into the arena all blocks come from; tagged
            // pointers are looked for as well: the address shifted left by up to 4 bits (tag in
            // the low bits) or carrying a tag in its upper 16 bits
            let candidates = [w0, w0 >> 1, w0 >> 2, w0 >> 3, w0 >> 4, w0 & 0x0000_ffff_ffff_ffff];
            let Some(&w) = candidates.iter().find(|w| **w >= lo && **w <= hi) else {
                continue;
            };
            let inside = |b: *mut u8| w >= b as usize && w <= b as usize + len;
            let target = if inside(self.live) {
                format!("{} bytes into the live block itself", w - self.live as usize)
            } else if inside(self.twin) {
                format!("{} bytes into the block of the never-relocated twin", w - self.twin as usize)
            } else if let Some(b) = self.blocks.all.iter().find(|b| inside(**b)) {
                format!("{} bytes into an earlier location of the block (now PROT_NONE)", w - *b as usize)
            } else {
                "into the block arena outside the blocks of this execution".to_string()
            };
            return Err(Fail::new(
                "absolute-address",
                S::KIND,
                format!(
                    "the 8-byte word at block offset {} holds an absolute address{}: it points {target} (after {} relocation(s))",
                    i * 8,
                    if w == w0 { "" } else { " (tagged / shifted)" },
                    self.relocs
                ),
            ));
        }
        Ok(())
    }
}

impl<S: Subject> Driver for Inst<S> {
    fn enabled(&self) -> Vec<Op> {
        let mut v = S::ops(self.cap, &self.model);
        if self.relocs < MAX_RELOCATIONS {
            v.push(Op::Relocate);
        }
        v
    }

    fn apply(&mut self, op: &Op) -> Result<(), Fail> {
        if *op == Op::Relocate {
            self.relocate()?;
        } else {
            let site = format!("{}.{}", S::KIND, op.name());
            let (cap, twin, live) = (self.cap, self.twin, self.live);
            let rt = guard(|| unsafe { S::real(twin, &mut self.aux_twin, &self.model, cap, op) })
                .map_err(|p| Fail::new("panic", site.clone(), format!("{op:?} on the never-relocated twin (not a relocation defect): {p}")))?;
            let rl = guard(|| unsafe { S::real(live, &mut self.aux_live, &self.model, cap, op) })
                .map_err(|p| Fail::new("panic", site.clone(), format!("{op:?} on the subject after {} relocation(s) (the twin did not panic): {p}", self.relocs)))?;
            if rl != rt {
                return Err(Fail::new(
                    "reloc-divergence",
                    site,
                    format!("{op:?} after {} relocation(s) returned {rl:?}, on the never-relocated twin {rt:?}", self.relocs),
                ));
            }
            if let Err(e) = S::model_step(&mut self.model, cap, op, &rt) {
                return Err(Fail::new("model", site, format!("{op:?} (identical on subject and twin): {e}")));
            }
        }
        if self.selftest == 1 && self.steps == 0 {
            // planted defect: absolute pointer into the live block in the unused tail
            unsafe { (self.live.add(self.blocks.len - 8) as *mut u64).write(self.live as u64 + 128) };
        }
        self.steps += 1;
        self.check_all(op.name())
    }

    fn finish(self: Box<Self>) -> Result<(), Fail> {
        let site = format!("{}.drop", S::KIND);
        let (twin, live) = (self.twin, self.live);
        guard(|| unsafe { S::drop_real(live) })
            .map_err(|p| Fail::new("panic", site.clone(), format!("drop of the subject after {} relocation(s): {p}", self.relocs)))?;
        guard(|| unsafe { S::drop_real(twin) }).map_err(|p| Fail::new("panic", site, format!("drop of the twin: {p}")))?;
        Ok(()) // Blocks::drop recycles every block
    }

    fn key(&self) -> u64 {
        seqx::hash_of(&(self.kind, self.cap, &self.model, self.relocs))
    }
}

// ------------------------------------------------------------------------------------------

pub struct Sys {
    d: Box<dyn Driver>,
}

struct H;

fn make(cfg: &Cfg) -> Result<Box<dyn Driver>, Fail> {
    fn b<S: Subject>(cfg: &Cfg) -> Result<Box<dyn Driver>, Fail> {
        Ok(Box::new(Inst::<S>::new(cfg.kind, cfg.cap)?))
    }
    match cfg.kind {
        Kind::Vec => b::<containers::SVec>(cfg),
        Kind::Queue => b::<containers::SQueue>(cfg),
        Kind::Str => b::<containers::SStr>(cfg),
        Kind::SlotMap => b::<containers::SSlotMap>(cfg),
        Kind::FlatMap => b::<containers::SFlatMap>(cfg),
        Kind::IndexQueue => b::<lockfree::SIndexQueue>(cfg),
        Kind::SoIndexQueue => b::<lockfree::SSoIndexQueue>(cfg),
        Kind::UniqueIndexSet => b::<lockfree::SUniqueIndexSet>(cfg),
        Kind::RobustUniqueIndexSet => b::<lockfree::SRobust>(cfg),
        Kind::BitSet => b::<lockfree::SBitSet>(cfg),
        Kind::CountingBitSet => b::<lockfree::SCountingBitSet>(cfg),
        Kind::Container => b::<lockfree::SContainer>(cfg),
        Kind::UsedChunkList => b::<cal::SUsedChunkList>(cfg),
        Kind::ShmPool => b::<cal::SShmPool<false>>(cfg),
        Kind::ShmPoolGrow => b::<cal::SShmPool<true>>(cfg),
        Kind::ShmBump => b::<cal::SShmBump<false>>(cfg),
        Kind::ShmBumpGrow => b::<cal::SShmBump<true>>(cfg),
    }
}

impl Harness for H {
    type Cfg = Cfg;
    type Op = Op;
    type Sys = Sys;

    fn name(&self) -> &'static str {
        "h_reloc"
    }
    fn property(&self) -> &'static str {
        "C14"
    }
    fn rule(&self) -> String {
        format!(
            "For every relocatable structure (RelocatableVec/Queue/String/SlotMap/FlatMap, spsc IndexQueue and \
             SafelyOverflowingIndexQueue, UniqueIndexSet, RobustUniqueIndexSet, BitSet, CountingBitSet, mpmc Container, \
             UsedChunkList, cal shm PoolAllocator and BumpAllocator with and without grow) and every capacity 1..=3 (BitSet also 9): \
             all sequences up to the tree depth over the structure's compact operation alphabet plus `Relocate` (copy the whole \
             mmap block holding header+payload to a fresh address, PROT_NONE the old one, continue on the copy; at most {MAX_RELOCATIONS} \
             per history), every prefix also run to completion with drop. After every step the relocated instance is compared \
             with a never-relocated twin driven by the same operations (return values and full observation), the twin with a \
             plain reference model, and the live block is scanned for 8-byte words that hold an address inside any block of the \
             execution. A state is distinct by (kind, capacity, reference-model state, number of relocations)."
        )
    }

    fn configs(&self, tier: Tier) -> Vec<(Cfg, Plan)> {
        let quick = tier == Tier::Quick;
        let mut v = Vec::new();
        let kinds = [
            Kind::Vec,
            Kind::Queue,
            Kind::Str,
            Kind::SlotMap,
            Kind::FlatMap,
            Kind::IndexQueue,
            Kind::SoIndexQueue,
            Kind::UniqueIndexSet,
            Kind::RobustUniqueIndexSet,
            Kind::BitSet,
            Kind::CountingBitSet,
            Kind::Container,
            Kind::UsedChunkList,
            Kind::ShmPool,
            Kind::ShmBump,
        ];
        // The `*Grow` kinds (grow() on a relocated copy of the allocator) are NOT part of the
        // check: the shm allocators keep the creator's mapping address by design and are only ever
        // operated by the process that created the segment; other processes see offsets. grow()
        // through another mapping is outside the allocators' contract and outside C14 ("allocators
        // as observed through segment-relative offsets"). H_RELOC_GROW=1 adds them for study.
        let mut kinds = kinds.to_vec();
        if std::env::var("H_RELOC_GROW").is_ok() {
            kinds.push(Kind::ShmPoolGrow);
            kinds.push(Kind::ShmBumpGrow);
        }
        for kind in kinds {
            let mut caps = vec![1usize, 2, 3];
            if kind == Kind::BitSet {
                caps.push(9);
            }
            // thorough: depth 6 for the structures with a small alphabet, 5 for the others
            let small = matches!(
                kind,
                Kind::Queue
                    | Kind::SlotMap
                    | Kind::IndexQueue
                    | Kind::SoIndexQueue
                    | Kind::UniqueIndexSet
                    | Kind::BitSet
                    | Kind::CountingBitSet
                    | Kind::ShmPool
                    | Kind::ShmBump
            );
            let depth = if quick { 4 } else if small { 6 } else { 5 };
            for cap in caps {
                // the deepest / widest configurations are spread over several workers
                let split = if !quick && cap >= 3 { 4 } else { 1 };
                v.push((Cfg { kind, cap }, Plan { tree_depth: depth, finish_prefixes: true, frontier: None, split }));
            }
        }
        v
    }

    fn new_sys(&self, cfg: &Cfg) -> Result<Sys, Fail> {
        iceoryx2_log::set_log_level(iceoryx2_log::LogLevel::Fatal);
        Ok(Sys { d: make(cfg)? })
    }
    fn enabled(&self, s: &Sys) -> Vec<Op> {
        s.d.enabled()
    }
    fn apply(&self, s: &mut Sys, op: &Op) -> Result<(), Fail> {
        s.d.apply(op)
    }
    fn finish(&self, s: Sys) -> Result<(), Fail> {
        s.d.finish()
    }
    fn model_key(&self, s: &Sys) -> u64 {
        s.d.key()
    }
    fn max_violations_per_worker(&self) -> usize {
        // the *Grow kinds have a known finding on many histories; keep exploring past it
        2000
    }
}

fn main() {
    seqx::main(H);
}
