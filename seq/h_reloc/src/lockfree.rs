//! iceoryx2-bb-lock-free: spsc RelocatableIndexQueue, RelocatableSafelyOverflowingIndexQueue,
//! mpmc UniqueIndexSet, RobustUniqueIndexSet, RelocatableBitSet, RelocatableCountingBitSet,
//! Container<u64>. Indices handed out / accepted are the "segment-relative" observations: they
//! must be identical on the relocated instance and on the twin.

use std::collections::{BTreeMap, BTreeSet, VecDeque};

use iceoryx2_bb_elementary::CallbackProgression;
use iceoryx2_bb_lock_free::mpmc::bit_set::RelocatableBitSet;
use iceoryx2_bb_lock_free::mpmc::container::{Container, ContainerHandle, ContainerState};
use iceoryx2_bb_lock_free::mpmc::counting_bit_set::RelocatableCountingBitSet;
use iceoryx2_bb_lock_free::mpmc::robust_unique_index_set::{OwnerId, RobustUniqueIndexSet};
use iceoryx2_bb_lock_free::mpmc::unique_index_set::UniqueIndexSet;
use iceoryx2_bb_lock_free::mpmc::unique_index_set_enums::ReleaseMode;
use iceoryx2_bb_lock_free::spsc::index_queue::RelocatableIndexQueue;
use iceoryx2_bb_lock_free::spsc::safely_overflowing_index_queue::RelocatableSafelyOverflowingIndexQueue;

use crate::{build_container, expect, Op, Subject, V};

fn e(s: &str) -> V {
    V::E(s.to_string())
}
fn st(s: &str) -> V {
    V::S(s.to_string())
}

// ----------------------------------------------------------------------------------- IndexQueue

pub struct SIndexQueue;
type IQ = RelocatableIndexQueue;

impl Subject for SIndexQueue {
    const KIND: &'static str = "IndexQueue";
    type Model = VecDeque<u64>;
    type Aux = ();
    fn header_size() -> usize {
        std::mem::size_of::<IQ>()
    }
    unsafe fn build(block: *mut u8, len: usize, cap: usize) -> Result<(), String> {
        build_container::<IQ>(block, len, cap)
    }
    unsafe fn aux(_: *mut u8, _: usize) {}
    fn model(_: usize) -> VecDeque<u64> {
        VecDeque::new()
    }
    fn ops(_: usize, _: &VecDeque<u64>) -> Vec<Op> {
        vec![Op::Push(1), Op::Push(2), Op::Pop]
    }
    unsafe fn real(block: *mut u8, _: &mut (), _: &VecDeque<u64>, _: usize, op: &Op) -> V {
        let s = &*(block as *const IQ);
        match op {
            Op::Push(v) => match s.acquire_producer() {
                Some(mut p) => V::B(p.push(*v)),
                None => e("producer not available"),
            },
            Op::Pop => match s.acquire_consumer() {
                Some(mut c) => V::O(c.pop()),
                None => e("consumer not available"),
            },
            _ => unreachable!(),
        }
    }
    unsafe fn observe(block: *mut u8, _: &mut (), _: &VecDeque<u64>, _: usize) -> V {
        let s = &*(block as *const IQ);
        V::T(vec![V::N(s.len() as u64), V::B(s.is_empty()), V::B(s.is_full()), V::N(s.capacity() as u64)])
    }
    fn model_step(m: &mut VecDeque<u64>, cap: usize, op: &Op, ret: &V) -> Result<(), String> {
        match op {
            Op::Push(v) => {
                let ok = m.len() < cap;
                if ok {
                    m.push_back(*v);
                }
                expect(ret, V::B(ok))
            }
            Op::Pop => expect(ret, V::O(m.pop_front())),
            _ => unreachable!(),
        }
    }
    fn model_check(m: &mut VecDeque<u64>, cap: usize, obs: &V) -> Result<(), String> {
        expect(obs, V::T(vec![V::N(m.len() as u64), V::B(m.is_empty()), V::B(m.len() == cap), V::N(cap as u64)]))
    }
    unsafe fn drop_real(block: *mut u8) {
        std::ptr::drop_in_place(block as *mut IQ)
    }
}

// ------------------------------------------------------------------ SafelyOverflowingIndexQueue

pub struct SSoIndexQueue;
type SQ = RelocatableSafelyOverflowingIndexQueue;

impl Subject for SSoIndexQueue {
    const KIND: &'static str = "SoIndexQueue";
    type Model = VecDeque<u64>;
    type Aux = ();
    fn header_size() -> usize {
        std::mem::size_of::<SQ>()
    }
    unsafe fn build(block: *mut u8, len: usize, cap: usize) -> Result<(), String> {
        build_container::<SQ>(block, len, cap)
    }
    unsafe fn aux(_: *mut u8, _: usize) {}
    fn model(_: usize) -> VecDeque<u64> {
        VecDeque::new()
    }
    fn ops(_: usize, _: &VecDeque<u64>) -> Vec<Op> {
        vec![Op::Push(1), Op::Push(2), Op::Pop]
    }
    unsafe fn real(block: *mut u8, _: &mut (), _: &VecDeque<u64>, _: usize, op: &Op) -> V {
        let s = &*(block as *const SQ);
        match op {
            Op::Push(v) => match s.acquire_producer() {
                Some(mut p) => V::O(p.push(*v)),
                None => e("producer not available"),
            },
            Op::Pop => match s.acquire_consumer() {
                Some(mut c) => V::O(c.pop()),
                None => e("consumer not available"),
            },
            _ => unreachable!(),
        }
    }
    unsafe fn observe(block: *mut u8, _: &mut (), _: &VecDeque<u64>, _: usize) -> V {
        let s = &*(block as *const SQ);
        V::T(vec![V::N(s.len() as u64), V::B(s.is_empty()), V::B(s.is_full()), V::N(s.capacity() as u64)])
    }
    fn model_step(m: &mut VecDeque<u64>, cap: usize, op: &Op, ret: &V) -> Result<(), String> {
        match op {
            Op::Push(v) => {
                let o = if m.len() == cap { m.pop_front() } else { None };
                m.push_back(*v);
                expect(ret, V::O(o))
            }
            Op::Pop => expect(ret, V::O(m.pop_front())),
            _ => unreachable!(),
        }
    }
    fn model_check(m: &mut VecDeque<u64>, cap: usize, obs: &V) -> Result<(), String> {
        expect(obs, V::T(vec![V::N(m.len() as u64), V::B(m.is_empty()), V::B(m.len() == cap), V::N(cap as u64)]))
    }
    unsafe fn drop_real(block: *mut u8) {
        std::ptr::drop_in_place(block as *mut SQ)
    }
}

// ------------------------------------------------------------------------------- UniqueIndexSet

pub struct SUniqueIndexSet;

#[derive(Hash)]
pub struct IdxModel {
    held: BTreeSet<u64>,
    locked: bool,
}

impl Subject for SUniqueIndexSet {
    const KIND: &'static str = "UniqueIndexSet";
    type Model = IdxModel;
    type Aux = ();
    fn header_size() -> usize {
        std::mem::size_of::<UniqueIndexSet>()
    }
    unsafe fn build(block: *mut u8, len: usize, cap: usize) -> Result<(), String> {
        build_container::<UniqueIndexSet>(block, len, cap)
    }
    unsafe fn aux(_: *mut u8, _: usize) {}
    fn model(_: usize) -> IdxModel {
        IdxModel { held: BTreeSet::new(), locked: false }
    }
    fn ops(_: usize, m: &IdxModel) -> Vec<Op> {
        let mut v = vec![Op::Acquire];
        for i in &m.held {
            v.push(Op::Release(*i as u32)); // only indices that are currently borrowed
            v.push(Op::ReleaseLock(*i as u32));
        }
        v
    }
    unsafe fn real(block: *mut u8, _: &mut (), _: &IdxModel, _: usize, op: &Op) -> V {
        let s = &*(block as *const UniqueIndexSet);
        match op {
            Op::Acquire => match s.acquire_raw_index() {
                Ok(i) => V::Ok(i as u64),
                Err(x) => V::E(format!("{x:?}")),
            },
            Op::Release(i) => V::S(format!("{:?}", s.release_raw_index(*i, ReleaseMode::Default))),
            Op::ReleaseLock(i) => V::S(format!("{:?}", s.release_raw_index(*i, ReleaseMode::LockIfLastIndex))),
            _ => unreachable!(),
        }
    }
    unsafe fn observe(block: *mut u8, _: &mut (), _: &IdxModel, _: usize) -> V {
        let s = &*(block as *const UniqueIndexSet);
        V::T(vec![V::N(s.borrowed_indices() as u64), V::B(s.is_locked()), V::N(s.capacity() as u64)])
    }
    fn model_step(m: &mut IdxModel, cap: usize, op: &Op, ret: &V) -> Result<(), String> {
        match op {
            Op::Acquire => {
                if m.locked {
                    return expect(ret, e("IsLocked"));
                }
                if m.held.len() == cap {
                    return expect(ret, e("OutOfIndices"));
                }
                // which free index is handed out is not documented: accept any, follow the real one
                let V::Ok(i) = ret else { return Err(format!("free indices left: expected Ok(index), got {ret:?}")) };
                if *i >= cap as u64 || !m.held.insert(*i) {
                    return Err(format!("acquired index {i} is out of range or already borrowed ({:?})", m.held));
                }
                Ok(())
            }
            Op::Release(i) => {
                m.held.remove(&(*i as u64));
                expect(ret, st("Unlocked"))
            }
            Op::ReleaseLock(i) => {
                m.held.remove(&(*i as u64));
                if m.held.is_empty() {
                    m.locked = true;
                    expect(ret, st("Locked"))
                } else {
                    expect(ret, st("Unlocked"))
                }
            }
            _ => unreachable!(),
        }
    }
    fn model_check(m: &mut IdxModel, cap: usize, obs: &V) -> Result<(), String> {
        expect(obs, V::T(vec![V::N(m.held.len() as u64), V::B(m.locked), V::N(cap as u64)]))
    }
    unsafe fn drop_real(block: *mut u8) {
        std::ptr::drop_in_place(block as *mut UniqueIndexSet)
    }
}

// ------------------------------------------------------------------------- RobustUniqueIndexSet

pub struct SRobust;
const OWNER: u64 = 7;
const OTHER_OWNER: u64 = 9;

impl Subject for SRobust {
    const KIND: &'static str = "RobustUniqueIndexSet";
    type Model = IdxModel;
    type Aux = ();
    fn header_size() -> usize {
        std::mem::size_of::<RobustUniqueIndexSet>()
    }
    unsafe fn build(block: *mut u8, len: usize, cap: usize) -> Result<(), String> {
        build_container::<RobustUniqueIndexSet>(block, len, cap)
    }
    unsafe fn aux(_: *mut u8, _: usize) {}
    fn model(_: usize) -> IdxModel {
        IdxModel { held: BTreeSet::new(), locked: false }
    }
    fn ops(_: usize, m: &IdxModel) -> Vec<Op> {
        let mut v = vec![Op::Acquire];
        for i in &m.held {
            v.push(Op::Release(*i as u32));
            v.push(Op::ReleaseLock(*i as u32));
            v.push(Op::ReleaseWrongOwner(*i as u32));
        }
        v
    }
    unsafe fn real(block: *mut u8, _: &mut (), _: &IdxModel, _: usize, op: &Op) -> V {
        let s = &*(block as *const RobustUniqueIndexSet);
        let owner = OwnerId::new(OWNER).unwrap();
        let rel = |i: u32, o: u64, mode| match s.release(i as usize, OwnerId::new(o).unwrap(), mode) {
            Ok(x) => V::S(format!("{x:?}")),
            Err(x) => V::E(format!("{x:?}")),
        };
        match op {
            Op::Acquire => match s.acquire(owner) {
                Ok(i) => V::Ok(i as u64),
                Err(x) => V::E(format!("{x:?}")),
            },
            Op::Release(i) => rel(*i, OWNER, ReleaseMode::Default),
            Op::ReleaseLock(i) => rel(*i, OWNER, ReleaseMode::LockIfLastIndex),
            Op::ReleaseWrongOwner(i) => rel(*i, OTHER_OWNER, ReleaseMode::Default),
            _ => unreachable!(),
        }
    }
    unsafe fn observe(block: *mut u8, _: &mut (), _: &IdxModel, _: usize) -> V {
        let s = &*(block as *const RobustUniqueIndexSet);
        V::T(vec![V::N(s.borrowed_indices() as u64), V::B(s.is_locked()), V::N(s.capacity() as u64)])
    }
    fn model_step(m: &mut IdxModel, cap: usize, op: &Op, ret: &V) -> Result<(), String> {
        match op {
            Op::Acquire => {
                if m.locked {
                    return expect(ret, e("IsLocked"));
                }
                if m.held.len() == cap {
                    return expect(ret, e("OutOfIndices"));
                }
                let V::Ok(i) = ret else { return Err(format!("free indices left: expected Ok(index), got {ret:?}")) };
                if *i >= cap as u64 || !m.held.insert(*i) {
                    return Err(format!("acquired index {i} is out of range or already borrowed ({:?})", m.held));
                }
                Ok(())
            }
            Op::Release(i) => {
                m.held.remove(&(*i as u64));
                expect(ret, st("Unlocked"))
            }
            Op::ReleaseLock(i) => {
                m.held.remove(&(*i as u64));
                if m.held.is_empty() {
                    m.locked = true;
                    expect(ret, st("Locked"))
                } else {
                    expect(ret, st("Unlocked"))
                }
            }
            Op::ReleaseWrongOwner(_) => expect(ret, e("IndexIsNotOwnedByProvidedOwner")),
            _ => unreachable!(),
        }
    }
    fn model_check(m: &mut IdxModel, cap: usize, obs: &V) -> Result<(), String> {
        expect(obs, V::T(vec![V::N(m.held.len() as u64), V::B(m.locked), V::N(cap as u64)]))
    }
    unsafe fn drop_real(block: *mut u8) {
        std::ptr::drop_in_place(block as *mut RobustUniqueIndexSet)
    }
}

// --------------------------------------------------------------------------------------- BitSet

pub struct SBitSet;
type BS = RelocatableBitSet;

fn bit_ids(cap: usize) -> Vec<usize> {
    if cap <= 3 {
        (0..cap).collect()
    } else {
        vec![0, cap - 2, cap - 1] // cap 9: both storage bytes
    }
}

impl Subject for SBitSet {
    const KIND: &'static str = "BitSet";
    type Model = BTreeSet<u64>;
    type Aux = ();
    fn header_size() -> usize {
        std::mem::size_of::<BS>()
    }
    unsafe fn build(block: *mut u8, len: usize, cap: usize) -> Result<(), String> {
        build_container::<BS>(block, len, cap)
    }
    unsafe fn aux(_: *mut u8, _: usize) {}
    fn model(_: usize) -> BTreeSet<u64> {
        BTreeSet::new()
    }
    fn ops(cap: usize, _: &BTreeSet<u64>) -> Vec<Op> {
        let mut v: Vec<Op> = bit_ids(cap).into_iter().map(Op::Set).collect();
        v.push(Op::ResetNext);
        v.push(Op::ResetAll);
        v
    }
    unsafe fn real(block: *mut u8, _: &mut (), _: &BTreeSet<u64>, _: usize, op: &Op) -> V {
        let s = &*(block as *const BS);
        match op {
            Op::Set(i) => V::B(s.set(*i)),
            Op::ResetNext => V::O(s.reset_next().map(|i| i as u64)),
            Op::ResetAll => {
                let mut l = Vec::new();
                s.reset_all(|i| l.push(i as u64));
                V::L(l)
            }
            _ => unreachable!(),
        }
    }
    unsafe fn observe(block: *mut u8, _: &mut (), _: &BTreeSet<u64>, _: usize) -> V {
        let s = &*(block as *const BS);
        V::N(s.capacity() as u64)
    }
    fn model_step(m: &mut BTreeSet<u64>, _: usize, op: &Op, ret: &V) -> Result<(), String> {
        match op {
            Op::Set(i) => expect(ret, V::B(m.insert(*i as u64))),
            Op::ResetNext => {
                if m.is_empty() {
                    return expect(ret, V::O(None));
                }
                // which set bit is "next" is not documented: any set bit, follow the real one
                match ret {
                    V::O(Some(i)) if m.remove(i) => Ok(()),
                    x => Err(format!("set bits {m:?}: expected Some(one of them), got {x:?}")),
                }
            }
            Op::ResetAll => {
                let V::L(l) = ret else { unreachable!() };
                let mut got = l.clone();
                got.sort();
                let want: Vec<u64> = m.iter().copied().collect();
                m.clear();
                if got == want {
                    Ok(())
                } else {
                    Err(format!("reset_all reported {l:?}, set bits were {want:?}"))
                }
            }
            _ => unreachable!(),
        }
    }
    fn model_check(_: &mut BTreeSet<u64>, cap: usize, obs: &V) -> Result<(), String> {
        expect(obs, V::N(cap as u64))
    }
    unsafe fn drop_real(block: *mut u8) {
        std::ptr::drop_in_place(block as *mut BS)
    }
}

// ------------------------------------------------------------------------------- CountingBitSet

pub struct SCountingBitSet;
type CBS = RelocatableCountingBitSet;

impl Subject for SCountingBitSet {
    const KIND: &'static str = "CountingBitSet";
    type Model = Vec<u64>;
    type Aux = ();
    fn header_size() -> usize {
        std::mem::size_of::<CBS>()
    }
    unsafe fn build(block: *mut u8, len: usize, cap: usize) -> Result<(), String> {
        build_container::<CBS>(block, len, cap)
    }
    unsafe fn aux(_: *mut u8, _: usize) {}
    fn model(cap: usize) -> Vec<u64> {
        vec![0; cap]
    }
    fn ops(cap: usize, _: &Vec<u64>) -> Vec<Op> {
        let mut v: Vec<Op> = (0..cap).map(Op::Set).collect();
        v.push(Op::ResetAll);
        v
    }
    unsafe fn real(block: *mut u8, _: &mut (), _: &Vec<u64>, _: usize, op: &Op) -> V {
        let s = &*(block as *const CBS);
        match op {
            Op::Set(i) => V::N(s.set(*i)),
            Op::ResetAll => {
                let mut l = Vec::new();
                s.reset_all(|b| {
                    l.push(b.bit() as u64);
                    l.push(b.count());
                });
                V::L(l)
            }
            _ => unreachable!(),
        }
    }
    unsafe fn observe(block: *mut u8, _: &mut (), _: &Vec<u64>, _: usize) -> V {
        let s = &*(block as *const CBS);
        V::N(s.capacity() as u64)
    }
    fn model_step(m: &mut Vec<u64>, _: usize, op: &Op, ret: &V) -> Result<(), String> {
        match op {
            Op::Set(i) => {
                m[*i] += 1;
                expect(ret, V::N(m[*i] - 1))
            }
            Op::ResetAll => {
                let V::L(l) = ret else { unreachable!() };
                let mut got: Vec<(u64, u64)> = l.chunks(2).map(|c| (c[0], c[1])).collect();
                got.sort();
                let want: Vec<(u64, u64)> = m.iter().enumerate().filter(|(_, c)| **c != 0).map(|(b, c)| (b as u64, *c)).collect();
                m.iter_mut().for_each(|c| *c = 0);
                if got == want {
                    Ok(())
                } else {
                    Err(format!("reset_all reported (bit,count) {got:?}, expected {want:?}"))
                }
            }
            _ => unreachable!(),
        }
    }
    fn model_check(_: &mut Vec<u64>, cap: usize, obs: &V) -> Result<(), String> {
        expect(obs, V::N(cap as u64))
    }
    unsafe fn drop_real(block: *mut u8) {
        std::ptr::drop_in_place(block as *mut CBS)
    }
}

// ------------------------------------------------------------------------------------ Container

pub struct SContainer;
type CT = Container<u64>;

#[derive(Hash)]
pub struct ContModel {
    slots: BTreeMap<u64, u64>,
    locked: bool,
    /// a successful add/remove happened since the last update_state()
    changed: bool,
}

pub struct ContAux {
    /// handle of the element currently stored at each index (lives in process-local memory)
    handles: Vec<Option<ContainerHandle>>,
    /// snapshot that is kept across steps and relocations and synced with update_state()
    state: ContainerState<u64>,
}

fn state_list(s: &ContainerState<u64>) -> Vec<u64> {
    let mut l = Vec::new();
    s.for_each(|i, v| {
        l.push(i as u64);
        l.push(*v);
        CallbackProgression::Continue
    });
    l
}

impl Subject for SContainer {
    const KIND: &'static str = "Container";
    type Model = ContModel;
    type Aux = ContAux;
    fn header_size() -> usize {
        std::mem::size_of::<CT>()
    }
    unsafe fn build(block: *mut u8, len: usize, cap: usize) -> Result<(), String> {
        build_container::<CT>(block, len, cap)
    }
    unsafe fn aux(block: *mut u8, cap: usize) -> ContAux {
        ContAux { handles: vec![None; cap], state: (*(block as *const CT)).get_state() }
    }
    fn model(_: usize) -> ContModel {
        ContModel { slots: BTreeMap::new(), locked: false, changed: false }
    }
    fn ops(_: usize, m: &ContModel) -> Vec<Op> {
        let mut v = vec![Op::Add(5), Op::Add(6)];
        for i in m.slots.keys() {
            v.push(Op::RemoveHandle(*i as usize)); // only handles that are currently valid
            v.push(Op::RemoveHandleLock(*i as usize));
        }
        v
    }
    unsafe fn real(block: *mut u8, aux: &mut ContAux, _: &ContModel, _: usize, op: &Op) -> V {
        let s = &*(block as *const CT);
        unsafe fn rm(s: &CT, aux: &mut ContAux, i: usize, mode: ReleaseMode) -> V {
            let h = aux.handles[i].take().expect("handle recorded by add");
            match s.remove(h, mode) {
                Ok(x) => V::S(format!("{x:?}")),
                Err(x) => V::E(format!("{x:?}")),
            }
        }
        match op {
            Op::Add(v) => match s.add(*v, OwnerId::new(OWNER).unwrap()) {
                Ok((ptr, h)) => {
                    let i = h.index();
                    if i < aux.handles.len() {
                        aux.handles[i] = Some(h);
                    }
                    // the element pointer as a block-relative offset, and the value behind it
                    V::T(vec![V::N(i as u64), V::N((ptr as usize).wrapping_sub(block as usize) as u64), V::N(*ptr)])
                }
                Err(x) => V::E(format!("{x:?}")),
            },
            Op::RemoveHandle(i) => rm(s, aux, *i, ReleaseMode::Default),
            Op::RemoveHandleLock(i) => rm(s, aux, *i, ReleaseMode::LockIfLastIndex),
            _ => unreachable!(),
        }
    }
    unsafe fn observe(block: *mut u8, aux: &mut ContAux, _: &ContModel, cap: usize) -> V {
        let s = &*(block as *const CT);
        let changed = s.update_state(&mut aux.state);
        let fresh = s.get_state();
        V::T(vec![
            V::N(s.len() as u64),
            V::B(s.is_locked()),
            V::B(s.is_empty()),
            V::N(s.capacity() as u64),
            V::B(changed),
            V::L(state_list(&aux.state)),
            V::T((0..cap).map(|i| V::O(aux.state.get(i).copied())).collect()),
            V::L(state_list(&fresh)),
        ])
    }
    fn model_step(m: &mut ContModel, cap: usize, op: &Op, ret: &V) -> Result<(), String> {
        let rm = |m: &mut ContModel, i: usize, lock: bool| {
            m.slots.remove(&(i as u64));
            m.changed = true;
            if lock && m.slots.is_empty() {
                m.locked = true;
                expect(ret, st("Locked"))
            } else {
                expect(ret, st("Unlocked"))
            }
        };
        match op {
            Op::Add(v) => {
                if m.locked {
                    return expect(ret, e("IsLocked"));
                }
                if m.slots.len() == cap {
                    return expect(ret, e("OutOfSpace"));
                }
                let V::T(t) = ret else { return Err(format!("space left: expected Ok, got {ret:?}")) };
                let (V::N(i), V::N(off), V::N(val)) = (&t[0], &t[1], &t[2]) else { unreachable!() };
                if *i >= cap as u64 || m.slots.contains_key(i) {
                    return Err(format!("add returned index {i} which is out of range or occupied"));
                }
                if *off >= 4096 {
                    return Err(format!("add returned an element pointer outside the container's memory (relative {off})"));
                }
                if val != v {
                    return Err(format!("the element pointer returned by add({v}) points to {val}"));
                }
                m.slots.insert(*i, *v);
                m.changed = true;
                Ok(())
            }
            Op::RemoveHandle(i) => rm(m, *i, false),
            Op::RemoveHandleLock(i) => rm(m, *i, true),
            _ => unreachable!(),
        }
    }
    fn model_check(m: &mut ContModel, cap: usize, obs: &V) -> Result<(), String> {
        let V::T(o) = obs else { unreachable!() };
        expect(&o[0], V::N(m.slots.len() as u64)).map_err(|e| format!("len: {e}"))?;
        expect(&o[1], V::B(m.locked)).map_err(|e| format!("is_locked: {e}"))?;
        expect(&o[2], V::B(m.slots.is_empty())).map_err(|e| format!("is_empty: {e}"))?;
        expect(&o[3], V::N(cap as u64))?;
        expect(&o[4], V::B(m.changed)).map_err(|e| format!("update_state return value: {e}"))?;
        m.changed = false;
        let want: Vec<(u64, u64)> = m.slots.iter().map(|(k, v)| (*k, *v)).collect();
        for (what, idx) in [("update_state", 5usize), ("get_state", 7)] {
            let V::L(l) = &o[idx] else { unreachable!() };
            let mut got: Vec<(u64, u64)> = l.chunks(2).map(|c| (c[0], c[1])).collect();
            got.sort();
            if got != want {
                return Err(format!("{what}: content {got:?}, expected {want:?}"));
            }
        }
        expect(&o[6], V::T((0..cap as u64).map(|i| V::O(m.slots.get(&i).copied())).collect())).map_err(|e| format!("state.get: {e}"))
    }
    unsafe fn drop_real(block: *mut u8) {
        std::ptr::drop_in_place(block as *mut CT)
    }
}
