//! iceoryx2-cal: RelocatableUsedChunkList and the shm allocators (shm_allocator::PoolAllocator,
//! shm_allocator::BumpAllocator), observed through the PointerOffsets they hand out and accept.
//!
//! Block layout for the allocators (mirrors shared_memory::common::AllocatorDetails + supplementary
//! memory, which all live in ONE shared-memory mapping): allocator object at the block start, its
//! management memory (bump-allocated) behind it, the managed payload region at block offset
//! PAYLOAD. The payload address of an offset is `block + PAYLOAD + offset` in whatever block the
//! instance currently lives (relative_start_address() is 0 because PAYLOAD is 64-aligned).
//!
//! The address scan is switched OFF for the allocators: they store the creator's base address
//! *as a number* by design (pool_allocator.rs: "is even with absolute base address relocatable
//! since every process acquire and return the same relative offset ... the allocator only manages
//! a range of numbers") and C14 quantifies over them "as observed through segment-relative
//! offsets". What must hold is: same offsets, same errors, same payload content as the twin.
//! The *Grow kinds add grow(), whose content move is observable through the offsets. KNOWN FINDING:
//! grow() dereferences `allocator.start_address()`, the creator's absolute address
//! (pool_allocator.rs grow/ContentPlacement::Back, bump_allocator.rs grow: all three copy sites),
//! so after a relocation it copies inside the OLD mapping. With a PROT_NONE old block that is a
//! SIGSEGV which kills the worker and carries the useless signature `crash|signal 11`; therefore
//! the *Grow kinds keep the old block accessible (poisoned with 0xDB) and the defect is reported
//! as `reloc-divergence|Shm{Pool,Bump}Grow.grow_{front,back}` (payload of the grown chunk differs
//! from the twin's).

use std::alloc::Layout;
use std::collections::BTreeSet;
use std::ptr::NonNull;

use iceoryx2_bb_elementary::bump_allocator::BumpAllocator;
use iceoryx2_bb_elementary_traits::allocator::{Allocate, ContentPlacement, Deallocate, Grow};
use iceoryx2_cal::shm_allocator::bump_allocator::BumpAllocator as ShmBump;
use iceoryx2_cal::shm_allocator::pool_allocator::{Config as ShmPoolConfig, PoolAllocator as ShmPool};
use iceoryx2_cal::shm_allocator::{PointerOffset, ShmAllocator};
use iceoryx2_cal::zero_copy_connection::used_chunk_list::RelocatableUsedChunkList;

use crate::{build_container, expect, round64, Op, Subject, V};

fn e(s: &str) -> V {
    V::E(s.to_string())
}

// -------------------------------------------------------------------------------- UsedChunkList

pub struct SUsedChunkList;
type UCL = RelocatableUsedChunkList;

impl Subject for SUsedChunkList {
    const KIND: &'static str = "UsedChunkList";
    type Model = BTreeSet<u64>;
    type Aux = ();
    fn header_size() -> usize {
        std::mem::size_of::<UCL>()
    }
    unsafe fn build(block: *mut u8, len: usize, cap: usize) -> Result<(), String> {
        build_container::<UCL>(block, len, cap)
    }
    unsafe fn aux(_: *mut u8, _: usize) {}
    fn model(_: usize) -> BTreeSet<u64> {
        BTreeSet::new()
    }
    fn ops(cap: usize, _: &BTreeSet<u64>) -> Vec<Op> {
        let mut v: Vec<Op> = (0..cap).map(Op::InsertIdx).collect();
        v.extend((0..cap).map(Op::RemoveIdx));
        v.push(Op::RemoveAll);
        v
    }
    unsafe fn real(block: *mut u8, _: &mut (), _: &BTreeSet<u64>, _: usize, op: &Op) -> V {
        let s = &*(block as *const UCL);
        match op {
            Op::InsertIdx(i) => V::B(s.insert(*i)),
            Op::RemoveIdx(i) => V::B(s.remove(*i)),
            Op::RemoveAll => {
                let mut l = Vec::new();
                s.remove_all(|i| l.push(i as u64));
                V::L(l)
            }
            _ => unreachable!(),
        }
    }
    unsafe fn observe(block: *mut u8, _: &mut (), _: &BTreeSet<u64>, _: usize) -> V {
        V::N((*(block as *const UCL)).capacity() as u64)
    }
    fn model_step(m: &mut BTreeSet<u64>, _: usize, op: &Op, ret: &V) -> Result<(), String> {
        match op {
            Op::InsertIdx(i) => expect(ret, V::B(m.insert(*i as u64))),
            Op::RemoveIdx(i) => expect(ret, V::B(m.remove(&(*i as u64)))),
            Op::RemoveAll => {
                let V::L(l) = ret else { unreachable!() };
                let mut got = l.clone();
                got.sort();
                let want: Vec<u64> = m.iter().copied().collect();
                m.clear();
                if got == want {
                    Ok(())
                } else {
                    Err(format!("remove_all reported {l:?}, the list contained {want:?}"))
                }
            }
            _ => unreachable!(),
        }
    }
    fn model_check(_: &mut BTreeSet<u64>, cap: usize, obs: &V) -> Result<(), String> {
        expect(obs, V::N(cap as u64))
    }
    unsafe fn drop_real(block: *mut u8) {
        std::ptr::drop_in_place(block as *mut UCL)
    }
}

// ------------------------------------------------------------------------------ shm allocators

const PAYLOAD: usize = 2048;
const SMALL: usize = 4;
const GROWN: usize = 8;

#[derive(Hash, Clone, Debug)]
pub struct Rec {
    off: usize,
    size: usize,
    /// where inside the allocation the bytes written at allocation time must be found
    data_off: usize,
    pat: u8,
}

#[derive(Hash)]
pub struct ShmModel {
    live: Vec<Rec>,
    next_pat: u8,
    /// bump allocator only: end of the used space
    cursor: usize,
}

fn lay(size: usize, align: usize) -> Layout {
    Layout::from_size_align(size, align).unwrap()
}

unsafe fn fill(block: *mut u8, off: usize, pat: u8) {
    for i in 0..SMALL {
        block.add(PAYLOAD + off + i).write(pat + i as u8);
    }
}

unsafe fn content(block: *mut u8, m: &ShmModel) -> V {
    V::T(m.live
        .iter()
        .map(|r| V::L((0..SMALL).map(|i| block.add(PAYLOAD + r.off + r.data_off + i).read() as u64).collect()))
        .collect())
}

fn check_content(m: &ShmModel, got: &V) -> Result<(), String> {
    let want = V::T(m.live.iter().map(|r| V::L((0..SMALL).map(|i| (r.pat + i as u8) as u64).collect())).collect());
    expect(got, want).map_err(|e| format!("payload bytes of the live allocations {:?}: {e}", m.live))
}

fn valid_new_range(m: &ShmModel, skip: Option<usize>, off: usize, size: usize, align: usize, region: usize) -> Result<(), String> {
    if off % align != 0 || off + size > region {
        return Err(format!("offset {off} (size {size}, align {align}) is misaligned or outside the {region}-byte payload"));
    }
    for (k, r) in m.live.iter().enumerate() {
        if Some(k) != skip && off < r.off + r.size && r.off < off + size {
            return Err(format!("offset {off} (size {size}) overlaps the live allocation {r:?}"));
        }
    }
    Ok(())
}

fn grow_ops(m: &ShmModel) -> Vec<Op> {
    let mut v = Vec::new();
    for (k, r) in m.live.iter().enumerate() {
        if r.size == SMALL {
            v.push(Op::GrowFront(k));
            v.push(Op::GrowBack(k));
        }
    }
    v
}

fn res_off<E: std::fmt::Debug>(r: Result<PointerOffset, E>) -> V {
    match r {
        Ok(o) => V::T(vec![V::N(o.offset() as u64), V::N(o.segment_id().value() as u64)]),
        Err(x) => V::E(format!("{x:?}")),
    }
}

fn ok_off(ret: &V) -> Option<usize> {
    match ret {
        V::T(t) => match (&t[0], &t[1]) {
            (V::N(o), V::N(0)) => Some(*o as usize),
            _ => None,
        },
        _ => None,
    }
}

// -- pool

pub struct SShmPool<const GROW: bool>;
const BUCKET: usize = 16;

impl<const GROW: bool> Subject for SShmPool<GROW> {
    const KIND: &'static str = if GROW { "ShmPoolGrow" } else { "ShmPool" };
    const SCAN: bool = false;
    const PROTECT_OLD: bool = !GROW;
    type Model = ShmModel;
    type Aux = ();
    fn header_size() -> usize {
        PAYLOAD // header + management memory; selftest 2 then drops the payload region only
    }
    unsafe fn build(block: *mut u8, len: usize, cap: usize) -> Result<(), String> {
        let c = ShmPoolConfig { bucket_layout: lay(BUCKET, 8) };
        let region = cap * BUCKET;
        assert!(PAYLOAD + region <= len);
        let mem = NonNull::slice_from_raw_parts(NonNull::new_unchecked(block.add(PAYLOAD)), region);
        std::ptr::write(block as *mut ShmPool, ShmPool::new_uninit(4096, mem, &c));
        let start = round64(std::mem::size_of::<ShmPool>());
        assert!(start + ShmPool::management_size(region, &c) <= PAYLOAD);
        let a = BumpAllocator::new(NonNull::new_unchecked(block.add(start)), PAYLOAD - start);
        (*(block as *mut ShmPool)).init(&a).map_err(|e| format!("init failed: {e:?}"))
    }
    unsafe fn aux(_: *mut u8, _: usize) {}
    fn model(_: usize) -> ShmModel {
        ShmModel { live: Vec::new(), next_pat: 0x10, cursor: 0 }
    }
    fn ops(_: usize, m: &ShmModel) -> Vec<Op> {
        let mut v = vec![Op::Alloc { size: SMALL, align: 4 }];
        if GROW {
            v.extend(grow_ops(m));
        }
        v.extend((0..m.live.len()).map(Op::Dealloc));
        v
    }
    unsafe fn real(block: *mut u8, _: &mut (), m: &ShmModel, _: usize, op: &Op) -> V {
        let a = (*(block as *const ShmPool)).assume_init();
        match op {
            Op::Alloc { size, align } => {
                let r = a.allocate(lay(*size, *align));
                if let Ok(o) = &r {
                    if o.offset() + SMALL <= PAYLOAD {
                        fill(block, o.offset(), m.next_pat);
                    }
                }
                res_off(r)
            }
            Op::Dealloc(k) => {
                let r = &m.live[*k];
                a.deallocate(PointerOffset::new(r.off), lay(r.size, 4));
                V::Unit
            }
            Op::GrowFront(k) => res_off(a.grow(PointerOffset::new(m.live[*k].off), lay(SMALL, 4), lay(GROWN, 4), ContentPlacement::Front)),
            Op::GrowBack(k) => res_off(a.grow(PointerOffset::new(m.live[*k].off), lay(SMALL, 4), lay(GROWN, 4), ContentPlacement::Back)),
            _ => unreachable!(),
        }
    }
    unsafe fn observe(block: *mut u8, _: &mut (), m: &ShmModel, _: usize) -> V {
        let a = &*(block as *const ShmPool);
        V::T(vec![
            content(block, m),
            V::N(a.relative_start_address() as u64),
            V::N(a.max_alignment() as u64),
            V::N(a.number_of_buckets() as u64),
            V::N(a.bucket_size() as u64),
        ])
    }
    fn model_step(m: &mut ShmModel, cap: usize, op: &Op, ret: &V) -> Result<(), String> {
        let region = cap * BUCKET;
        match op {
            Op::Alloc { size, align } => {
                if m.live.len() == cap {
                    return expect(ret, e("OutOfMemory"));
                }
                let Some(off) = ok_off(ret) else { return Err(format!("free buckets left: expected Ok(offset), got {ret:?}")) };
                valid_new_range(m, None, off, *size, *align, region)?;
                m.live.push(Rec { off, size: *size, data_off: 0, pat: m.next_pat });
                m.next_pat += 0x10;
                Ok(())
            }
            Op::Dealloc(k) => {
                m.live.remove(*k);
                expect(ret, V::Unit)
            }
            Op::GrowFront(k) | Op::GrowBack(k) => {
                // 8 <= bucket size: must succeed; the returned offset may be any valid one
                let Some(off) = ok_off(ret) else { return Err(format!("grow within the bucket size: expected Ok(offset), got {ret:?}")) };
                valid_new_range(m, Some(*k), off, GROWN, 4, region)?;
                let r = &mut m.live[*k];
                r.off = off;
                r.size = GROWN;
                r.data_off = if matches!(op, Op::GrowBack(_)) { GROWN - SMALL } else { 0 };
                Ok(())
            }
            _ => unreachable!(),
        }
    }
    fn model_check(m: &mut ShmModel, cap: usize, obs: &V) -> Result<(), String> {
        let V::T(o) = obs else { unreachable!() };
        check_content(m, &o[0])?;
        expect(&o[1], V::N(0)).map_err(|e| format!("relative_start_address: {e}"))?;
        expect(&o[3], V::N(cap as u64)).map_err(|e| format!("number_of_buckets: {e}"))?;
        expect(&o[4], V::N(BUCKET as u64)).map_err(|e| format!("bucket_size: {e}"))
    }
    unsafe fn drop_real(block: *mut u8) {
        std::ptr::drop_in_place(block as *mut ShmPool)
    }
}

// -- bump

pub struct SShmBump<const GROW: bool>;
const UNIT: usize = 8;

fn align_up(v: usize, a: usize) -> usize {
    v.div_ceil(a) * a
}

impl<const GROW: bool> Subject for SShmBump<GROW> {
    const KIND: &'static str = if GROW { "ShmBumpGrow" } else { "ShmBump" };
    const SCAN: bool = false;
    const PROTECT_OLD: bool = !GROW;
    type Model = ShmModel;
    type Aux = ();
    fn header_size() -> usize {
        PAYLOAD
    }
    unsafe fn build(block: *mut u8, len: usize, cap: usize) -> Result<(), String> {
        let region = cap * UNIT;
        assert!(PAYLOAD + region <= len);
        let mem = NonNull::slice_from_raw_parts(NonNull::new_unchecked(block.add(PAYLOAD)), region);
        std::ptr::write(block as *mut ShmBump, ShmBump::new_uninit(4096, mem, &Default::default()));
        let start = round64(std::mem::size_of::<ShmBump>());
        let a = BumpAllocator::new(NonNull::new_unchecked(block.add(start)), PAYLOAD - start);
        (*(block as *mut ShmBump)).init(&a).map_err(|e| format!("init failed: {e:?}"))
    }
    unsafe fn aux(_: *mut u8, _: usize) {}
    fn model(_: usize) -> ShmModel {
        ShmModel { live: Vec::new(), next_pat: 0x10, cursor: 0 }
    }
    fn ops(_: usize, m: &ShmModel) -> Vec<Op> {
        let mut v = vec![Op::Alloc { size: SMALL, align: 4 }];
        if GROW {
            v.extend(grow_ops(m));
        } else {
            v.push(Op::Alloc { size: 8, align: 8 });
        }
        if !m.live.is_empty() {
            v.push(Op::Reset);
        }
        v
    }
    unsafe fn real(block: *mut u8, _: &mut (), m: &ShmModel, _: usize, op: &Op) -> V {
        let a = (*(block as *const ShmBump)).assume_init();
        match op {
            Op::Alloc { size, align } => {
                let r = a.allocate(lay(*size, *align));
                if let Ok(o) = &r {
                    if o.offset() + SMALL <= PAYLOAD {
                        fill(block, o.offset(), m.next_pat);
                    }
                }
                res_off(r)
            }
            Op::Reset => {
                // documented: deallocating any chunk resets the whole bump allocator
                let r = &m.live[0];
                a.deallocate(PointerOffset::new(r.off), lay(r.size, 4));
                V::Unit
            }
            Op::GrowFront(k) => res_off(a.grow(PointerOffset::new(m.live[*k].off), lay(SMALL, 4), lay(GROWN, 4), ContentPlacement::Front)),
            Op::GrowBack(k) => res_off(a.grow(PointerOffset::new(m.live[*k].off), lay(SMALL, 4), lay(GROWN, 4), ContentPlacement::Back)),
            _ => unreachable!(),
        }
    }
    unsafe fn observe(block: *mut u8, _: &mut (), m: &ShmModel, _: usize) -> V {
        let a = &*(block as *const ShmBump);
        V::T(vec![content(block, m), V::N(a.relative_start_address() as u64), V::N(a.max_alignment() as u64), V::N(a.total_space() as u64)])
    }
    fn model_step(m: &mut ShmModel, cap: usize, op: &Op, ret: &V) -> Result<(), String> {
        let region = cap * UNIT;
        match op {
            Op::Alloc { size, align } => {
                let next = align_up(m.cursor, *align);
                if next + size > region {
                    return expect(ret, e("OutOfMemory"));
                }
                let Some(off) = ok_off(ret) else { return Err(format!("{} bytes left: expected Ok(offset), got {ret:?}", region - next)) };
                valid_new_range(m, None, off, *size, *align, region)?;
                if off != next {
                    return Err(format!("bump allocation expected at offset {next}, got {off}"));
                }
                m.cursor = next + size;
                // only SMALL allocations carry a pattern; the 8-byte ones are tracked for overlap only
                m.live.push(Rec { off, size: *size, data_off: 0, pat: m.next_pat });
                m.next_pat += 0x10;
                Ok(())
            }
            Op::Reset => {
                m.live.clear();
                m.cursor = 0;
                expect(ret, V::Unit)
            }
            Op::GrowFront(k) | Op::GrowBack(k) => {
                let r = m.live[*k].clone();
                let is_last = r.off + r.size == m.cursor;
                let (fits, expected_off, new_cursor) = if is_last {
                    (m.cursor + (GROWN - SMALL) <= region, r.off, m.cursor + (GROWN - SMALL))
                } else {
                    let next = align_up(m.cursor, 4);
                    (next + GROWN <= region, next, next + GROWN)
                };
                if !fits {
                    return expect(ret, e("OutOfMemory"));
                }
                let Some(off) = ok_off(ret) else { return Err(format!("space left: expected Ok(offset), got {ret:?}")) };
                valid_new_range(m, Some(*k), off, GROWN, 4, region)?;
                if off != expected_off {
                    return Err(format!("grown chunk expected at offset {expected_off}, got {off}"));
                }
                m.cursor = new_cursor;
                let r = &mut m.live[*k];
                r.off = off;
                r.size = GROWN;
                r.data_off = if matches!(op, Op::GrowBack(_)) { GROWN - SMALL } else { 0 };
                Ok(())
            }
            _ => unreachable!(),
        }
    }
    fn model_check(m: &mut ShmModel, cap: usize, obs: &V) -> Result<(), String> {
        let V::T(o) = obs else { unreachable!() };
        check_content(m, &o[0])?;
        expect(&o[1], V::N(0)).map_err(|e| format!("relative_start_address: {e}"))?;
        expect(&o[3], V::N((cap * UNIT) as u64)).map_err(|e| format!("total_space: {e}"))
    }
    unsafe fn drop_real(block: *mut u8) {
        std::ptr::drop_in_place(block as *mut ShmBump)
    }
}
