//! iceoryx2-bb-container: RelocatableVec<u64>, RelocatableQueue<u64>, RelocatableString,
//! RelocatableSlotMap<u64>, RelocatableFlatMap<u8,u64>.
//!
//! Kept OUT of the alphabets on purpose (C16-type defects that have nothing to do with relocation):
//! SlotMap::insert_at, SlotMap remove/get/contains with key >= capacity, String::remove(len),
//! capacity 0, Queue::get(i >= len).

use std::collections::{BTreeMap, VecDeque};

use iceoryx2_bb_container::flatmap::RelocatableFlatMap;
use iceoryx2_bb_container::queue::RelocatableQueue;
use iceoryx2_bb_container::slotmap::{RelocatableSlotMap, SlotMapKey};
use iceoryx2_bb_container::string::{RelocatableString, String as _};
use iceoryx2_bb_container::vector::{RelocatableVec, Vector as _};
use iceoryx2_bb_elementary::CallbackProgression;

use crate::{build_container, expect, res_unit, Op, Subject, V};

const FULL: &str = "InsertWouldExceedCapacity";

fn e(s: &str) -> V {
    V::E(s.to_string())
}

// ------------------------------------------------------------------------------------------ Vec

pub struct SVec;
type RV = RelocatableVec<u64>;

impl Subject for SVec {
    const KIND: &'static str = "Vec";
    type Model = Vec<u64>;
    type Aux = ();
    fn header_size() -> usize {
        std::mem::size_of::<RV>()
    }
    unsafe fn build(block: *mut u8, len: usize, cap: usize) -> Result<(), String> {
        build_container::<RV>(block, len, cap)
    }
    unsafe fn aux(_: *mut u8, _: usize) {}
    fn model(_: usize) -> Vec<u64> {
        Vec::new()
    }
    fn ops(_: usize, _: &Vec<u64>) -> Vec<Op> {
        vec![Op::Push(1), Op::Push(2), Op::Pop, Op::Insert0(3), Op::Remove0, Op::Clear]
    }
    unsafe fn real(block: *mut u8, _: &mut (), _: &Vec<u64>, _: usize, op: &Op) -> V {
        let s = &mut *(block as *mut RV);
        match op {
            Op::Push(v) => res_unit(s.push(*v)),
            Op::Pop => V::O(s.pop()),
            Op::Insert0(v) => res_unit(s.insert(0, *v)),
            Op::Remove0 => V::O(s.remove(0)),
            Op::Clear => {
                s.clear();
                V::Unit
            }
            _ => unreachable!(),
        }
    }
    unsafe fn observe(block: *mut u8, _: &mut (), _: &Vec<u64>, _: usize) -> V {
        let s = &*(block as *const RV);
        V::T(vec![
            V::N(s.len() as u64),
            V::L(s.as_slice().to_vec()),
            V::B(s.is_empty()),
            V::B(s.is_full()),
            V::N(s.capacity() as u64),
        ])
    }
    fn model_step(m: &mut Vec<u64>, cap: usize, op: &Op, ret: &V) -> Result<(), String> {
        match op {
            Op::Push(v) => {
                if m.len() < cap {
                    m.push(*v);
                    expect(ret, V::Unit)
                } else {
                    expect(ret, e(FULL))
                }
            }
            Op::Pop => expect(ret, V::O(m.pop())),
            Op::Insert0(v) => {
                if m.len() < cap {
                    m.insert(0, *v);
                    expect(ret, V::Unit)
                } else {
                    expect(ret, e(FULL))
                }
            }
            Op::Remove0 => expect(ret, V::O(if m.is_empty() { None } else { Some(m.remove(0)) })),
            Op::Clear => {
                m.clear();
                expect(ret, V::Unit)
            }
            _ => unreachable!(),
        }
    }
    fn model_check(m: &mut Vec<u64>, cap: usize, obs: &V) -> Result<(), String> {
        expect(
            obs,
            V::T(vec![V::N(m.len() as u64), V::L(m.clone()), V::B(m.is_empty()), V::B(m.len() == cap), V::N(cap as u64)]),
        )
    }
    unsafe fn drop_real(block: *mut u8) {
        std::ptr::drop_in_place(block as *mut RV)
    }
}

// ---------------------------------------------------------------------------------------- Queue

pub struct SQueue;
type RQ = RelocatableQueue<u64>;

impl Subject for SQueue {
    const KIND: &'static str = "Queue";
    type Model = VecDeque<u64>;
    type Aux = ();
    fn header_size() -> usize {
        std::mem::size_of::<RQ>()
    }
    unsafe fn build(block: *mut u8, len: usize, cap: usize) -> Result<(), String> {
        build_container::<RQ>(block, len, cap)
    }
    unsafe fn aux(_: *mut u8, _: usize) {}
    fn model(_: usize) -> VecDeque<u64> {
        VecDeque::new()
    }
    fn ops(_: usize, _: &VecDeque<u64>) -> Vec<Op> {
        vec![Op::Push(1), Op::Push(2), Op::PushOverflow(3), Op::Pop, Op::Clear]
    }
    unsafe fn real(block: *mut u8, _: &mut (), _: &VecDeque<u64>, _: usize, op: &Op) -> V {
        let s = &mut *(block as *mut RQ);
        match op {
            Op::Push(v) => V::B(s.push(*v)),
            Op::PushOverflow(v) => V::O(s.push_with_overflow(*v)),
            Op::Pop => V::O(s.pop()),
            Op::Clear => {
                s.clear();
                V::Unit
            }
            _ => unreachable!(),
        }
    }
    unsafe fn observe(block: *mut u8, _: &mut (), _: &VecDeque<u64>, _: usize) -> V {
        let s = &*(block as *const RQ);
        let n = s.len();
        V::T(vec![
            V::N(n as u64),
            V::O(s.peek().copied()),
            V::L((0..n).map(|i| s.get(i)).collect()),
            V::B(s.is_empty()),
            V::B(s.is_full()),
            V::N(s.capacity() as u64),
        ])
    }
    fn model_step(m: &mut VecDeque<u64>, cap: usize, op: &Op, ret: &V) -> Result<(), String> {
        match op {
            Op::Push(v) => {
                let ok = m.len() < cap;
                if ok {
                    m.push_back(*v);
                }
                expect(ret, V::B(ok))
            }
            Op::PushOverflow(v) => {
                let o = if m.len() == cap { m.pop_front() } else { None };
                m.push_back(*v);
                expect(ret, V::O(o))
            }
            Op::Pop => expect(ret, V::O(m.pop_front())),
            Op::Clear => {
                m.clear();
                expect(ret, V::Unit)
            }
            _ => unreachable!(),
        }
    }
    fn model_check(m: &mut VecDeque<u64>, cap: usize, obs: &V) -> Result<(), String> {
        expect(
            obs,
            V::T(vec![
                V::N(m.len() as u64),
                V::O(m.front().copied()),
                V::L(m.iter().copied().collect()),
                V::B(m.is_empty()),
                V::B(m.len() == cap),
                V::N(cap as u64),
            ]),
        )
    }
    unsafe fn drop_real(block: *mut u8) {
        std::ptr::drop_in_place(block as *mut RQ)
    }
}

// --------------------------------------------------------------------------------------- String

pub struct SStr;
type RS = RelocatableString;

impl Subject for SStr {
    const KIND: &'static str = "Str";
    type Model = Vec<u8>;
    type Aux = ();
    fn header_size() -> usize {
        std::mem::size_of::<RS>()
    }
    unsafe fn build(block: *mut u8, len: usize, cap: usize) -> Result<(), String> {
        build_container::<RS>(block, len, cap)
    }
    unsafe fn aux(_: *mut u8, _: usize) {}
    fn model(_: usize) -> Vec<u8> {
        Vec::new()
    }
    fn ops(_: usize, m: &Vec<u8>) -> Vec<Op> {
        let mut v = vec![Op::Push(b'a' as u64), Op::Push(b'b' as u64), Op::Pop, Op::Insert0(b'c' as u64), Op::Clear];
        if !m.is_empty() {
            // remove(idx == len) is a known non-relocation defect: never generated
            v.push(Op::Remove0);
        }
        v
    }
    unsafe fn real(block: *mut u8, _: &mut (), _: &Vec<u8>, _: usize, op: &Op) -> V {
        let s = &mut *(block as *mut RS);
        match op {
            Op::Push(v) => res_unit(s.push(*v as u8)),
            Op::Pop => V::O(s.pop().map(|b| b as u64)),
            Op::Insert0(v) => res_unit(s.insert(0, *v as u8)),
            Op::Remove0 => V::O(s.remove(0).map(|b| b as u64)),
            Op::Clear => {
                s.clear();
                V::Unit
            }
            _ => unreachable!(),
        }
    }
    unsafe fn observe(block: *mut u8, _: &mut (), _: &Vec<u8>, _: usize) -> V {
        let s = &*(block as *const RS);
        V::T(vec![
            V::N(s.len() as u64),
            V::L(s.as_bytes().iter().map(|b| *b as u64).collect()),
            V::B(s.is_empty()),
            V::B(s.is_full()),
            V::N(s.capacity() as u64),
        ])
    }
    fn model_step(m: &mut Vec<u8>, cap: usize, op: &Op, ret: &V) -> Result<(), String> {
        match op {
            Op::Push(v) => {
                if m.len() < cap {
                    m.push(*v as u8);
                    expect(ret, V::Unit)
                } else {
                    expect(ret, e(FULL))
                }
            }
            Op::Pop => expect(ret, V::O(m.pop().map(|b| b as u64))),
            Op::Insert0(v) => {
                if m.len() < cap {
                    m.insert(0, *v as u8);
                    expect(ret, V::Unit)
                } else {
                    expect(ret, e(FULL))
                }
            }
            Op::Remove0 => expect(ret, V::O(Some(m.remove(0) as u64))),
            Op::Clear => {
                m.clear();
                expect(ret, V::Unit)
            }
            _ => unreachable!(),
        }
    }
    fn model_check(m: &mut Vec<u8>, cap: usize, obs: &V) -> Result<(), String> {
        expect(
            obs,
            V::T(vec![
                V::N(m.len() as u64),
                V::L(m.iter().map(|b| *b as u64).collect()),
                V::B(m.is_empty()),
                V::B(m.len() == cap),
                V::N(cap as u64),
            ]),
        )
    }
    unsafe fn drop_real(block: *mut u8) {
        std::ptr::drop_in_place(block as *mut RS)
    }
}

// -------------------------------------------------------------------------------------- SlotMap

pub struct SSlotMap;
type RSM = RelocatableSlotMap<u64>;

#[derive(Hash)]
pub struct SlotModel {
    slots: BTreeMap<u64, u64>,
    /// last observed next_free_key(): documented to be the key the next insert() uses
    next_free: Option<u64>,
}

impl Subject for SSlotMap {
    const KIND: &'static str = "SlotMap";
    type Model = SlotModel;
    type Aux = ();
    fn header_size() -> usize {
        std::mem::size_of::<RSM>()
    }
    unsafe fn build(block: *mut u8, len: usize, cap: usize) -> Result<(), String> {
        build_container::<RSM>(block, len, cap)
    }
    unsafe fn aux(_: *mut u8, _: usize) {}
    fn model(_: usize) -> SlotModel {
        SlotModel { slots: BTreeMap::new(), next_free: None }
    }
    fn ops(cap: usize, _: &SlotModel) -> Vec<Op> {
        let mut v = vec![Op::Insert(1), Op::Insert(2)];
        v.extend((0..cap as u64).map(Op::RemoveKey)); // key < capacity only
        v
    }
    unsafe fn real(block: *mut u8, _: &mut (), _: &SlotModel, _: usize, op: &Op) -> V {
        let s = &mut *(block as *mut RSM);
        match op {
            Op::Insert(v) => V::O(s.insert(*v).map(|k| k.value() as u64)),
            Op::RemoveKey(k) => V::O(s.remove(SlotMapKey::new(*k as usize))),
            _ => unreachable!(),
        }
    }
    unsafe fn observe(block: *mut u8, _: &mut (), _: &SlotModel, cap: usize) -> V {
        let s = &*(block as *const RSM);
        let mut it = Vec::new();
        for (k, v) in s.iter() {
            it.push(k.value() as u64);
            it.push(*v);
        }
        V::T(vec![
            V::N(s.len() as u64),
            V::O(s.next_free_key().map(|k| k.value() as u64)),
            V::L((0..cap).map(|k| s.contains(SlotMapKey::new(k)) as u64).collect()),
            V::T((0..cap).map(|k| V::O(s.get(SlotMapKey::new(k)).copied())).collect()),
            V::L(it),
            V::B(s.is_empty()),
            V::B(s.is_full()),
            V::N(s.capacity() as u64),
        ])
    }
    fn model_step(m: &mut SlotModel, cap: usize, op: &Op, ret: &V) -> Result<(), String> {
        match op {
            Op::Insert(v) => {
                if m.slots.len() == cap {
                    return expect(ret, V::O(None));
                }
                let V::O(Some(k)) = ret else { return Err(format!("map not full: expected Some(key), got {ret:?}")) };
                if *k >= cap as u64 || m.slots.contains_key(k) {
                    return Err(format!("insert returned key {k} which is out of range or already occupied"));
                }
                if let Some(p) = m.next_free {
                    if p != *k {
                        return Err(format!("insert used key {k} but next_free_key() had announced {p}"));
                    }
                }
                m.slots.insert(*k, *v);
                Ok(())
            }
            Op::RemoveKey(k) => expect(ret, V::O(m.slots.remove(k))),
            _ => unreachable!(),
        }
    }
    fn model_check(m: &mut SlotModel, cap: usize, obs: &V) -> Result<(), String> {
        let V::T(o) = obs else { unreachable!() };
        expect(&o[0], V::N(m.slots.len() as u64)).map_err(|e| format!("len: {e}"))?;
        match &o[1] {
            V::O(None) if m.slots.len() == cap => m.next_free = None,
            V::O(Some(k)) if m.slots.len() < cap && *k < cap as u64 && !m.slots.contains_key(k) => m.next_free = Some(*k),
            x => return Err(format!("next_free_key: {x:?} with occupied keys {:?} of {cap}", m.slots.keys().collect::<Vec<_>>())),
        }
        expect(&o[2], V::L((0..cap as u64).map(|k| m.slots.contains_key(&k) as u64).collect())).map_err(|e| format!("contains: {e}"))?;
        expect(&o[3], V::T((0..cap as u64).map(|k| V::O(m.slots.get(&k).copied())).collect())).map_err(|e| format!("get: {e}"))?;
        // iteration order is not documented: compare as a set of pairs
        let V::L(it) = &o[4] else { unreachable!() };
        let mut got: Vec<(u64, u64)> = it.chunks(2).map(|c| (c[0], c[1])).collect();
        got.sort();
        let want: Vec<(u64, u64)> = m.slots.iter().map(|(k, v)| (*k, *v)).collect();
        if got != want {
            return Err(format!("iter: expected (any order) {want:?}, got {got:?}"));
        }
        expect(&o[5], V::B(m.slots.is_empty()))?;
        expect(&o[6], V::B(m.slots.len() == cap))?;
        expect(&o[7], V::N(cap as u64))
    }
    unsafe fn drop_real(block: *mut u8) {
        std::ptr::drop_in_place(block as *mut RSM)
    }
}

// -------------------------------------------------------------------------------------- FlatMap

pub struct SFlatMap;
type RFM = RelocatableFlatMap<u8, u64>;

impl Subject for SFlatMap {
    const KIND: &'static str = "FlatMap";
    type Model = BTreeMap<u8, u64>;
    type Aux = ();
    fn header_size() -> usize {
        std::mem::size_of::<RFM>()
    }
    unsafe fn build(block: *mut u8, len: usize, cap: usize) -> Result<(), String> {
        build_container::<RFM>(block, len, cap)
    }
    unsafe fn aux(_: *mut u8, _: usize) {}
    fn model(_: usize) -> BTreeMap<u8, u64> {
        BTreeMap::new()
    }
    fn ops(_: usize, _: &BTreeMap<u8, u64>) -> Vec<Op> {
        vec![
            Op::InsertKV(0, 10),
            Op::InsertKV(1, 11),
            Op::InsertKV(2, 12),
            Op::InsertKV(0, 20),
            Op::RemoveKey(0),
            Op::RemoveKey(1),
            Op::RemoveKey(2),
        ]
    }
    unsafe fn real(block: *mut u8, _: &mut (), _: &BTreeMap<u8, u64>, _: usize, op: &Op) -> V {
        let s = &mut *(block as *mut RFM);
        match op {
            Op::InsertKV(k, v) => res_unit(s.insert(*k, *v)),
            Op::RemoveKey(k) => V::O(s.remove(&(*k as u8))),
            _ => unreachable!(),
        }
    }
    unsafe fn observe(block: *mut u8, _: &mut (), _: &BTreeMap<u8, u64>, _: usize) -> V {
        let s = &*(block as *const RFM);
        let mut keys = Vec::new();
        s.list_keys(|k| {
            keys.push(*k as u64);
            CallbackProgression::Continue
        });
        V::T(vec![
            V::N(s.len() as u64),
            V::T((0..3u8).map(|k| V::O(s.get(&k))).collect()),
            V::L((0..3u8).map(|k| s.contains(&k) as u64).collect()),
            V::L(keys),
            V::B(s.is_empty()),
            V::B(s.is_full()),
        ])
    }
    fn model_step(m: &mut BTreeMap<u8, u64>, cap: usize, op: &Op, ret: &V) -> Result<(), String> {
        match op {
            Op::InsertKV(k, v) => {
                let exists = m.contains_key(k);
                let full = m.len() == cap;
                match (exists, full) {
                    (false, false) => {
                        m.insert(*k, *v);
                        expect(ret, V::Unit)
                    }
                    (true, false) => expect(ret, e("KeyAlreadyExists")),
                    (false, true) => expect(ret, e("IsFull")),
                    // both documented errors apply, their priority is not documented
                    (true, true) => {
                        if *ret == e("KeyAlreadyExists") || *ret == e("IsFull") {
                            Ok(())
                        } else {
                            Err(format!("expected KeyAlreadyExists or IsFull, got {ret:?}"))
                        }
                    }
                }
            }
            Op::RemoveKey(k) => expect(ret, V::O(m.remove(&(*k as u8)))),
            _ => unreachable!(),
        }
    }
    fn model_check(m: &mut BTreeMap<u8, u64>, cap: usize, obs: &V) -> Result<(), String> {
        let V::T(o) = obs else { unreachable!() };
        expect(&o[0], V::N(m.len() as u64)).map_err(|e| format!("len: {e}"))?;
        expect(&o[1], V::T((0..3u8).map(|k| V::O(m.get(&k).copied())).collect())).map_err(|e| format!("get: {e}"))?;
        expect(&o[2], V::L((0..3u8).map(|k| m.contains_key(&k) as u64).collect())).map_err(|e| format!("contains: {e}"))?;
        let V::L(keys) = &o[3] else { unreachable!() };
        let mut got = keys.clone();
        got.sort();
        let want: Vec<u64> = m.keys().map(|k| *k as u64).collect();
        if got != want {
            return Err(format!("list_keys: expected (any order) {want:?}, got {keys:?}"));
        }
        expect(&o[4], V::B(m.is_empty()))?;
        expect(&o[5], V::B(m.len() == cap))
    }
    unsafe fn drop_real(block: *mut u8) {
        std::ptr::drop_in_place(block as *mut RFM)
    }
}
