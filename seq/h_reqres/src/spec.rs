//! Reference model of request-response as documented (API docs + property C11).
//!
//! * a request is delivered to every server that exists when it is sent (bounded queue per
//!   client connection: overflow evicts the oldest, otherwise the request is not delivered to the
//!   server with the full queue); a server receives the requests of one client in send order;
//!   requests whose pending response is gone are skipped unless fire-and-forget is enabled;
//!   a server holds at most `a` active requests per client;
//! * a response sent through an active request goes to the stream (FIFO, bounded by `b`, overflow
//!   evicts the oldest, otherwise the new response is discarded) of exactly that request and
//!   that server - or nowhere when the pending response is gone;
//! * dropping the pending response closes the stream for every server, dropping the active
//!   request closes it for that server; already buffered responses stay receivable.
//!
//! The only nondeterminism: the order in which a server polls its client connections.

use std::collections::{BTreeMap, VecDeque};

pub type Rid = u32;
pub type Pid = u32;
pub type Uid = u32;

#[derive(Clone, Copy, Debug)]
pub struct Lim {
    pub a: usize,
    pub b: usize,
    pub r: usize,
    pub l: usize,
    #[allow(dead_code)]
    pub lr: usize,
    pub ovf_req: bool,
    pub ovf_resp: bool,
    pub ff: bool,
}

#[derive(Clone, Debug, PartialEq, Eq)]
pub enum Obs {
    Sent { ok: bool, nconn: usize },
    /// send_copy needs a loan and the user holds all of them
    SentNoLoan,
    Req(Option<Rid>),
    ReqErrBorrows,
    Resp(Option<(Rid, Pid)>),
    RespErrBorrows,
}

#[derive(Clone, Copy, Debug, PartialEq, Eq)]
pub enum Tri {
    True,
    False,
    /// the documentation does not determine the value
    Any,
}

impl Tri {
    pub fn admits(self, v: bool) -> bool {
        match self {
            Tri::True => v,
            Tri::False => !v,
            Tri::Any => true,
        }
    }
}

#[derive(Clone, Copy, Debug)]
pub enum Watch {
    PendConnected(usize, usize),
    PendHasResponse(usize, usize),
    ActConnected(usize, usize),
    ActHint(usize, usize),
}

#[derive(Clone, Copy, Debug, PartialEq, Eq, PartialOrd, Ord, Hash)]
pub enum LinkSt {
    /// in the request queue of a live server
    Queued,
    /// the server holds the active request
    Active,
    /// the server dropped (or skipped) the active request
    Closed,
    /// never delivered to / evicted from the queue of the server: no active request will ever exist
    Lost,
    /// the server was dropped before it received the request
    Gone,
}

#[derive(Clone, Debug, PartialEq, Eq, PartialOrd, Ord, Hash)]
pub struct LinkM {
    pub st: LinkSt,
    pub fifo: VecDeque<Pid>,
    pub borrowed: usize,
}

#[derive(Clone, Debug, PartialEq, Eq, PartialOrd, Ord, Hash)]
pub struct ReqM {
    pub client: Uid,
    /// the pending response exists
    pub alive: bool,
    pub hint: bool,
    pub links: BTreeMap<Uid, LinkM>,
}

#[derive(Clone, Debug, PartialEq, Eq, PartialOrd, Ord, Hash)]
pub struct PendM {
    pub rid: Rid,
    pub held: Vec<(Uid, Pid)>,
}

#[derive(Clone, Debug, PartialEq, Eq, PartialOrd, Ord, Hash)]
pub struct ClientM {
    pub uid: Uid,
    pub pend: Vec<PendM>,
    /// number of requests sent (saturating) - only to tell histories apart in frontier mode
    pub sent: u8,
    /// servers this client has discovered (at creation, on every send and receive)
    pub known: Vec<Uid>,
    /// discovered servers that were dropped since; the client notices on its next receive, and
    /// until a receive has found nothing left from them `is_connected` is not determined
    pub ghosts: Vec<Uid>,
    /// a pending response was dropped while responses were still buffered for it
    pub garbage: bool,
    /// a server sent a response for a request of this client after its pending response was dropped
    pub stale: bool,
    /// request loans the user holds
    pub loans: usize,
}

#[derive(Clone, Debug, PartialEq, Eq, PartialOrd, Ord, Hash)]
pub struct ActM {
    pub rid: Rid,
    /// a response was sent after the pending response was dropped (frontier diversification)
    pub stale_sent: bool,
    /// response loans the user holds
    pub loans: usize,
}

#[derive(Clone, Debug, PartialEq, Eq, PartialOrd, Ord, Hash)]
pub struct ServerM {
    pub uid: Uid,
    pub act: Vec<ActM>,
    /// undelivered requests per client (uid), also of clients that no longer exist
    pub inq: BTreeMap<Uid, VecDeque<Rid>>,
    /// clients whose request connection this server has opened (a port discovers its peers when
    /// it is created and whenever it receives or sends, see `UpdateConnections`); the requests of
    /// a client that disappears before the server has ever opened the connection are gone with it
    pub attached: Vec<Uid>,
}

#[derive(Clone, Debug, PartialEq, Eq, PartialOrd, Ord, Hash)]
pub struct Spec {
    pub clients: Vec<Option<ClientM>>,
    pub servers: Vec<Option<ServerM>>,
    pub reqs: BTreeMap<Rid, ReqM>,
}

impl Spec {
    pub fn new(max_clients: usize, max_servers: usize) -> Self {
        Spec { clients: vec![None; max_clients], servers: vec![None; max_servers], reqs: BTreeMap::new() }
    }

    pub fn create_client(&mut self, idx: usize, uid: Uid) {
        self.clients[idx] = Some(ClientM { uid, pend: Vec::new(), sent: 0, known: Vec::new(), ghosts: Vec::new(), garbage: false, stale: false, loans: 0 });
        self.discover(idx);
    }

    /// client `c` discovers all servers that exist right now
    pub fn discover(&mut self, c: usize) {
        let alive: Vec<Uid> = self.servers.iter().flatten().map(|s| s.uid).collect();
        if let Some(cl) = self.clients[c].as_mut() {
            cl.known = alive;
        }
    }

    pub fn create_server(&mut self, idx: usize, uid: Uid) {
        self.servers[idx] = Some(ServerM { uid, act: Vec::new(), inq: BTreeMap::new(), attached: Vec::new() });
        self.attach(idx);
    }

    /// server `s` discovers all clients that exist right now
    pub fn attach(&mut self, s: usize) {
        let alive: Vec<Uid> = self.clients.iter().flatten().map(|c| c.uid).collect();
        if let Some(sv) = self.servers[s].as_mut() {
            sv.attached = alive;
        }
    }

    pub fn req_alive(&self, rid: Rid) -> bool {
        self.reqs.get(&rid).map(|r| r.alive).unwrap_or(false)
    }

    pub fn hint_set(&self, rid: Rid) -> bool {
        self.reqs.get(&rid).map(|r| r.hint).unwrap_or(false)
    }

    fn server_alive(&self, uid: Uid) -> bool {
        self.servers.iter().flatten().any(|s| s.uid == uid)
    }

    fn client_alive(&self, uid: Uid) -> bool {
        self.clients.iter().flatten().any(|s| s.uid == uid)
    }

    // ---------------------------------------------------------------- requests

    /// `from_loan`: the request was loaned before (the loan is used up whatever the outcome);
    /// otherwise the send loans by itself
    pub fn send_request(&self, lim: &Lim, c: usize, rid: Rid, from_loan: bool) -> Vec<(Obs, Spec)> {
        let cl = self.clients[c].as_ref().expect("client");
        if !from_loan && cl.loans >= lim.l {
            return vec![(Obs::SentNoLoan, self.clone())];
        }
        let mut n = self.clone();
        if from_loan {
            let l = &mut n.clients[c].as_mut().unwrap().loans;
            *l = l.saturating_sub(1);
        }
        if cl.pend.len() >= lim.a {
            return vec![(Obs::Sent { ok: false, nconn: 0 }, n)];
        }
        let cuid = cl.uid;
        n.discover(c);
        let mut links = BTreeMap::new();
        let mut evicted: Vec<(Uid, Rid)> = Vec::new();
        for sv in n.servers.iter_mut().flatten() {
            let q = sv.inq.entry(cuid).or_default();
            let st = if q.len() >= lim.a {
                if lim.ovf_req {
                    if let Some(e) = q.pop_front() {
                        evicted.push((sv.uid, e));
                    }
                    q.push_back(rid);
                    LinkSt::Queued
                } else {
                    LinkSt::Lost
                }
            } else {
                q.push_back(rid);
                LinkSt::Queued
            };
            links.insert(sv.uid, LinkM { st, fifo: VecDeque::new(), borrowed: 0 });
        }
        for (su, e) in evicted {
            if let Some(l) = n.reqs.get_mut(&e).and_then(|r| r.links.get_mut(&su)) {
                l.st = LinkSt::Lost;
            }
        }
        let nconn = links.values().filter(|l| l.st == LinkSt::Queued).count();
        n.reqs.insert(rid, ReqM { client: cuid, alive: true, hint: false, links });
        let cl = n.clients[c].as_mut().unwrap();
        cl.pend.push(PendM { rid, held: Vec::new() });
        cl.sent = cl.sent.saturating_add(1).min(12);
        vec![(Obs::Sent { ok: true, nconn }, n)]
    }

    fn deliverable(&self, lim: &Lim, rid: Rid) -> bool {
        lim.ff || self.req_alive(rid)
    }

    fn holds(&self, s: usize, cu: Uid) -> usize {
        let sv = self.servers[s].as_ref().unwrap();
        sv.act.iter().filter(|a| self.reqs.get(&a.rid).map(|r| r.client) == Some(cu)).count()
    }

    /// removes the first `n` (skippable) requests of the queue of client `cu`
    fn skip(&mut self, s: usize, cu: Uid, n: usize) {
        let sv = self.servers[s].as_mut().unwrap();
        let suid = sv.uid;
        let mut gone = Vec::new();
        if let Some(q) = sv.inq.get_mut(&cu) {
            for _ in 0..n {
                if let Some(r) = q.pop_front() {
                    gone.push(r);
                }
            }
        }
        for r in gone {
            if let Some(l) = self.reqs.get_mut(&r).and_then(|r| r.links.get_mut(&suid)) {
                l.st = LinkSt::Closed;
            }
        }
    }

    pub fn recv_request(&self, lim: &Lim, s: usize) -> Vec<(Obs, Spec)> {
        let mut this = self.clone();
        this.attach(s);
        this.recv_request_attached(lim, s)
    }

    fn recv_request_attached(&self, lim: &Lim, s: usize) -> Vec<(Obs, Spec)> {
        let sv = self.servers[s].as_ref().expect("server");
        let suid = sv.uid;
        struct Q {
            cu: Uid,
            eligible: bool,
            first: Option<usize>,
            len: usize,
        }
        let infos: Vec<Q> = sv
            .inq
            .iter()
            .filter(|(_, q)| !q.is_empty())
            .map(|(cu, q)| Q { cu: *cu, eligible: self.holds(s, *cu) < lim.a, first: q.iter().position(|r| self.deliverable(lim, *r)), len: q.len() })
            .collect();
        let mut out = Vec::new();
        let chosen: Vec<&Q> = infos.iter().filter(|q| q.eligible && q.first.is_some()).collect();
        if !chosen.is_empty() {
            for q in chosen {
                let d: Vec<&Q> = infos.iter().filter(|o| o.cu != q.cu && o.eligible && o.first.is_none()).collect();
                for mask in 0..(1usize << d.len()) {
                    let mut n = self.clone();
                    for (i, o) in d.iter().enumerate() {
                        if (mask >> i) & 1 == 1 {
                            n.skip(s, o.cu, o.len);
                        }
                    }
                    let i = q.first.unwrap();
                    n.skip(s, q.cu, i);
                    let rid = n.servers[s].as_mut().unwrap().inq.get_mut(&q.cu).unwrap().pop_front().unwrap();
                    if let Some(l) = n.reqs.get_mut(&rid).and_then(|r| r.links.get_mut(&suid)) {
                        l.st = LinkSt::Active;
                    }
                    n.servers[s].as_mut().unwrap().act.push(ActM { rid, stale_sent: false, loans: 0 });
                    out.push((Obs::Req(Some(rid)), n));
                }
            }
        } else {
            let mut n = self.clone();
            for o in infos.iter().filter(|o| o.eligible) {
                n.skip(s, o.cu, o.len);
            }
            let blocked = infos.iter().any(|o| !o.eligible);
            out.push((if blocked { Obs::ReqErrBorrows } else { Obs::Req(None) }, n));
        }
        out
    }

    /// `Server::has_requests` (after the server has discovered its clients)
    pub fn expect_has_requests(&self, lim: &Lim, s: usize) -> Tri {
        let sv = self.servers[s].as_ref().expect("server");
        let mut any = false;
        for q in sv.inq.values() {
            for r in q {
                any = true;
                if self.deliverable(lim, *r) {
                    return Tri::True;
                }
            }
        }
        if any {
            Tri::Any
        } else {
            Tri::False
        }
    }

    pub fn classify_unexpected_request(&self, lim: &Lim, s: usize, rid: Rid) -> &'static str {
        let sv = match self.servers[s].as_ref() {
            Some(s) => s,
            None => return "other",
        };
        let cu = match self.reqs.get(&rid) {
            Some(r) => r.client,
            None => return "request of a pending response that was dropped and that is not queued (fire-and-forget disabled or evicted)",
        };
        match sv.inq.get(&cu).and_then(|q| q.iter().position(|r| *r == rid)) {
            None => "request is not in the queue of this server (evicted, refused or already received)",
            Some(i) => {
                if !self.deliverable(lim, rid) {
                    "request whose pending response was dropped, fire-and-forget disabled"
                } else if self.holds(s, cu) >= lim.a {
                    "client is at the active-request limit of this server"
                } else if sv.inq[&cu].iter().take(i).any(|r| self.deliverable(lim, *r)) {
                    "older request of the same client is still queued (order)"
                } else {
                    "other"
                }
            }
        }
    }

    // ---------------------------------------------------------------- responses

    pub fn send_response(&mut self, lim: &Lim, s: usize, k: usize, pid: Pid) {
        self.attach(s);
        let sv = self.servers[s].as_mut().expect("server");
        let suid = sv.uid;
        let a = &mut sv.act[k];
        let rid = a.rid;
        let req = match self.reqs.get_mut(&rid) {
            Some(r) => r,
            None => return,
        };
        if !req.alive {
            a.stale_sent = true;
            let cu = req.client;
            if let Some(cl) = self.clients.iter_mut().flatten().find(|c| c.uid == cu) {
                cl.stale = true;
            }
            return;
        }
        if let Some(l) = req.links.get_mut(&suid) {
            if l.fifo.len() >= lim.b {
                if lim.ovf_resp {
                    l.fifo.pop_front();
                    l.fifo.push_back(pid);
                }
            } else {
                l.fifo.push_back(pid);
            }
        }
    }

    pub fn response_sender(&self, rid: Rid, pid: Pid) -> Option<Uid> {
        self.reqs.get(&rid)?.links.iter().find(|(_, l)| l.fifo.contains(&pid)).map(|(u, _)| *u)
    }

    fn client_holds_from(&self, c: usize, su: Uid) -> bool {
        self.clients[c].as_ref().map(|cl| cl.pend.iter().any(|p| p.held.iter().any(|(u, _)| *u == su))).unwrap_or(false)
    }

    pub fn recv_response(&self, lim: &Lim, c: usize, k: usize, keep: bool) -> Vec<(Obs, Spec)> {
        let mut this = self.clone();
        this.discover(c);
        this.recv_response_discovered(lim, c, k, keep)
    }

    fn recv_response_discovered(&self, lim: &Lim, c: usize, k: usize, keep: bool) -> Vec<(Obs, Spec)> {
        let cl = self.clients[c].as_ref().expect("client");
        let rid = cl.pend[k].rid;
        let req = &self.reqs[&rid];
        let nonempty: Vec<Uid> = req.links.iter().filter(|(_, l)| !l.fifo.is_empty()).map(|(u, _)| *u).collect();
        let eligible: Vec<Uid> = nonempty.iter().copied().filter(|u| req.links[u].borrowed < lim.r).collect();
        let mut out = Vec::new();
        if !eligible.is_empty() {
            for su in eligible {
                let mut n = self.clone();
                let l = n.reqs.get_mut(&rid).unwrap().links.get_mut(&su).unwrap();
                let pid = l.fifo.pop_front().unwrap();
                if keep {
                    l.borrowed += 1;
                    n.clients[c].as_mut().unwrap().pend[k].held.push((su, pid));
                }
                out.push((Obs::Resp(Some((rid, pid))), n));
            }
        } else if !nonempty.is_empty() {
            out.push((Obs::RespErrBorrows, self.clone()));
        } else {
            // drained: the client has looked at every connection; what is left of a dropped server
            // (nothing buffered for this request, nothing borrowed) is forgotten now
            let mut n = self.clone();
            let cuid = cl.uid;
            let forget: Vec<Uid> = cl.ghosts.iter().copied().filter(|su| !self.client_holds_from(c, *su)).collect();
            n.clients[c].as_mut().unwrap().ghosts.retain(|su| !forget.contains(su));
            for r in n.reqs.values_mut().filter(|r| r.client == cuid) {
                for (su, l) in r.links.iter_mut() {
                    if l.st == LinkSt::Gone && forget.contains(su) {
                        l.st = LinkSt::Closed;
                    }
                }
            }
            out.push((Obs::Resp(None), n));
        }
        out
    }

    pub fn classify_unexpected_response(&self, rid: Rid, pid: Pid) -> &'static str {
        let req = match self.reqs.get(&rid) {
            Some(r) => r,
            None => return "other",
        };
        let tainted = self.clients.iter().flatten().any(|c| c.uid == req.client && (c.stale || c.garbage));
        for l in req.links.values() {
            if let Some(i) = l.fifo.iter().position(|p| *p == pid) {
                return match (i > 0, tainted) {
                    (true, false) => "not the oldest buffered response of its server (order)",
                    // responses of an abandoned request sit in the reused channel and take buffer space
                    (true, true) => "not the oldest buffered response of its server (order) (channel reused)",
                    (false, _) => "stream is at the borrow limit",
                };
            }
        }
        "response that was evicted, discarded (buffer full) or sent after the pending response of an earlier request was dropped"
    }

    pub fn classify_lost_response(&self, rid: Rid) -> &'static str {
        let req = match self.reqs.get(&rid) {
            Some(r) => r,
            None => return "other",
        };
        let mut live = false;
        let mut dead = false;
        for (su, l) in &req.links {
            if !l.fifo.is_empty() {
                if self.server_alive(*su) {
                    live = true;
                } else {
                    dead = true;
                }
            }
        }
        let tainted = self.clients.iter().flatten().any(|c| c.uid == req.client && (c.stale || c.garbage));
        match (live, dead) {
            (true, _) if tainted => "buffered response of a live server (channel reused)",
            (true, _) => "buffered response of a live server",
            (false, true) => "buffered response of a server that was dropped afterwards",
            _ => "other",
        }
    }

    pub fn release_response(&mut self, c: usize, k: usize) {
        let p = &mut self.clients[c].as_mut().expect("client").pend[k];
        let rid = p.rid;
        let (su, _) = p.held.remove(0);
        if let Some(l) = self.reqs.get_mut(&rid).and_then(|r| r.links.get_mut(&su)) {
            l.borrowed = l.borrowed.saturating_sub(1);
        }
    }

    // ---------------------------------------------------------------- closing

    pub fn drop_pending(&mut self, c: usize, k: usize) {
        let p = self.clients[c].as_mut().expect("client").pend.remove(k);
        let mut garbage = false;
        if let Some(r) = self.reqs.get_mut(&p.rid) {
            r.alive = false;
            r.hint = false;
            for l in r.links.values_mut() {
                garbage |= !l.fifo.is_empty();
                l.fifo.clear();
                l.borrowed = 0;
            }
        }
        if garbage {
            self.clients[c].as_mut().unwrap().garbage = true;
        }
    }

    pub fn drop_active(&mut self, s: usize, k: usize) {
        let sv = self.servers[s].as_mut().expect("server");
        let suid = sv.uid;
        let a = sv.act.remove(k);
        if let Some(l) = self.reqs.get_mut(&a.rid).and_then(|r| r.links.get_mut(&suid)) {
            l.st = LinkSt::Closed;
        }
    }

    pub fn set_hint(&mut self, c: usize, k: usize) {
        let rid = self.clients[c].as_ref().expect("client").pend[k].rid;
        if let Some(r) = self.reqs.get_mut(&rid) {
            r.hint = true;
        }
    }

    pub fn drop_client(&mut self, c: usize) {
        while !self.clients[c].as_ref().expect("client").pend.is_empty() {
            self.drop_pending(c, 0);
        }
        let cuid = self.clients[c].as_ref().unwrap().uid;
        self.clients[c] = None;
        for sv in self.servers.iter_mut().flatten() {
            if !sv.attached.contains(&cuid) {
                sv.inq.remove(&cuid);
            }
            sv.attached.retain(|u| *u != cuid);
        }
    }

    pub fn drop_server(&mut self, s: usize) {
        while !self.servers[s].as_ref().expect("server").act.is_empty() {
            self.drop_active(s, 0);
        }
        let sv = self.servers[s].take().unwrap();
        for cl in self.clients.iter_mut().flatten() {
            if cl.known.contains(&sv.uid) {
                cl.known.retain(|u| *u != sv.uid);
                cl.ghosts.push(sv.uid);
            }
        }
        for r in self.reqs.values_mut() {
            if let Some(l) = r.links.get_mut(&sv.uid) {
                if l.st == LinkSt::Queued || l.st == LinkSt::Lost {
                    l.st = LinkSt::Gone;
                }
            }
        }
    }

    /// forget requests nobody can observe any more
    pub fn gc(&mut self) {
        let mut used: Vec<Rid> = Vec::new();
        for sv in self.servers.iter().flatten() {
            used.extend(sv.act.iter().map(|a| a.rid));
            for q in sv.inq.values() {
                used.extend(q.iter().copied());
            }
        }
        self.reqs.retain(|rid, r| r.alive || used.contains(rid));
        let alive: Vec<Uid> = self.clients.iter().flatten().map(|c| c.uid).collect();
        for sv in self.servers.iter_mut().flatten() {
            sv.inq.retain(|cu, q| !q.is_empty() || alive.contains(cu));
        }
        // streams of dead requests carry no information
        let live_servers: Vec<Uid> = self.servers.iter().flatten().map(|s| s.uid).collect();
        for r in self.reqs.values_mut() {
            if !r.alive {
                r.links.retain(|su, l| live_servers.contains(su) && (l.st == LinkSt::Queued || l.st == LinkSt::Active));
            }
        }
    }

    // ---------------------------------------------------------------- observers

    pub fn expect(&self, w: &Watch) -> Tri {
        match *w {
            Watch::PendConnected(c, k) => {
                let rid = self.clients[c].as_ref().unwrap().pend[k].rid;
                let req = &self.reqs[&rid];
                if req.links.values().any(|l| l.st == LinkSt::Queued || l.st == LinkSt::Active) {
                    Tri::True
                } else if req.links.values().any(|l| l.st == LinkSt::Lost || l.st == LinkSt::Gone) || !self.clients[c].as_ref().unwrap().ghosts.is_empty() {
                    Tri::Any
                } else {
                    Tri::False
                }
            }
            Watch::PendHasResponse(c, k) => {
                let rid = self.clients[c].as_ref().unwrap().pend[k].rid;
                if self.reqs[&rid].links.values().any(|l| !l.fifo.is_empty()) {
                    Tri::True
                } else {
                    Tri::False
                }
            }
            Watch::ActConnected(s, k) => {
                let rid = self.servers[s].as_ref().unwrap().act[k].rid;
                if self.req_alive(rid) {
                    Tri::True
                } else {
                    Tri::False
                }
            }
            Watch::ActHint(s, k) => {
                let rid = self.servers[s].as_ref().unwrap().act[k].rid;
                if self.req_alive(rid) && self.hint_set(rid) {
                    Tri::True
                } else {
                    Tri::False
                }
            }
        }
    }

    pub fn classify_pending(&self, c: usize, k: usize) -> String {
        let rid = self.clients[c].as_ref().unwrap().pend[k].rid;
        let req = &self.reqs[&rid];
        if req.links.is_empty() {
            return "no server existed when the request was sent".into();
        }
        let mut st: Vec<LinkSt> = req.links.values().map(|l| l.st).collect();
        st.sort();
        st.dedup();
        format!("streams: {st:?}")
    }

    pub fn classify_phantom_response(&self, c: usize, k: usize) -> String {
        let _ = k;
        let stale: Vec<&ActM> = self.servers.iter().flatten().flat_map(|s| s.act.iter()).filter(|a| a.stale_sent).collect();
        let cl = self.clients[c].as_ref();
        if stale.iter().any(|a| self.reqs.get(&a.rid).map(|r| !self.client_alive(r.client)).unwrap_or(true)) {
            "a held active request of a dropped client sent a response (client slot reused)".into()
        } else if cl.map(|c| c.stale).unwrap_or(false) {
            "a response was sent through an active request after its pending response was dropped (channel reused)".into()
        } else if cl.map(|c| c.garbage).unwrap_or(false) {
            "an earlier pending response was dropped with unreceived responses (channel reused)".into()
        } else {
            "other".into()
        }
    }

    pub fn classify_active(&self, s: usize, k: usize) -> String {
        let rid = self.servers[s].as_ref().unwrap().act[k].rid;
        match self.reqs.get(&rid) {
            Some(r) if r.alive => "pending response alive".into(),
            Some(r) if self.client_alive(r.client) => "pending response dropped, client alive".into(),
            _ => "pending response and client dropped".into(),
        }
    }

    // ---------------------------------------------------------------- canonical form

    /// the state with requests, responses and ports renamed by rank
    pub fn canon(&self) -> Vec<u32> {
        let mut rids: Vec<Rid> = self.reqs.keys().copied().collect();
        let mut pids: Vec<Pid> = Vec::new();
        let mut uids: Vec<Uid> = Vec::new();
        for c in self.clients.iter().flatten() {
            uids.push(c.uid);
            uids.extend(c.known.iter().copied());
            uids.extend(c.ghosts.iter().copied());
            for p in &c.pend {
                rids.push(p.rid);
                for (u, p) in &p.held {
                    uids.push(*u);
                    pids.push(*p);
                }
            }
        }
        for s in self.servers.iter().flatten() {
            uids.push(s.uid);
            for a in &s.act {
                rids.push(a.rid);
            }
            for (cu, q) in &s.inq {
                uids.push(*cu);
                rids.extend(q.iter().copied());
            }
        }
        for r in self.reqs.values() {
            uids.push(r.client);
            for (su, l) in &r.links {
                uids.push(*su);
                pids.extend(l.fifo.iter().copied());
            }
        }
        for v in [&mut rids, &mut pids, &mut uids] {
            v.sort_unstable();
            v.dedup();
        }
        let rr = |x: Rid| rids.binary_search(&x).unwrap() as u32;
        let pr = |x: Pid| pids.binary_search(&x).unwrap() as u32;
        let ur = |x: Uid| uids.binary_search(&x).unwrap() as u32;
        const SEP: u32 = 0xFFFF_FFF0;
        let mut o = Vec::new();
        for c in &self.clients {
            o.push(SEP);
            if let Some(c) = c {
                o.push(ur(c.uid));
                o.push(c.sent as u32 | (c.garbage as u32) << 8 | (c.stale as u32) << 9 | (c.loans as u32) << 12);
                o.extend(c.known.iter().map(|u| ur(*u)));
                o.push(SEP + 7);
                o.extend(c.ghosts.iter().map(|u| ur(*u)));
                for p in &c.pend {
                    o.push(SEP + 1);
                    o.push(rr(p.rid));
                    for (u, p) in &p.held {
                        o.push(ur(*u));
                        o.push(pr(*p));
                    }
                }
            }
        }
        for s in &self.servers {
            o.push(SEP + 2);
            if let Some(s) = s {
                o.push(ur(s.uid));
                for a in &s.act {
                    o.push(rr(a.rid));
                    o.push(a.stale_sent as u32 | (a.loans as u32) << 4);
                }
                for (cu, q) in &s.inq {
                    o.push(SEP + 3);
                    o.push(ur(*cu));
                    o.extend(q.iter().map(|r| rr(*r)));
                }
                o.push(SEP + 6);
                o.extend(s.attached.iter().map(|u| ur(*u)));
            }
        }
        for (rid, r) in &self.reqs {
            o.push(SEP + 4);
            o.push(rr(*rid));
            o.push(ur(r.client));
            o.push(r.alive as u32 | (r.hint as u32) << 1);
            for (su, l) in &r.links {
                o.push(SEP + 5);
                o.push(ur(*su));
                o.push(l.st as u32);
                o.push(l.borrowed as u32);
                o.extend(l.fifo.iter().map(|p| pr(*p)));
            }
        }
        o
    }
}
