//! E3 harness h_reqres: request-response routing and stream lifetime (C11); with `--prop C02` the
//! request/response sample-lifetime oracles, with `--prop C08` the request-response limit oracles.
//!
//! Every execution builds a fresh node + service (unique name: pid + counter), applies one
//! sequence of operations to REAL clients/servers/pending responses/active requests and compares
//! every return value with a reference model (`spec`). The reference model is nondeterministic
//! in the few places where the documentation leaves the choice open (which client connection a
//! server polls first); the harness keeps the set of model states that are compatible with all
//! observations so far and reports a violation when no model state explains an observation.

mod spec;

use std::collections::BTreeMap;
use std::sync::atomic::{AtomicU64, Ordering};

use iceoryx2::active_request::ActiveRequest;
use iceoryx2::pending_response::PendingResponse;
use iceoryx2::port::client::{Client, RequestSendError};
use iceoryx2::port::server::Server;
use iceoryx2::port::{LoanError, ReceiveError};
use iceoryx2::prelude::*;
use iceoryx2::request_mut::RequestMut;
use iceoryx2::response::Response;
use iceoryx2::response_mut::ResponseMut;
use iceoryx2::service::port_factory::request_response::PortFactory;
use seqx::{ensure, Fail, Harness, Plan, Tier};
use serde::{Deserialize, Serialize};

use spec::{Lim, Obs, Pid, Rid, Spec, Uid};

type Pay = [u64; 4];

const REQ_MAGIC: u64 = 0x5EC0_0000_0000_0000;
const RESP_MAGIC: u64 = 0xA11C_0000_0000_0000;

fn req_payload(rid: Rid) -> Pay {
    [rid as u64, u64::MAX, !(rid as u64), REQ_MAGIC | rid as u64]
}

fn resp_payload(rid: Rid, pid: Pid) -> Pay {
    [rid as u64, pid as u64, !((rid as u64) << 32 | pid as u64), RESP_MAGIC | pid as u64]
}

fn decode_req(p: &Pay) -> Option<Rid> {
    let rid = p[0];
    if rid <= u32::MAX as u64 && *p == req_payload(rid as Rid) {
        Some(rid as Rid)
    } else {
        None
    }
}

fn decode_resp(p: &Pay) -> Option<(Rid, Pid)> {
    let (rid, pid) = (p[0], p[1]);
    if rid <= u32::MAX as u64 && pid <= u32::MAX as u64 && *p == resp_payload(rid as Rid, pid as Pid) {
        Some((rid as Rid, pid as Pid))
    } else {
        None
    }
}

#[derive(Clone, Copy, Debug, PartialEq, Eq)]
enum Prop {
    C11,
    C02,
    C08,
}

fn prop() -> Prop {
    match seqx::selected_property() {
        Some("C02") => Prop::C02,
        Some("C08") => Prop::C08,
        _ => Prop::C11,
    }
}

#[derive(Clone, Debug, Serialize, Deserialize)]
struct Cfg {
    /// `ipc::Service` instead of `local::Service`
    ipc: bool,
    max_clients: usize,
    max_servers: usize,
    /// ports created by `new_sys` (shortens the histories that reach interesting states)
    init_clients: usize,
    init_servers: usize,
    clients_first: bool,
    /// CreateClient/DropClient/CreateServer/DropServer are part of the alphabet
    dynamic_clients: bool,
    dynamic_servers: bool,
    /// max_active_requests_per_client
    a: usize,
    /// max_response_buffer_size
    b: usize,
    /// max_borrowed_responses_per_pending_response
    r: usize,
    /// max_loaned_requests
    l: usize,
    /// max_loaned_responses_per_request (server port setting)
    lr: usize,
    ovf_req: bool,
    ovf_resp: bool,
    ff: bool,
    /// ReceiveResponse keeps the `Response` (released by ReleaseResponse / DropPending)
    hold: bool,
    /// SetHint and HasRequests are part of the alphabet
    hint: bool,
    /// loan and send are separate operations (LoanRequest/SendLoaned/DropLoaned, LoanResponse/...)
    loans: bool,
    /// client/server_expired_connection_buffer of the node configuration (default 128; a port
    /// allocates that many connection slots when it is created)
    expired: usize,
    /// checked prefix applied by `new_sys` (0 = none). 1 = "stale active request": client 0 sends a
    /// request, server 0 receives it and KEEPS the active request, the client drops the pending
    /// response; then the client cycles through its pool of response channels (request, receive,
    /// drop pending, drop active - the stale active request stays) and sends one more request,
    /// which is assigned the channel of the abandoned one again
    #[serde(default)]
    stage: u8,
}

impl Cfg {
    fn lim(&self) -> Lim {
        Lim { a: self.a, b: self.b, r: self.r, l: self.l, lr: self.lr, ovf_req: self.ovf_req, ovf_resp: self.ovf_resp, ff: self.ff }
    }
}

#[derive(Clone, Debug, Serialize, Deserialize, PartialEq, Eq)]
enum Op {
    SendRequest(u8),
    ReceiveRequest(u8),
    SendResponse(u8, u8),
    ReceiveResponse(u8, u8),
    ReleaseResponse(u8, u8),
    DropPending(u8, u8),
    DropActive(u8, u8),
    SetHint(u8, u8),
    HasRequests(u8),
    LoanRequest(u8),
    SendLoaned(u8),
    DropLoaned(u8),
    LoanResponse(u8, u8),
    SendLoanedResponse(u8, u8),
    DropLoanedResponse(u8, u8),
    CreateClient,
    CreateServer,
    DropClient(u8),
    DropServer(u8),
    // probes (C02, C08)
    LoanProbe(u8),
    ResponseLoanProbe(u8, u8),
    // saturation macro operations (C08)
    SaturateRequests(u8),
    DrainRequests(u8),
    FillResponses(u8, u8),
    DrainResponses(u8, u8),
}

// ------------------------------------------------------------------------------------------
// the real object graph

struct HeldR<S: Service> {
    resp: Response<S, Pay, ()>,
    pay: Pay,
}

struct PendR<S: Service> {
    // `held` is declared (and therefore dropped) before the pending response
    held: Vec<HeldR<S>>,
    p: PendingResponse<S, Pay, (), Pay, ()>,
    rid: Rid,
}

struct ClientR<S: Service> {
    loaned: Vec<(RequestMut<S, Pay, (), Pay, ()>, Rid)>,
    pend: Vec<PendR<S>>,
    client: Client<S, Pay, (), Pay, ()>,
    uid: Uid,
}

struct ActR<S: Service> {
    loaned: Vec<(ResponseMut<S, Pay, ()>, Pid)>,
    a: ActiveRequest<S, Pay, (), Pay, ()>,
    rid: Rid,
}

struct ServerR<S: Service> {
    act: Vec<ActR<S>>,
    server: Server<S, Pay, (), Pay, ()>,
    uid: Uid,
}

#[derive(Clone, Copy)]
struct RespInfo {
    received: bool,
}

struct World<S: Service> {
    cfg: Cfg,
    prop: Prop,
    clients: Vec<Option<ClientR<S>>>,
    servers: Vec<Option<ServerR<S>>>,
    service: PortFactory<S, Pay, (), Pay, ()>,
    node: Node<S>,
    /// reference-model states compatible with every observation so far
    cands: Vec<Spec>,
    next_rid: Rid,
    next_pid: Pid,
    next_uid: Uid,
    /// every request ever sent -> uid of the sending client
    req_owner: BTreeMap<Rid, Uid>,
    /// every response ever sent
    resp_info: BTreeMap<Pid, RespInfo>,
    /// (server uid, rid) pairs a server has received
    req_received: BTreeMap<(Uid, Rid), ()>,
    /// an oracle of another property failed: the rest of this execution is not judged
    diverged: bool,
}

static NAME_COUNTER: AtomicU64 = AtomicU64::new(0);

/// A finding that this worker process has already reported `WITNESSES_PER_WORKER` times ends
/// further executions silently, so that the enumeration of all other histories goes on (the
/// engine stops a worker after `max_violations_per_worker` reports).
const WITNESSES_PER_WORKER: u32 = 12;

fn seen_often(fail: &Fail) -> bool {
    static SEEN: std::sync::Mutex<BTreeMap<String, u32>> = std::sync::Mutex::new(BTreeMap::new());
    let mut seen = SEEN.lock().unwrap_or_else(|e| e.into_inner());
    let n = seen.entry(format!("{}|{}", fail.tag, fail.site)).or_insert(0);
    *n += 1;
    *n > WITNESSES_PER_WORKER
}

fn remove_own_domain() {
    let pid = std::process::id();
    let _ = std::fs::remove_dir_all(format!("/verif/.run/h_reqres-{pid}"));
    let prefix = format!("hrr{pid}_");
    if let Ok(rd) = std::fs::read_dir("/dev/shm") {
        for e in rd.flatten() {
            if e.file_name().to_string_lossy().starts_with(&prefix) {
                let _ = std::fs::remove_file(e.path());
            }
        }
    }
}

/// The inter-process flavour leaves a root directory and the domain-wide management segment
/// (persistent by design) per worker process; whoever runs next removes those of dead processes.
fn remove_leftovers_of_dead_processes() {
    let alive = |pid: &str| std::path::Path::new(&format!("/proc/{pid}")).exists();
    if let Ok(rd) = std::fs::read_dir("/verif/.run") {
        for e in rd.flatten() {
            let name = e.file_name().to_string_lossy().to_string();
            if let Some(pid) = name.strip_prefix("h_reqres-") {
                if pid.chars().all(|c| c.is_ascii_digit()) && !alive(pid) {
                    let _ = std::fs::remove_dir_all(e.path());
                }
            }
        }
    }
    if let Ok(rd) = std::fs::read_dir("/dev/shm") {
        for e in rd.flatten() {
            let name = e.file_name().to_string_lossy().to_string();
            if let Some(rest) = name.strip_prefix("hrr") {
                let pid: String = rest.chars().take_while(|c| c.is_ascii_digit()).collect();
                if !pid.is_empty() && rest[pid.len()..].starts_with('_') && !alive(&pid) {
                    let _ = std::fs::remove_file(e.path());
                }
            }
        }
    }
}

/// Which property does an oracle (tag) belong to? A failing oracle of another property ends the
/// execution silently: the violation is reported by the run that is started for that property.
fn owned(p: Prop, tag: &str) -> bool {
    const ALWAYS: &[&str] = &["setup", "harness", "request-send-error", "request-receive-error", "response-send-error", "response-receive-error", "request-payload-corrupt", "response-payload-corrupt"];
    const C02: &[&str] = &["request-payload-changed", "response-payload-changed", "request-loan-capacity", "response-loan-capacity", "capacity-not-restored", "request-loan-failed-within-limits", "response-loan-failed-within-limits"];
    const C08: &[&str] = &[
        "client-create-failed",
        "server-create-failed",
        "request-over-limit-wrong-error",
        "request-loan-failed-within-limits",
        "response-loan-failed-within-limits",
        "request-receive-refused-within-limit",
        "response-receive-refused-within-limit",
        "request-refused-within-limit",
        "active-request-limit-not-enforced",
        "response-borrow-limit-not-enforced",
        "request-loan-limit",
        "response-loan-limit",
        "response-over-limit-wrong-error",
        "limit-not-restored",
    ];
    /// limit oracles that C11 states as well ("the limits on active requests and buffered responses hold")
    const C11_TOO: &[&str] = &["request-refused-within-limit", "active-request-limit-not-enforced", "response-borrow-limit-not-enforced"];
    if ALWAYS.contains(&tag) {
        return true;
    }
    match p {
        Prop::C02 => C02.contains(&tag),
        Prop::C08 => C08.contains(&tag),
        Prop::C11 => C11_TOO.contains(&tag) || !(C02.contains(&tag) || C08.contains(&tag)),
    }
}

fn f(tag: &str, site: impl Into<String>, detail: impl Into<String>) -> Fail {
    Fail::new(tag, site, detail)
}

impl<S: Service> World<S> {
    fn new(cfg: &Cfg) -> Result<Self, Fail> {
        set_log_level(LogLevel::Fatal);
        let n = NAME_COUNTER.fetch_add(1, Ordering::Relaxed);
        let name = format!("h_reqres_{}_{}_{}", if cfg.ipc { "i" } else { "l" }, std::process::id(), n);
        let name: ServiceName = name.as_str().try_into().map_err(|e| f("setup", "service-name", format!("{e:?}")))?;
        let mut config = Config::default();
        if cfg.ipc {
            // own domain per process: files below /verif/.run, shared-memory names with a pid prefix
            let pid = std::process::id();
            static HOUSEKEEPING: std::sync::Once = std::sync::Once::new();
            HOUSEKEEPING.call_once(remove_leftovers_of_dead_processes);
            let root = format!("/verif/.run/h_reqres-{pid}");
            std::fs::create_dir_all(&root).map_err(|e| f("setup", "mkdir", format!("{e:?}")))?;
            config.global.set_root_path(&Path::new(root.as_bytes()).map_err(|e| f("setup", "root-path", format!("{e:?}")))?);
            config.global.prefix = FileName::new(format!("hrr{pid}_").as_bytes()).map_err(|e| f("setup", "prefix", format!("{e:?}")))?;
        }
        config.defaults.request_response.client_expired_connection_buffer = cfg.expired;
        config.defaults.request_response.server_expired_connection_buffer = cfg.expired;
        let node = NodeBuilder::new().config(&config).create::<S>().map_err(|e| f("setup", "node", format!("{e:?}")))?;
        let service = node
            .service_builder(&name)
            .request_response::<Pay, Pay>()
            .max_clients(cfg.max_clients)
            .max_servers(cfg.max_servers)
            .max_nodes(1)
            .max_active_requests_per_client(cfg.a)
            .max_response_buffer_size(cfg.b)
            .max_borrowed_responses_per_pending_response(cfg.r)
            .max_loaned_requests(cfg.l)
            .enable_safe_overflow_for_requests(cfg.ovf_req)
            .enable_safe_overflow_for_responses(cfg.ovf_resp)
            .enable_fire_and_forget_requests(cfg.ff)
            .create()
            .map_err(|e| f("setup", "service-create", format!("{e:?}")))?;
        let mut w = World {
            cfg: cfg.clone(),
            prop: prop(),
            clients: (0..cfg.max_clients).map(|_| None).collect(),
            servers: (0..cfg.max_servers).map(|_| None).collect(),
            service,
            node,
            cands: vec![Spec::new(cfg.max_clients, cfg.max_servers)],
            next_rid: 1,
            next_pid: 1,
            next_uid: 1,
            req_owner: BTreeMap::new(),
            resp_info: BTreeMap::new(),
            req_received: BTreeMap::new(),
            diverged: false,
        };
        if cfg.clients_first {
            for _ in 0..cfg.init_clients {
                w.create_client()?;
            }
        }
        for _ in 0..cfg.init_servers {
            w.create_server()?;
        }
        if !cfg.clients_first {
            for _ in 0..cfg.init_clients {
                w.create_client()?;
            }
        }
        if cfg.stage == 1 {
            let channels = cfg.max_servers * 2 * cfg.a + cfg.l;
            let mut prefix = vec![Op::SendRequest(0), Op::ReceiveRequest(0), Op::DropPending(0, 0)];
            for _ in 0..channels - 1 {
                prefix.extend([Op::SendRequest(0), Op::ReceiveRequest(0), Op::DropPending(0, 0), Op::DropActive(0, 1)]);
            }
            prefix.push(Op::SendRequest(0));
            for op in prefix {
                w.apply(&op)?;
            }
        }
        Ok(w)
    }

    fn lim(&self) -> Lim {
        self.cfg.lim()
    }

    fn m(&self) -> &Spec {
        &self.cands[0]
    }

    // ---- deterministic model transitions: applied to every candidate
    fn all(&mut self, g: impl Fn(&mut Spec)) {
        for c in self.cands.iter_mut() {
            g(c);
        }
        self.dedup();
    }

    fn dedup(&mut self) {
        self.cands.sort();
        self.cands.dedup();
    }

    /// keeps the successors of every candidate whose predicted observation equals the real one
    fn filter(&mut self, real: &Obs, step: impl Fn(&Spec) -> Vec<(Obs, Spec)>) -> Result<(), Vec<Obs>> {
        let mut next = Vec::new();
        let mut expected = Vec::new();
        for c in &self.cands {
            for (o, s) in step(c) {
                if &o == real {
                    next.push(s);
                } else if !expected.contains(&o) {
                    expected.push(o);
                }
            }
        }
        if next.is_empty() {
            return Err(expected);
        }
        self.cands = next;
        self.dedup();
        Ok(())
    }

    // ---- ports
    fn create_client(&mut self) -> Result<(), Fail> {
        let idx = self.clients.iter().position(|c| c.is_none()).ok_or_else(|| f("harness", "create-client", "no free slot"))?;
        let client = self
            .service
            .client_builder()
            .backpressure_strategy(BackpressureStrategy::DiscardData)
            .create()
            .map_err(|e| f("client-create-failed", "within-max-clients", format!("{e:?} although only {} of {} clients exist", self.clients.iter().flatten().count(), self.cfg.max_clients)))?;
        let uid = self.next_uid;
        self.next_uid += 1;
        self.clients[idx] = Some(ClientR { loaned: Vec::new(), pend: Vec::new(), client, uid });
        self.all(|s| s.create_client(idx, uid));
        Ok(())
    }

    fn create_server(&mut self) -> Result<(), Fail> {
        let idx = self.servers.iter().position(|c| c.is_none()).ok_or_else(|| f("harness", "create-server", "no free slot"))?;
        let server = self
            .service
            .server_builder()
            .backpressure_strategy(BackpressureStrategy::DiscardData)
            .max_loaned_responses_per_request(self.cfg.lr)
            .create()
            .map_err(|e| f("server-create-failed", "within-max-servers", format!("{e:?} although only {} of {} servers exist", self.servers.iter().flatten().count(), self.cfg.max_servers)))?;
        let uid = self.next_uid;
        self.next_uid += 1;
        self.servers[idx] = Some(ServerR { act: Vec::new(), server, uid });
        self.all(|s| s.create_server(idx, uid));
        Ok(())
    }

    fn client(&self, c: u8) -> Result<&ClientR<S>, Fail> {
        self.clients.get(c as usize).and_then(|x| x.as_ref()).ok_or_else(|| f("harness", "client-index", format!("no client {c}")))
    }

    fn server(&self, s: u8) -> Result<&ServerR<S>, Fail> {
        self.servers.get(s as usize).and_then(|x| x.as_ref()).ok_or_else(|| f("harness", "server-index", format!("no server {s}")))
    }

    fn pend(&self, c: u8, k: u8) -> Result<&PendR<S>, Fail> {
        self.client(c)?.pend.get(k as usize).ok_or_else(|| f("harness", "pending-index", format!("no pending {c}/{k}")))
    }

    fn act(&self, s: u8, k: u8) -> Result<&ActR<S>, Fail> {
        self.server(s)?.act.get(k as usize).ok_or_else(|| f("harness", "active-index", format!("no active {s}/{k}")))
    }

    // ---- basic operations
    fn send_request(&mut self, c: u8, from_loan: bool) -> Result<bool, Fail> {
        let lim = self.lim();
        let ci = c as usize;
        self.client(c)?;
        let (res, rid) = if from_loan {
            let cl = self.clients[ci].as_mut().unwrap();
            ensure!(!cl.loaned.is_empty(), "harness", "send-loaned", "nothing loaned");
            let (req, rid) = cl.loaned.remove(0);
            (req.send(), rid)
        } else {
            let rid = self.next_rid;
            self.next_rid += 1;
            (self.clients[ci].as_ref().unwrap().client.send_copy(req_payload(rid)), rid)
        };
        let cl = self.clients[ci].as_ref().unwrap();
        let uid = cl.uid;
        let npend = cl.pend.len();
        let nloans = self.m().clients[ci].as_ref().map(|c| c.loans).unwrap_or(0);
        let (real, pending) = match res {
            Ok(p) => (Obs::Sent { ok: true, nconn: p.number_of_server_connections() }, Some(p)),
            Err(RequestSendError::ExceedsMaxActiveRequests) => (Obs::Sent { ok: false, nconn: 0 }, None),
            Err(RequestSendError::SendError(iceoryx2::port::SendError::LoanError(LoanError::ExceedsMaxLoans))) if !from_loan && nloans >= self.cfg.l => (Obs::SentNoLoan, None),
            Err(e) => {
                let is_loan = matches!(e, RequestSendError::SendError(iceoryx2::port::SendError::LoanError(_)));
                if is_loan && self.prop == Prop::C11 {
                    // the request was not sent; whether a loan may fail for lack of memory and
                    // which error the one-too-many attempt reports is judged under C08 / C02
                    return Ok(false);
                }
                let tag = if !is_loan {
                    "request-send-error"
                } else if npend >= self.cfg.a {
                    "request-over-limit-wrong-error"
                } else {
                    "request-loan-failed-within-limits"
                };
                return Err(f(tag, format!("{e:?}"), format!("send on client {c} with {npend} of {} active requests and {nloans} of {} loans returned {e:?}", self.cfg.a, self.cfg.l)));
            }
        };
        if pending.is_some() {
            self.req_owner.insert(rid, uid);
        }
        let r = self.filter(&real, |s| s.send_request(&lim, ci, rid, from_loan));
        if let Err(exp) = r {
            let (tag, site) = match (&real, exp.first()) {
                (Obs::Sent { ok: true, .. }, Some(Obs::Sent { ok: false, .. })) => ("active-request-limit-not-enforced", "send beyond max_active_requests_per_client"),
                (Obs::Sent { ok: false, .. }, Some(Obs::Sent { ok: true, .. })) => ("request-refused-within-limit", "ExceedsMaxActiveRequests below max_active_requests_per_client"),
                (Obs::Sent { .. }, Some(Obs::SentNoLoan)) => ("request-loan-limit", "send_copy although every loan is taken"),
                _ => ("request-recipient-count", "number_of_server_connections"),
            };
            return Err(f(tag, site, format!("client {c} holds {npend} pending responses (limit {}) and {nloans} loans (limit {}): real {real:?}, model allows {exp:?}", self.cfg.a, self.cfg.l)));
        }
        if let Some(p) = pending {
            self.clients[ci].as_mut().unwrap().pend.push(PendR { held: Vec::new(), p, rid });
            Ok(true)
        } else {
            Ok(false)
        }
    }

    fn loan_request(&mut self, c: u8) -> Result<(), Fail> {
        let ci = c as usize;
        let l = self.cfg.l;
        let cl = self.client(c)?;
        let npend = cl.pend.len();
        let nloans = self.m().clients[ci].as_ref().map(|c| c.loans).unwrap_or(0);
        match cl.client.loan_uninit() {
            Ok(r) => {
                ensure!(nloans < l, "request-loan-limit", "more loans than max_loaned_requests", "client {} already holds {} request loans (limit {}) and obtained another one", c, nloans, l);
                let rid = self.next_rid;
                self.next_rid += 1;
                let req = r.write_payload(req_payload(rid));
                self.clients[ci].as_mut().unwrap().loaned.push((req, rid));
                self.all(|m| m.clients[ci].as_mut().unwrap().loans += 1);
                Ok(())
            }
            Err(LoanError::ExceedsMaxLoans) => {
                ensure!(nloans >= l, "request-loan-limit", "fewer loans than max_loaned_requests", "client {} holds {} request loans (limit {}) and {} pending responses: loan refused with ExceedsMaxLoans", c, nloans, l, npend);
                Ok(())
            }
            Err(e) => {
                let tag = if nloans < l { "request-loan-failed-within-limits" } else { "request-over-limit-wrong-error" };
                Err(f(tag, format!("{e:?}"), format!("client {c} holds {nloans} request loans (limit {l}) and {npend} pending responses: loan_uninit returned {e:?}")))
            }
        }
    }

    fn drop_loaned(&mut self, c: u8) -> Result<(), Fail> {
        let ci = c as usize;
        self.client(c)?;
        let cl = self.clients[ci].as_mut().unwrap();
        ensure!(!cl.loaned.is_empty(), "harness", "drop-loaned", "nothing loaned");
        drop(cl.loaned.remove(0));
        self.all(|m| {
            let l = &mut m.clients[ci].as_mut().unwrap().loans;
            *l = l.saturating_sub(1);
        });
        Ok(())
    }

    fn has_requests(&mut self, s: u8) -> Result<(), Fail> {
        let lim = self.lim();
        let si = s as usize;
        let real = self.server(s)?.server.has_requests().map_err(|e| f("request-receive-error", format!("{e:?}"), format!("server {s}: has_requests returned {e:?}")))?;
        self.all(|m| m.attach(si));
        let ok: Vec<Spec> = self.cands.iter().filter(|m| m.expect_has_requests(&lim, si).admits(real)).cloned().collect();
        if ok.is_empty() {
            let exp = self.m().expect_has_requests(&lim, si);
            let tag = if real { "has-requests-without-request" } else { "has-requests-misses-request" };
            return Err(f(tag, "Server::has_requests", format!("server {s}: has_requests() == {real}, the model expects {exp:?}")));
        }
        self.cands = ok;
        Ok(())
    }

    /// returns Some(true) = request received, Some(false) = none, None = ExceedsMaxBorrows
    fn receive_request(&mut self, s: u8) -> Result<Option<bool>, Fail> {
        let lim = self.lim();
        let si = s as usize;
        let sv = self.server(s)?;
        let suid = sv.uid;
        let res = sv.server.receive();
        let (real, active) = match res {
            Ok(Some(a)) => {
                let pay: Pay = *a.payload();
                let rid = decode_req(&pay).ok_or_else(|| f("request-payload-corrupt", "server-receive", format!("server {s} received a request with payload {pay:x?} that no client has written")))?;
                (Obs::Req(Some(rid)), Some((a, rid)))
            }
            Ok(None) => (Obs::Req(None), None),
            Err(ReceiveError::ExceedsMaxBorrows) => (Obs::ReqErrBorrows, None),
            Err(e) => return Err(f("request-receive-error", format!("{e:?}"), format!("server {s}: receive returned {e:?}"))),
        };
        if let Some((a, rid)) = &active {
            // direct oracles with precise tags
            match self.req_owner.get(rid) {
                None => return Err(f("request-phantom", "server-receive", format!("server {s} received request serial {rid} which was never sent"))),
                Some(owner) => {
                    // origin of the request must be the sending client (if it still exists we can compare ids)
                    if let Some(cl) = self.clients.iter().flatten().find(|c| c.uid == *owner) {
                        ensure!(a.origin() == cl.client.id(), "request-origin-wrong", "ActiveRequest::origin", "server {} received request {} whose origin() is not the id of the sending client", s, rid);
                    }
                }
            }
            if self.req_received.contains_key(&(suid, *rid)) {
                return Err(f("request-duplicate", "server-receive", format!("server {s} received request serial {rid} a second time")));
            }
        }
        let mut r = self.filter(&real, |m| m.recv_request(&lim, si));
        if r.is_err() && self.prop == Prop::C11 && real == Obs::ReqErrBorrows {
            // no deliverable request is withheld: whether receive() may report ExceedsMaxBorrows
            // below the limit is judged under C08
            r = self.filter(&Obs::Req(None), |m| m.recv_request(&lim, si));
        }
        if let Err(exp) = r {
            let holds = self.server(s)?.act.len();
            let (tag, site): (&str, String) = match (&real, exp.first()) {
                (Obs::Req(Some(rid)), _) => {
                    let m = self.m();
                    let cls = m.classify_unexpected_request(&lim, si, *rid);
                    ("request-unexpected", cls.to_string())
                }
                (Obs::Req(None), Some(Obs::Req(Some(_)))) => ("request-lost", "receive returned None although a deliverable request is queued".to_string()),
                (Obs::ReqErrBorrows, Some(Obs::Req(Some(_)))) => ("request-receive-refused-within-limit", "ExceedsMaxBorrows although a deliverable request of a client below the limit is queued".to_string()),
                (Obs::ReqErrBorrows, Some(Obs::Req(None))) => ("request-receive-refused-within-limit", "ExceedsMaxBorrows although nothing deliverable is queued".to_string()),
                (Obs::Req(None), Some(Obs::ReqErrBorrows)) => ("active-request-limit-not-enforced", "receive returned None instead of ExceedsMaxBorrows".to_string()),
                _ => ("request-receive-mismatch", "other".to_string()),
            };
            return Err(f(tag, site, format!("server {s} (holding {holds} active requests, limit {} per client): real {real:?}, model allows {exp:?}", self.cfg.a)));
        }
        match active {
            Some((a, rid)) => {
                self.req_received.insert((suid, rid), ());
                self.servers[si].as_mut().unwrap().act.push(ActR { loaned: Vec::new(), a, rid });
                Ok(Some(true))
            }
            None => Ok(if real == Obs::ReqErrBorrows { None } else { Some(false) }),
        }
    }

    fn send_response(&mut self, s: u8, k: u8, from_loan: bool) -> Result<(), Fail> {
        let lim = self.lim();
        let (si, ki) = (s as usize, k as usize);
        self.act(s, k)?;
        let nloans = self.m().servers[si].as_ref().map(|s| s.act[ki].loans).unwrap_or(0);
        let (res, rid, pid) = if from_loan {
            let ar = &mut self.servers[si].as_mut().unwrap().act[ki];
            ensure!(!ar.loaned.is_empty(), "harness", "send-loaned-response", "nothing loaned");
            let (resp, pid) = ar.loaned.remove(0);
            (resp.send(), ar.rid, pid)
        } else {
            let pid = self.next_pid;
            self.next_pid += 1;
            let ar = &self.servers[si].as_ref().unwrap().act[ki];
            (ar.a.send_copy(resp_payload(ar.rid, pid)), ar.rid, pid)
        };
        self.resp_info.insert(pid, RespInfo { received: false });
        if from_loan {
            self.all(|m| {
                let l = &mut m.servers[si].as_mut().unwrap().act[ki].loans;
                *l = l.saturating_sub(1);
            });
        }
        match res {
            Ok(()) => {
                ensure!(from_loan || nloans < self.cfg.lr, "response-loan-limit", "send_copy although every loan is taken", "active request {}/{} holds {} response loans (limit {}) and send_copy succeeded", s, k, nloans, self.cfg.lr);
            }
            Err(iceoryx2::port::SendError::LoanError(LoanError::ExceedsMaxLoans)) if !from_loan && nloans >= self.cfg.lr => {
                // send_copy needs a loan and the user holds all of them: nothing was sent
                return Ok(());
            }
            Err(e) => {
                if matches!(e, iceoryx2::port::SendError::LoanError(_)) && self.prop == Prop::C11 {
                    // nothing was sent; judged under C08 / C02
                    return Ok(());
                }
                let alive = self.m().req_alive(rid);
                let tag = if matches!(e, iceoryx2::port::SendError::LoanError(_)) { "response-loan-failed-within-limits" } else { "response-send-error" };
                return Err(f(tag, format!("{e:?}"), format!("send through active request {s}/{k} (request {rid}, pending response alive: {alive}, {nloans} of {} response loans held) returned {e:?}", self.cfg.lr)));
            }
        }
        self.all(|m| m.send_response(&lim, si, ki, pid));
        Ok(())
    }

    fn loan_response(&mut self, s: u8, k: u8) -> Result<(), Fail> {
        let (si, ki) = (s as usize, k as usize);
        let lr = self.cfg.lr;
        let ar = self.act(s, k)?;
        let rid = ar.rid;
        let nloans = self.m().servers[si].as_ref().map(|s| s.act[ki].loans).unwrap_or(0);
        match ar.a.loan_uninit() {
            Ok(r) => {
                ensure!(nloans < lr, "response-loan-limit", "more loans than max_loaned_responses_per_request", "active request {}/{} already holds {} response loans (limit {}) and obtained another one", s, k, nloans, lr);
                let pid = self.next_pid;
                self.next_pid += 1;
                let resp = r.write_payload(resp_payload(rid, pid));
                self.servers[si].as_mut().unwrap().act[ki].loaned.push((resp, pid));
                self.all(|m| m.servers[si].as_mut().unwrap().act[ki].loans += 1);
                Ok(())
            }
            Err(LoanError::ExceedsMaxLoans) => {
                ensure!(nloans >= lr, "response-loan-limit", "fewer loans than max_loaned_responses_per_request", "active request {}/{} holds {} response loans (limit {}): loan refused with ExceedsMaxLoans", s, k, nloans, lr);
                Ok(())
            }
            Err(e) => {
                let tag = if nloans < lr { "response-loan-failed-within-limits" } else { "response-over-limit-wrong-error" };
                Err(f(tag, format!("{e:?}"), format!("active request {s}/{k} holds {nloans} response loans (limit {lr}): loan_uninit returned {e:?}")))
            }
        }
    }

    fn drop_loaned_response(&mut self, s: u8, k: u8) -> Result<(), Fail> {
        let (si, ki) = (s as usize, k as usize);
        self.act(s, k)?;
        let ar = &mut self.servers[si].as_mut().unwrap().act[ki];
        ensure!(!ar.loaned.is_empty(), "harness", "drop-loaned-response", "nothing loaned");
        drop(ar.loaned.remove(0));
        self.all(|m| {
            let l = &mut m.servers[si].as_mut().unwrap().act[ki].loans;
            *l = l.saturating_sub(1);
        });
        Ok(())
    }

    /// Some(true) = response received, Some(false) = none, None = ExceedsMaxBorrows
    fn receive_response(&mut self, c: u8, k: u8) -> Result<Option<bool>, Fail> {
        let lim = self.lim();
        let keep = self.cfg.hold;
        let (ci, ki) = (c as usize, k as usize);
        let pr = self.pend(c, k)?;
        let my_rid = pr.rid;
        let res = pr.p.receive();
        let (real, resp) = match res {
            Ok(Some(r)) => {
                let pay: Pay = *r.payload();
                let (rid, pid) = decode_resp(&pay).ok_or_else(|| f("response-payload-corrupt", "pending-receive", format!("pending response {c}/{k} received payload {pay:x?} that no server has written")))?;
                (Obs::Resp(Some((rid, pid))), Some((r, pay, rid, pid)))
            }
            Ok(None) => (Obs::Resp(None), None),
            Err(ReceiveError::ExceedsMaxBorrows) => (Obs::RespErrBorrows, None),
            Err(e) => return Err(f("response-receive-error", format!("{e:?}"), format!("pending response {c}/{k}: receive returned {e:?}"))),
        };
        if let Some((r, _, rid, pid)) = &resp {
            if *rid != my_rid {
                let mine = self.req_owner.get(&my_rid).copied();
                let theirs = self.req_owner.get(rid).copied();
                let site = if theirs.is_some() && theirs != mine { "response of a request of another client" } else { "response of another request of the same client" };
                return Err(f("response-misrouted", site, format!("pending response {c}/{k} of request {my_rid} received response {pid} that the server sent for request {rid}")));
            }
            match self.resp_info.get(pid) {
                None => return Err(f("response-phantom", "pending-receive", format!("pending response {c}/{k} received response serial {pid} which was never sent"))),
                Some(i) if i.received => return Err(f("response-duplicate", "pending-receive", format!("pending response {c}/{k} received response serial {pid} a second time"))),
                _ => (),
            }
            if let Some(su) = self.m().response_sender(my_rid, *pid) {
                if let Some(sv) = self.servers.iter().flatten().find(|x| x.uid == su) {
                    ensure!(r.origin() == sv.server.id(), "response-origin-wrong", "Response::origin", "response {} received by pending {}/{} does not carry the id of the sending server", pid, c, k);
                }
            }
        }
        let r = self.filter(&real, |m| m.recv_response(&lim, ci, ki, keep));
        if let Err(exp) = r {
            let held = self.pend(c, k)?.held.len();
            let (tag, site): (&str, String) = match (&real, exp.first()) {
                (Obs::Resp(Some((_, pid))), _) => ("response-unexpected", self.m().classify_unexpected_response(my_rid, *pid).to_string()),
                (Obs::Resp(None), Some(Obs::Resp(Some(_)))) => ("response-lost", self.m().classify_lost_response(my_rid).to_string()),
                (Obs::RespErrBorrows, Some(Obs::Resp(_))) => ("response-receive-refused-within-limit", "ExceedsMaxBorrows below max_borrowed_responses_per_pending_response".to_string()),
                (Obs::Resp(None), Some(Obs::RespErrBorrows)) => ("response-borrow-limit-not-enforced", "receive returned None instead of ExceedsMaxBorrows".to_string()),
                _ => ("response-receive-mismatch", "other".to_string()),
            };
            return Err(f(tag, site, format!("pending response {c}/{k} of request {my_rid} (holding {held} responses, limit {}): real {real:?}, model allows {exp:?}", self.cfg.r)));
        }
        match resp {
            Some((r, pay, _, pid)) => {
                self.resp_info.get_mut(&pid).unwrap().received = true;
                if keep {
                    self.clients[ci].as_mut().unwrap().pend[ki].held.push(HeldR { resp: r, pay });
                }
                Ok(Some(true))
            }
            None => Ok(if real == Obs::RespErrBorrows { None } else { Some(false) }),
        }
    }

    fn release_response(&mut self, c: u8, k: u8) -> Result<(), Fail> {
        let (ci, ki) = (c as usize, k as usize);
        self.pend(c, k)?;
        let p = &mut self.clients[ci].as_mut().unwrap().pend[ki];
        ensure!(!p.held.is_empty(), "harness", "release-response", "nothing held");
        let h = p.held.remove(0);
        drop(h);
        self.all(|m| m.release_response(ci, ki));
        Ok(())
    }

    fn drop_pending(&mut self, c: u8, k: u8) -> Result<(), Fail> {
        let (ci, ki) = (c as usize, k as usize);
        self.pend(c, k)?;
        let p = self.clients[ci].as_mut().unwrap().pend.remove(ki);
        drop(p);
        self.all(|m| m.drop_pending(ci, ki));
        Ok(())
    }

    fn drop_active(&mut self, s: u8, k: u8) -> Result<(), Fail> {
        let (si, ki) = (s as usize, k as usize);
        self.act(s, k)?;
        let a = self.servers[si].as_mut().unwrap().act.remove(ki);
        drop(a);
        self.all(|m| m.drop_active(si, ki));
        Ok(())
    }

    fn set_hint(&mut self, c: u8, k: u8) -> Result<(), Fail> {
        let (ci, ki) = (c as usize, k as usize);
        self.pend(c, k)?.p.set_disconnect_hint();
        self.all(|m| m.set_hint(ci, ki));
        Ok(())
    }

    fn drop_client(&mut self, c: u8) -> Result<(), Fail> {
        let ci = c as usize;
        self.client(c)?;
        let cl = self.clients[ci].take().unwrap();
        let ClientR { loaned, pend, client, .. } = cl;
        // loans, then pending responses (and the responses they hold) in creation order, then the port
        drop(loaned);
        for p in pend {
            drop(p);
        }
        drop(client);
        self.all(|m| m.drop_client(ci));
        Ok(())
    }

    fn drop_server(&mut self, s: u8) -> Result<(), Fail> {
        let si = s as usize;
        self.server(s)?;
        let sv = self.servers[si].take().unwrap();
        let ServerR { act, server, .. } = sv;
        for a in act {
            drop(a);
        }
        drop(server);
        self.all(|m| m.drop_server(si));
        Ok(())
    }

    // ---- probes
    fn loan_probe(&mut self, c: u8) -> Result<(), Fail> {
        let outstanding = self.m().clients[c as usize].as_ref().map(|c| c.loans).unwrap_or(0);
        let l = self.cfg.l.saturating_sub(outstanding);
        let cl = self.client(c)?;
        let npend = cl.pend.len();
        let mut loans = Vec::new();
        let mut err = None;
        for _ in 0..l + 2 {
            match cl.client.loan_uninit() {
                Ok(r) => loans.push(r),
                Err(e) => {
                    err = Some(e);
                    break;
                }
            }
        }
        let n = loans.len();
        drop(loans);
        let tag_mem = if self.prop == Prop::C02 { "request-loan-capacity" } else { "request-loan-limit" };
        match err {
            Some(LoanError::ExceedsMaxLoans) if n == l => Ok(()),
            Some(LoanError::ExceedsMaxLoans) => Err(f(tag_mem, "fewer loans than max_loaned_requests", format!("client {c} with {npend} pending responses and {outstanding} outstanding loans obtained {n} more request loans, expected {l}"))),
            Some(e) => Err(f(tag_mem, format!("{e:?}"), format!("client {c} with {npend} pending responses and {outstanding} outstanding loans: additional loan number {} failed with {e:?} ({l} more expected)", n + 1))),
            None => Err(f(tag_mem, "more loans than max_loaned_requests", format!("client {c} obtained {n} request loans, configured {l}"))),
        }
    }

    fn response_loan_probe(&mut self, s: u8, k: u8) -> Result<(), Fail> {
        let outstanding = self.m().servers[s as usize].as_ref().and_then(|x| x.act.get(k as usize)).map(|a| a.loans).unwrap_or(0);
        let lr = self.cfg.lr.saturating_sub(outstanding);
        let ar = self.act(s, k)?;
        let mut loans = Vec::new();
        let mut err = None;
        for _ in 0..lr + 2 {
            match ar.a.loan_uninit() {
                Ok(r) => loans.push(r),
                Err(e) => {
                    err = Some(e);
                    break;
                }
            }
        }
        let n = loans.len();
        drop(loans);
        let tag_mem = if self.prop == Prop::C02 { "response-loan-capacity" } else { "response-loan-limit" };
        match err {
            Some(LoanError::ExceedsMaxLoans) if n == lr => Ok(()),
            Some(LoanError::ExceedsMaxLoans) => Err(f(tag_mem, "fewer loans than max_loaned_responses_per_request", format!("active request {s}/{k} with {outstanding} outstanding loans obtained {n} more response loans, expected {lr}"))),
            Some(e) => Err(f(tag_mem, format!("{e:?}"), format!("active request {s}/{k} with {outstanding} outstanding loans: additional loan number {} failed with {e:?} ({lr} more expected)", n + 1))),
            None => Err(f(tag_mem, "more loans than max_loaned_responses_per_request", format!("active request {s}/{k} obtained {n} response loans, configured {lr}"))),
        }
    }

    // ---- observers that do not change anything (no connection update inside)
    fn observe(&mut self) -> Result<(), Fail> {
        let mut obs: Vec<(spec::Watch, bool)> = Vec::new();
        for (ci, cl) in self.clients.iter().enumerate() {
            if let Some(cl) = cl {
                for (ki, p) in cl.pend.iter().enumerate() {
                    obs.push((spec::Watch::PendConnected(ci, ki), p.p.is_connected()));
                    obs.push((spec::Watch::PendHasResponse(ci, ki), p.p.has_response()));
                }
            }
        }
        for (si, sv) in self.servers.iter().enumerate() {
            if let Some(sv) = sv {
                for (ki, a) in sv.act.iter().enumerate() {
                    obs.push((spec::Watch::ActConnected(si, ki), a.a.is_connected()));
                    obs.push((spec::Watch::ActHint(si, ki), a.a.has_disconnect_hint()));
                }
            }
        }
        let ok: Vec<Spec> = self.cands.iter().filter(|m| obs.iter().all(|(w, v)| m.expect(w).admits(*v))).cloned().collect();
        if !ok.is_empty() {
            self.cands = ok;
            return Ok(());
        }
        // report the first observation that no candidate supports
        for (w, v) in &obs {
            if self.cands.iter().all(|m| !m.expect(w).admits(*v)) {
                let m = self.m();
                let (tag, site, what) = match w {
                    spec::Watch::PendConnected(c, k) => {
                        if *v {
                            ("pending-connected-without-server", m.classify_pending(*c, *k), format!("PendingResponse {c}/{k}::is_connected() == true"))
                        } else {
                            ("pending-disconnected-with-live-stream", m.classify_pending(*c, *k), format!("PendingResponse {c}/{k}::is_connected() == false"))
                        }
                    }
                    spec::Watch::PendHasResponse(c, k) => {
                        if *v {
                            // diagnosis (the execution ends here anyway): what does receive() hand out?
                            let pr = &self.clients[*c].as_ref().unwrap().pend[*k];
                            let my_rid = pr.rid;
                            if let Ok(Some(r)) = pr.p.receive() {
                                if let Some((rid, pid)) = decode_resp(r.payload()) {
                                    if rid != my_rid {
                                        let mine = self.req_owner.get(&my_rid).copied();
                                        let theirs = self.req_owner.get(&rid).copied();
                                        let site = if theirs.is_some() && theirs != mine { "response of a request of another client" } else { "response of another request of the same client" };
                                        return Err(f("response-misrouted", site, format!("pending response {c}/{k} of request {my_rid}: has_response() == true although no response was sent for it, and receive() hands out response {pid} that the server sent for request {rid}")));
                                    }
                                }
                            }
                            ("has-response-without-response", m.classify_phantom_response(*c, *k), format!("PendingResponse {c}/{k}::has_response() == true (receive() hands out nothing)"))
                        } else {
                            let pr = &self.clients[*c].as_ref().unwrap().pend[*k];
                            let got = pr.p.receive().map(|r| r.map(|r| *r.payload()));
                            if let Ok(None) = got {
                                return Err(f("response-lost", m.classify_lost_response(pr.rid), format!("pending response {c}/{k} of request {}: a response that was sent and buffered (model: {:?}) is gone: has_response() == false and receive() == None", pr.rid, m.reqs.get(&pr.rid).map(|r| r.links.values().map(|l| l.fifo.clone()).collect::<Vec<_>>()))));
                            }
                            ("has-response-misses-response", "buffered response".to_string(), format!("PendingResponse {c}/{k}::has_response() == false but receive() returns {got:?}"))
                        }
                    }
                    spec::Watch::ActConnected(s, k) => {
                        if *v {
                            ("active-connected-after-pending-dropped", m.classify_active(*s, *k), format!("ActiveRequest {s}/{k}::is_connected() == true"))
                        } else {
                            ("active-disconnected-with-live-pending", m.classify_active(*s, *k), format!("ActiveRequest {s}/{k}::is_connected() == false"))
                        }
                    }
                    spec::Watch::ActHint(s, k) => ("disconnect-hint-wrong", m.classify_active(*s, *k), format!("ActiveRequest {s}/{k}::has_disconnect_hint() == {v}")),
                };
                return Err(f(tag, site, format!("{what}, the model expects {:?}", m.expect(w))));
            }
        }
        Err(f("observer-combination", "no single model state explains all observers", format!("{obs:?}")))
    }

    /// C02: the bytes of everything that is held never change
    fn check_payloads(&self) -> Result<(), Fail> {
        for (ci, cl) in self.clients.iter().enumerate() {
            if let Some(cl) = cl {
                for (r, rid) in &cl.loaned {
                    let now: Pay = *r.payload();
                    ensure!(now == req_payload(*rid), "request-payload-changed", "loaned RequestMut", "payload of a loaned request of client {} (request {}) reads {:x?}", ci, rid, now);
                }
                for (ki, p) in cl.pend.iter().enumerate() {
                    let now: Pay = *p.p.payload();
                    ensure!(now == req_payload(p.rid), "request-payload-changed", "PendingResponse::payload", "request payload of pending response {}/{} (request {}) reads {:x?}", ci, ki, p.rid, now);
                    for (hi, h) in p.held.iter().enumerate() {
                        let now: Pay = *h.resp.payload();
                        ensure!(now == h.pay, "response-payload-changed", "held Response", "payload of held response {} of pending response {}/{} changed from {:x?} to {:x?}", hi, ci, ki, h.pay, now);
                    }
                }
            }
        }
        for (si, sv) in self.servers.iter().enumerate() {
            if let Some(sv) = sv {
                for (ki, a) in sv.act.iter().enumerate() {
                    for (r, pid) in &a.loaned {
                        let now: Pay = *r.payload();
                        ensure!(now == resp_payload(a.rid, *pid), "response-payload-changed", "loaned ResponseMut", "payload of a loaned response of active request {}/{} reads {:x?}", si, ki, now);
                    }
                    let now: Pay = *a.a.payload();
                    ensure!(now == req_payload(a.rid), "request-payload-changed", "held ActiveRequest", "payload of active request {}/{} (request {}) reads {:x?}", si, ki, a.rid, now);
                }
            }
        }
        Ok(())
    }

    fn apply(&mut self, op: &Op) -> Result<(), Fail> {
        if self.diverged {
            return Ok(());
        }
        match self.apply_judged(op) {
            Err(fail) if !owned(self.prop, &fail.tag) || seen_often(&fail) => {
                self.diverged = true;
                Ok(())
            }
            r => r,
        }
    }

    fn apply_judged(&mut self, op: &Op) -> Result<(), Fail> {
        match op {
            Op::SendRequest(c) => {
                self.send_request(*c, false)?;
            }
            Op::SendLoaned(c) => {
                self.send_request(*c, true)?;
            }
            Op::LoanRequest(c) => self.loan_request(*c)?,
            Op::DropLoaned(c) => self.drop_loaned(*c)?,
            Op::HasRequests(s) => self.has_requests(*s)?,
            Op::LoanResponse(s, k) => self.loan_response(*s, *k)?,
            Op::SendLoanedResponse(s, k) => self.send_response(*s, *k, true)?,
            Op::DropLoanedResponse(s, k) => self.drop_loaned_response(*s, *k)?,
            Op::ReceiveRequest(s) => {
                self.receive_request(*s)?;
            }
            Op::SendResponse(s, k) => self.send_response(*s, *k, false)?,
            Op::ReceiveResponse(c, k) => {
                self.receive_response(*c, *k)?;
            }
            Op::ReleaseResponse(c, k) => self.release_response(*c, *k)?,
            Op::DropPending(c, k) => self.drop_pending(*c, *k)?,
            Op::DropActive(s, k) => self.drop_active(*s, *k)?,
            Op::SetHint(c, k) => self.set_hint(*c, *k)?,
            Op::CreateClient => self.create_client()?,
            Op::CreateServer => self.create_server()?,
            Op::DropClient(c) => self.drop_client(*c)?,
            Op::DropServer(s) => self.drop_server(*s)?,
            Op::LoanProbe(c) => self.loan_probe(*c)?,
            Op::ResponseLoanProbe(s, k) => self.response_loan_probe(*s, *k)?,
            Op::SaturateRequests(c) => {
                // up to the limit every send must succeed, the next one must be refused
                let mut guard = 0;
                while self.send_request(*c, false)? {
                    self.observe()?;
                    guard += 1;
                    ensure!(guard <= self.cfg.a + 1, "active-request-limit-not-enforced", "saturation", "client {} sent {} requests without being refused", c, guard);
                }
            }
            Op::DrainRequests(s) => {
                let mut guard = 0;
                while self.receive_request(*s)? == Some(true) {
                    self.observe()?;
                    guard += 1;
                    ensure!(guard <= self.cfg.a * (self.cfg.max_clients + 4) + 1, "active-request-limit-not-enforced", "saturation", "server {} received {} requests in a row", s, guard);
                }
            }
            Op::FillResponses(s, k) => {
                for _ in 0..self.cfg.b + 1 {
                    self.send_response(*s, *k, false)?;
                    self.observe()?;
                }
            }
            Op::DrainResponses(c, k) => {
                let mut guard = 0;
                while self.receive_response(*c, *k)? == Some(true) {
                    self.observe()?;
                    guard += 1;
                    ensure!(guard <= (self.cfg.b + self.cfg.r) * (self.cfg.max_servers + 4) + 1, "response-borrow-limit-not-enforced", "saturation", "pending response {}/{} received {} responses in a row", c, k, guard);
                }
            }
        }
        for m in self.cands.iter_mut() {
            m.gc();
        }
        self.dedup();
        self.observe()?;
        if self.prop == Prop::C02 {
            self.check_payloads()?;
        }
        Ok(())
    }

    fn enabled(&self) -> Vec<Op> {
        let m = self.m();
        let mut v = Vec::new();
        if self.diverged {
            return v;
        }
        for (c, cl) in m.clients.iter().enumerate() {
            if cl.is_some() {
                v.push(Op::SendRequest(c as u8));
            }
        }
        for (s, sv) in m.servers.iter().enumerate() {
            if sv.is_some() {
                v.push(Op::ReceiveRequest(s as u8));
            }
        }
        for (s, sv) in m.servers.iter().enumerate() {
            if let Some(sv) = sv {
                for k in 0..sv.act.len() {
                    v.push(Op::SendResponse(s as u8, k as u8));
                }
            }
        }
        for (c, cl) in m.clients.iter().enumerate() {
            if let Some(cl) = cl {
                for (k, p) in cl.pend.iter().enumerate() {
                    v.push(Op::ReceiveResponse(c as u8, k as u8));
                    if !p.held.is_empty() {
                        v.push(Op::ReleaseResponse(c as u8, k as u8));
                    }
                }
            }
        }
        for (c, cl) in m.clients.iter().enumerate() {
            if let Some(cl) = cl {
                for k in 0..cl.pend.len() {
                    v.push(Op::DropPending(c as u8, k as u8));
                }
            }
        }
        for (s, sv) in m.servers.iter().enumerate() {
            if let Some(sv) = sv {
                for k in 0..sv.act.len() {
                    v.push(Op::DropActive(s as u8, k as u8));
                }
            }
        }
        if self.cfg.loans {
            for (c, cl) in m.clients.iter().enumerate() {
                if let Some(cl) = cl {
                    if cl.loans <= self.cfg.l {
                        v.push(Op::LoanRequest(c as u8));
                    }
                    if cl.loans > 0 {
                        v.push(Op::SendLoaned(c as u8));
                        v.push(Op::DropLoaned(c as u8));
                    }
                }
            }
            for (s, sv) in m.servers.iter().enumerate() {
                if let Some(sv) = sv {
                    for (k, a) in sv.act.iter().enumerate() {
                        if a.loans <= self.cfg.lr {
                            v.push(Op::LoanResponse(s as u8, k as u8));
                        }
                        if a.loans > 0 {
                            v.push(Op::SendLoanedResponse(s as u8, k as u8));
                            v.push(Op::DropLoanedResponse(s as u8, k as u8));
                        }
                    }
                }
            }
        }
        if self.cfg.hint {
            for (s, sv) in m.servers.iter().enumerate() {
                if sv.is_some() {
                    v.push(Op::HasRequests(s as u8));
                }
            }
            for (c, cl) in m.clients.iter().enumerate() {
                if let Some(cl) = cl {
                    for (k, p) in cl.pend.iter().enumerate() {
                        if !m.hint_set(p.rid) {
                            v.push(Op::SetHint(c as u8, k as u8));
                        }
                    }
                }
            }
        }
        if self.cfg.dynamic_clients {
            if m.clients.iter().any(|c| c.is_none()) {
                v.push(Op::CreateClient);
            }
            for (c, cl) in m.clients.iter().enumerate() {
                if cl.is_some() {
                    v.push(Op::DropClient(c as u8));
                }
            }
        }
        if self.cfg.dynamic_servers {
            if m.servers.iter().any(|c| c.is_none()) {
                v.push(Op::CreateServer);
            }
            for (s, sv) in m.servers.iter().enumerate() {
                if sv.is_some() {
                    v.push(Op::DropServer(s as u8));
                }
            }
        }
        if self.prop != Prop::C11 {
            for (c, cl) in m.clients.iter().enumerate() {
                if cl.is_some() {
                    v.push(Op::LoanProbe(c as u8));
                }
            }
            for (s, sv) in m.servers.iter().enumerate() {
                if let Some(sv) = sv {
                    for k in 0..sv.act.len() {
                        v.push(Op::ResponseLoanProbe(s as u8, k as u8));
                    }
                }
            }
        }
        if self.prop == Prop::C08 {
            for (c, cl) in m.clients.iter().enumerate() {
                if let Some(cl) = cl {
                    v.push(Op::SaturateRequests(c as u8));
                    for k in 0..cl.pend.len() {
                        v.push(Op::DrainResponses(c as u8, k as u8));
                    }
                }
            }
            for (s, sv) in m.servers.iter().enumerate() {
                if let Some(sv) = sv {
                    v.push(Op::DrainRequests(s as u8));
                    for k in 0..sv.act.len() {
                        v.push(Op::FillResponses(s as u8, k as u8));
                    }
                }
            }
        }
        v
    }

    /// C02 / C08: after every sample, pending response and active request has been released the
    /// full configured capacity is available again on every port that still exists
    fn capacity_is_back(&mut self) -> Result<(), Fail> {
        let (a, b, l, lr) = (self.cfg.a, self.cfg.b, self.cfg.l, self.cfg.lr);
        let tag = if self.prop == Prop::C02 { "capacity-not-restored" } else { "limit-not-restored" };
        // release everything
        for cl in self.clients.iter_mut().flatten() {
            cl.loaned.clear();
            cl.pend.clear();
        }
        for sv in self.servers.iter_mut().flatten() {
            sv.act.clear();
        }
        // whatever is still queued is consumed and released
        for (si, sv) in self.servers.iter().enumerate() {
            if let Some(sv) = sv {
                let mut guard = 0;
                loop {
                    match sv.server.receive() {
                        Ok(Some(a)) => drop(a),
                        Ok(None) => break,
                        Err(e) => return Err(f(tag, "server receive while holding nothing", format!("server {si} holds no active request, receive returned {e:?}"))),
                    }
                    guard += 1;
                    ensure!(guard <= a * 8 + 8, tag, "server queue does not drain", "server {} returned {} queued requests", si, guard);
                }
            }
        }
        let nservers = self.servers.iter().flatten().count();
        let mut pend = Vec::new();
        for (ci, cl) in self.clients.iter().enumerate() {
            if let Some(cl) = cl {
                for i in 0..a {
                    match cl.client.send_copy(req_payload(1_000_000 + (ci * 100 + i) as Rid)) {
                        Ok(p) => {
                            ensure!(p.number_of_server_connections() == nservers, tag, "request not delivered to every server", "after releasing everything request {} of client {} reached {} of {} servers", i + 1, ci, p.number_of_server_connections(), nservers);
                            pend.push((ci, p));
                        }
                        Err(e) => return Err(f(tag, format!("request send: {e:?}"), format!("after releasing everything, send {} of {a} on client {ci} failed with {e:?}", i + 1))),
                    }
                }
                let mut loans = Vec::new();
                for i in 0..l {
                    match cl.client.loan_uninit() {
                        Ok(x) => loans.push(x),
                        Err(e) => return Err(f(tag, format!("request loan: {e:?}"), format!("after releasing everything and with {a} active requests, loan {} of {l} on client {ci} failed with {e:?}", i + 1))),
                    }
                }
            }
        }
        let nclients = self.clients.iter().flatten().count();
        let mut acts = Vec::new();
        for (si, sv) in self.servers.iter().enumerate() {
            if let Some(sv) = sv {
                for i in 0..a * nclients {
                    match sv.server.receive() {
                        Ok(Some(x)) => acts.push((si, x)),
                        Ok(None) => return Err(f(tag, "request missing", format!("after releasing everything server {si} received only {i} of {} requests", a * nclients))),
                        Err(e) => return Err(f(tag, format!("request receive: {e:?}"), format!("after releasing everything server {si} failed to receive request {} of {} with {e:?}", i + 1, a * nclients))),
                    }
                }
            }
        }
        for (si, x) in &acts {
            let mut loans = Vec::new();
            for i in 0..lr {
                match x.loan_uninit() {
                    Ok(v) => loans.push(v),
                    Err(e) => return Err(f(tag, format!("response loan: {e:?}"), format!("after releasing everything, response loan {} of {lr} on a fresh active request of server {si} failed with {e:?}", i + 1))),
                }
            }
            drop(loans);
            for i in 0..b {
                if let Err(e) = x.send_copy(resp_payload(2_000_000, i as Pid)) {
                    return Err(f(tag, format!("response send: {e:?}"), format!("after releasing everything, response {} of {b} on a fresh active request of server {si} failed with {e:?}", i + 1)));
                }
            }
        }
        for (ci, p) in &pend {
            let mut n = 0;
            let mut foreign = 0;
            loop {
                match p.receive() {
                    Ok(Some(r)) => {
                        // responses that belong to other requests are the business of C11
                        if decode_resp(r.payload()).map(|x| x.0) == Some(2_000_000) {
                            n += 1;
                        } else {
                            foreign += 1;
                            ensure!(foreign < 64, tag, "too many responses", "fresh pending response of client {} keeps receiving responses", ci);
                        }
                    }
                    Ok(None) => break,
                    Err(e) => return Err(f(tag, format!("response receive: {e:?}"), format!("fresh pending response of client {ci}: {e:?}"))),
                }
                ensure!(n <= b * nservers, tag, "too many responses", "fresh pending response of client {} received more than {} responses", ci, b * nservers);
            }
            ensure!(n == b * nservers, tag, "response missing", "after releasing everything a fresh pending response of client {} received {} of {} responses ({} servers x buffer {})", ci, n, b * nservers, nservers, b);
        }
        Ok(())
    }

    fn finish(mut self) -> Result<(), Fail> {
        let r = if self.prop != Prop::C11 && !self.diverged { self.capacity_is_back() } else { Ok(()) };
        // orderly teardown: samples, streams, ports, service, node
        for cl in self.clients.iter_mut() {
            if let Some(c) = cl.take() {
                let ClientR { loaned, pend, client, .. } = c;
                drop(loaned);
                drop(pend);
                drop(client);
            }
        }
        for sv in self.servers.iter_mut() {
            if let Some(s) = sv.take() {
                let ServerR { act, server, .. } = s;
                drop(act);
                drop(server);
            }
        }
        let ipc = self.cfg.ipc;
        let World { service, node, .. } = self;
        drop(service);
        drop(node);
        if ipc {
            // nothing of this process' private domain is in use any more: also remove what
            // persists by design (directories, the domain-wide management segment)
            remove_own_domain();
        }
        match r {
            Err(fail) if seen_often(&fail) => Ok(()),
            r => r,
        }
    }

    fn key(&self) -> u64 {
        if self.diverged {
            return 0xD1FE_26ED;
        }
        let mut v: Vec<Vec<u32>> = self.cands.iter().map(|c| c.canon()).collect();
        v.sort();
        seqx::hash_of(&v)
    }
}

enum Sys {
    Local(Box<World<local::Service>>),
    Ipc(Box<World<ipc::Service>>),
}

struct H;

fn base(a: usize, b: usize, ovf_req: bool, ovf_resp: bool, ff: bool) -> Cfg {
    Cfg {
        ipc: false,
        max_clients: 1,
        max_servers: 1,
        init_clients: 1,
        init_servers: 1,
        clients_first: false,
        dynamic_clients: false,
        dynamic_servers: false,
        a,
        b,
        r: 1,
        l: 1,
        lr: 1,
        ovf_req,
        ovf_resp,
        ff,
        hold: false,
        hint: false,
        loans: false,
        expired: 8,
        stage: 0,
    }
}

impl Harness for H {
    type Cfg = Cfg;
    type Op = Op;
    type Sys = Sys;

    fn name(&self) -> &'static str {
        "h_reqres"
    }

    fn property(&self) -> &'static str {
        match prop() {
            Prop::C11 => "C11",
            Prop::C02 => "C02",
            Prop::C08 => "C08",
        }
    }

    fn rule(&self) -> String {
        "every sequence (up to the tree depth) of send request / receive request / send response / receive response / release response / drop pending response / drop active request / set disconnect hint / create+drop client / create+drop server (C02, C08: plus loan probes; C08: plus saturation macro operations) on real request-response ports of a fresh service per execution, for a covering set of {1..2 clients x 1..2 servers, max_active_requests 1..3, response buffer 1..2, overflow on/off, fire-and-forget on/off, ports pre-created or dynamic}; a distinct state is a distinct canonical reference-model state (requests and responses renamed by rank); non-trivial = at least one request was sent. An execution ends at the first observation the reference model cannot explain; an oracle that belongs to another property than the selected one, or a finding this worker has already reported 12 times, ends the execution without a report so that the enumeration of the other histories continues".into()
    }

    fn configs(&self, tier: Tier) -> Vec<(Cfg, Plan)> {
        configs(tier)
    }

    fn new_sys(&self, cfg: &Cfg) -> Result<Sys, Fail> {
        Ok(if cfg.ipc { Sys::Ipc(Box::new(World::new(cfg)?)) } else { Sys::Local(Box::new(World::new(cfg)?)) })
    }

    fn enabled(&self, s: &Sys) -> Vec<Op> {
        match s {
            Sys::Local(w) => w.enabled(),
            Sys::Ipc(w) => w.enabled(),
        }
    }

    fn apply(&self, s: &mut Sys, op: &Op) -> Result<(), Fail> {
        match s {
            Sys::Local(w) => w.apply(op),
            Sys::Ipc(w) => w.apply(op),
        }
    }

    fn finish(&self, s: Sys) -> Result<(), Fail> {
        match s {
            Sys::Local(w) => w.finish(),
            Sys::Ipc(w) => w.finish(),
        }
    }

    fn model_key(&self, s: &Sys) -> u64 {
        match s {
            Sys::Local(w) => w.key(),
            Sys::Ipc(w) => w.key(),
        }
    }

    fn nontrivial(&self, s: &Sys) -> bool {
        match s {
            Sys::Local(w) => w.next_rid > 1 && !w.diverged,
            Sys::Ipc(w) => w.next_rid > 1 && !w.diverged,
        }
    }

    fn max_violations_per_worker(&self) -> usize {
        2000
    }
}

/// rows of an orthogonal array of strength 2 over five binary factors
const OA8: [[bool; 5]; 8] = {
    let mut rows = [[false; 5]; 8];
    let mut i = 0;
    while i < 8 {
        let (a, b, c) = (i & 1 == 1, i & 2 == 2, i & 4 == 4);
        rows[i] = [a, b, c, a ^ b, a ^ c];
        i += 1;
    }
    rows
};

fn row(a: usize, r: [bool; 5]) -> Cfg {
    // factors: buffer size, request overflow, response overflow, fire-and-forget, hold responses
    let mut c = base(a, if r[0] { 2 } else { 1 }, r[1], r[2], r[3]);
    c.hold = r[4];
    if c.hold {
        c.r = if r[0] { 1 } else { 2 };
    }
    c
}

fn depth_override(d: usize) -> usize {
    std::env::var("H_REQRES_DEPTH_DELTA").ok().and_then(|s| s.parse::<i64>().ok()).map(|x| (d as i64 + x).max(1) as usize).unwrap_or(d)
}

fn configs(tier: Tier) -> Vec<(Cfg, Plan)> {
    let quick = tier == Tier::Quick;
    let p = prop();
    // the additional probe / saturation operations of C02 and C08 widen the tree
    let less = match (p, quick) {
        (Prop::C11, _) => 0,
        (Prop::C02, true) => 1,
        (Prop::C02, false) => 2,
        (Prop::C08, true) => 2,
        (Prop::C08, false) => 3,
    };
    let mut v: Vec<(Cfg, Plan)> = Vec::new();
    let mut add = |c: Cfg, quick_depth: usize, thorough_depth: usize| {
        let d = depth_override(if quick { quick_depth } else { thorough_depth } - less);
        let frontier = if quick { Some((300, 10)) } else { Some((2000, 12)) };
        // the widest quick trees are split over two workers to keep every worker short
        let split = if !quick || quick_depth >= 6 { 2 } else { 1 };
        v.push((c, Plan { tree_depth: d, finish_prefixes: false, frontier, split }));
    };

    // S11: one client, one server, both created up front, no port operations
    for a in 1..=3usize {
        for (i, r) in OA8.into_iter().enumerate() {
            let (qd, td) = match a {
                1 => (if i % 2 == 0 { 7 } else { 6 }, if i % 2 == 0 { 9 } else { 8 }),
                2 => (6, if i % 2 == 0 { 8 } else { 7 }),
                _ => (5, 7),
            };
            add(row(a, r), qd, td);
        }
    }
    // D11: ports come and go (at most one client and one server at a time)
    for (i, r) in OA8.iter().enumerate() {
        let a = 1 + i % 2;
        let mut c = row(a, *r);
        c.dynamic_clients = true;
        c.dynamic_servers = true;
        if i >= 6 {
            c.init_clients = 0;
            c.init_servers = 0;
        }
        c.clients_first = i % 4 == 1;
        add(c, if a == 1 { 6 } else { 5 }, if a == 1 { 8 } else { 7 });
    }
    // S21 / S12: two clients or two servers, static
    for (i, r) in OA8.iter().enumerate() {
        let a = 1 + i % 2;
        let mut c = row(a, *r);
        c.max_clients = 2;
        c.init_clients = 2;
        add(c, if a == 1 && i % 4 == 0 { 6 } else { 5 }, if a == 1 { 7 } else { 6 });
        let mut c = row(a, OA8[7 - i]);
        c.max_servers = 2;
        c.init_servers = 2;
        c.clients_first = i % 4 == 2;
        add(c, if a == 1 && i % 4 == 2 { 6 } else { 5 }, if a == 1 { 7 } else { 6 });
    }
    // D21 / D12: the second client / server comes and goes
    for (i, r) in OA8.iter().enumerate().filter(|(i, _)| i % 2 == 0) {
        let mut c = row(1, *r);
        c.max_clients = 2;
        c.dynamic_clients = true;
        add(c, 5, 7);
        let mut c = row(1, OA8[7 - i]);
        c.max_servers = 2;
        c.dynamic_servers = true;
        add(c, 5, 7);
    }
    // S22 / D22
    for (i, r) in OA8.iter().enumerate().filter(|(i, _)| i % 2 == 1) {
        let mut c = row(1, *r);
        c.max_clients = 2;
        c.max_servers = 2;
        c.init_clients = 2;
        c.init_servers = 2;
        if i % 4 == 3 {
            c.dynamic_clients = true;
            c.dynamic_servers = true;
            c.init_clients = 1;
            c.init_servers = 1;
        }
        add(c, 5, 6);
    }
    // disconnect hint, has_requests
    for (i, r) in [OA8[0], OA8[5], OA8[6]].into_iter().enumerate() {
        let mut c = row(if i == 2 { 1 } else { 2 }, r);
        c.hint = true;
        if i == 2 {
            c.max_clients = 2;
            c.init_clients = 2;
        }
        add(c, 5, 6);
    }
    // stale active request + channel pool cycled (see Cfg::stage), with and without the disconnect hint
    for (i, r) in [OA8[0], OA8[3], OA8[5]].into_iter().enumerate() {
        // two active requests per client: the stale one and the one of the current round
        let mut c = row(2, r);
        c.hint = i != 1;
        c.stage = 1;
        add(c, 5, 6);
    }
    // loan and send as separate steps
    for (i, r) in [OA8[1], OA8[2], OA8[4], OA8[7]].into_iter().enumerate() {
        let mut c = row(1 + i % 2, r);
        c.loans = true;
        if i >= 2 {
            c.l = 2;
            c.lr = 2;
        }
        if i == 3 {
            c.dynamic_clients = true;
            c.dynamic_servers = true;
        }
        add(c, 5, 6);
    }
    if !quick {
        // the same shapes over the inter-process service flavour (every fourth configuration)
        let locals: Vec<(Cfg, Plan)> = v.iter().filter(|(c, _)| c.a <= 2).cloned().collect();
        // (an execution costs about a hundred times more than with the process-local flavour)
        for (i, (mut c, mut pl)) in locals.into_iter().enumerate() {
            if i % 4 != 0 {
                continue;
            }
            c.ipc = true;
            pl.tree_depth = (if c.max_clients + c.max_servers > 2 { 3usize } else { 4 }).saturating_sub(less).max(2);
            pl.frontier = Some((if less == 0 { 150 } else { 80 }, 8));
            pl.split = 1;
            v.push((c, pl));
        }
        // default-sized expired-connection buffers
        let mut c = row(1, OA8[3]);
        c.dynamic_clients = true;
        c.dynamic_servers = true;
        c.expired = 128;
        v.push((c, Plan { tree_depth: 6 - less.min(1), finish_prefixes: false, frontier: None, split: 2 }));
    }
    v
}

extern "C" {
    fn mallopt(param: i32, value: i32) -> i32;
}

fn main() {
    // Every execution builds and tears down ports with large tables; keep the freed memory in
    // the heap instead of returning it to the kernel and faulting it in again (glibc:
    // M_TRIM_THRESHOLD = -1, M_MMAP_THRESHOLD = -3). Pure performance tuning of the harness process.
    unsafe {
        mallopt(-1, 1 << 30);
        mallopt(-3, 32 << 20);
    }
    seqx::main(H);
}
