//! C06, single-threaded leg: histories of create / open / open_or_create / handle drop on one
//! service name from two nodes, and a table of creator settings x opener requirements.

use std::time::Duration;

use iceoryx2::prelude::*;
use iceoryx2::service::port_factory::{blackboard, event, publish_subscribe, request_response};
use seqx::{ensure, Fail, Plan, Tier};
use serde::{Deserialize, Serialize};

use crate::{Domain, Pattern, Variant, WorldDyn, PATTERNS, VARIANTS};

#[derive(Clone, Copy, Debug, Serialize, Deserialize, PartialEq, Eq, Hash)]
pub enum Mode {
    /// all histories of the operations
    History,
    /// one row of the settings x requirements table per execution
    Table,
}

#[derive(Clone, Debug, Serialize, Deserialize)]
pub struct Cfg {
    pub pattern: Pattern,
    pub variant: Variant,
    pub mode: Mode,
}

/// settings variant of a creator: the distinguishing knob (max_subscribers / max_listeners /
/// max_clients / max_readers) is 2 (A) or 3 (B)
#[derive(Clone, Copy, Debug, Serialize, Deserialize, PartialEq, Eq, Hash)]
pub enum V {
    A,
    B,
}

impl V {
    fn knob(self) -> usize {
        match self {
            V::A => 2,
            V::B => 3,
        }
    }
}

/// requirement variant of an opener
#[derive(Clone, Copy, Debug, Serialize, Deserialize, PartialEq, Eq, Hash)]
pub enum Req {
    /// no requirement besides the types
    Any,
    /// requires the knob value of settings variant B (3)
    AsB,
    /// incompatible type (payload u32 / request u32 / key u32) or, for events, a deadline
    Incompatible,
}

#[derive(Clone, Debug, Serialize, Deserialize, PartialEq, Eq)]
pub enum Op {
    Create { node: usize, v: V },
    Open { node: usize, req: Req },
    OpenOrCreate { node: usize, v: V },
    /// drops the k-th live handle (in creation order)
    DropHandle(usize),
    /// Table mode
    Row(usize),
}

pub fn rule() -> String {
    "two nodes, one service name, per messaging pattern and service variant: every history (up to the tree depth) of create(node, settings A|B), open(node, no requirement | requirement of B | incompatible type), \
     open_or_create(node, A|B) and drop of the k-th live handle; after every step Service::does_exist, Service::list, the static config seen through every live handle and the files / shared-memory objects \
     of the isolated domain are compared with the model (exists iff >= 1 live handle, settings = creator's); plus a table of creator settings x opener requirements over every builder knob \
     (greater / equal / smaller, one knob at a time) and type / alignment mismatches with the documented error variant; a distinct state = (creator settings, live handles per node)"
        .into()
}

pub fn configs(tier: Tier) -> Vec<(Cfg, Plan)> {
    let q = tier == Tier::Quick;
    let mut v = Vec::new();
    for pattern in PATTERNS {
        for variant in VARIANTS {
            // cost per execution: ipc ~100 ms CPU (files, shared memory, TOML), local ~5 ms
            let depth = match (q, variant) {
                (true, Variant::Ipc | Variant::IpcThreadsafe) => 2,
                (true, Variant::Local | Variant::LocalThreadsafe) => 3,
                (false, Variant::Ipc | Variant::IpcThreadsafe) => 3,
                (false, Variant::Local) => 5,
                (false, Variant::LocalThreadsafe) => 4,
            };
            let split = match (q, variant.is_ipc()) {
                (true, true) => 6,
                (true, false) => 6,
                (false, _) => 12,
            };
            // breadth-first over distinct model states reaches the deep states (3 live handles,
            // re-creation after the last drop) cheaply in every configuration
            v.push((Cfg { pattern, variant, mode: Mode::History }, Plan { tree_depth: depth, finish_prefixes: false, frontier: if q && variant == Variant::IpcThreadsafe { None } else { Some(if q && variant.is_ipc() { (20, 3) } else if q { (200, 6) } else { (200, 8) }) }, split }));
        }
    }
    for pattern in PATTERNS {
        for variant in VARIANTS {
            v.push((Cfg { pattern, variant, mode: Mode::Table }, Plan { tree_depth: 1, finish_prefixes: false, frontier: None, split: if variant.is_ipc() { 6 } else { 1 } }));
        }
    }
    v
}

pub fn new_world(cfg: &Cfg) -> Result<Box<dyn WorldDyn>, Fail> {
    Ok(match cfg.variant {
        Variant::Ipc => Box::new(World::<ipc::Service>::new(cfg)?),
        Variant::Local => Box::new(World::<local::Service>::new(cfg)?),
        Variant::IpcThreadsafe => Box::new(World::<ipc_threadsafe::Service>::new(cfg)?),
        Variant::LocalThreadsafe => Box::new(World::<local_threadsafe::Service>::new(cfg)?),
    })
}

// ---------------------------------------------------------------------------------------------

enum Handle<S: Service> {
    Ps(publish_subscribe::PortFactory<S, u64, ()>),
    Ev(event::PortFactory<S>),
    Rr(request_response::PortFactory<S, u64, (), u64, ()>),
    Bb(blackboard::PortFactory<S, u64>),
}

impl<S: Service> Handle<S> {
    fn knob(&self) -> usize {
        match self {
            Handle::Ps(f) => f.static_config().max_subscribers(),
            Handle::Ev(f) => f.static_config().max_listeners(),
            Handle::Rr(f) => f.static_config().max_clients(),
            Handle::Bb(f) => f.static_config().max_readers(),
        }
    }
    fn name(&self) -> String {
        match self {
            Handle::Ps(f) => f.name().to_string(),
            Handle::Ev(f) => f.name().to_string(),
            Handle::Rr(f) => f.name().to_string(),
            Handle::Bb(f) => f.name().to_string(),
        }
    }
    fn static_config(&self) -> String {
        match self {
            Handle::Ps(f) => format!("{:?}", f.static_config()),
            Handle::Ev(f) => format!("{:?}", f.static_config()),
            Handle::Rr(f) => format!("{:?}", f.static_config()),
            Handle::Bb(f) => format!("{:?}", f.static_config()),
        }
    }
}

fn dbg<E: std::fmt::Debug>(e: E) -> String {
    format!("{e:?}")
}

/// what an observer of the service sees through a live handle: the static config and the nodes
/// that are registered as users of the service
fn describe<F: iceoryx2::service::port_factory::PortFactory>(h: &F) -> String
where
    F::StaticConfig: std::fmt::Debug,
{
    let mut users: Vec<&str> = Vec::new();
    let r = h.nodes(|n| {
        users.push(match n {
            // no ids: they differ between executions and a replay has to reproduce the text
            NodeState::Alive(_) => "alive",
            NodeState::Dead(_) => "dead",
            NodeState::Inaccessible(_) => "inaccessible",
            NodeState::Undefined(_) => "undefined",
        });
        CallbackProgression::Continue
    });
    users.sort();
    format!("{:?} users={:?} ({:?})", h.static_config(), users, r)
}

/// absolute path of a flatbuffer schema file that belongs to the harness
fn schema(name: &str) -> FilePath {
    FilePath::new(format!("/verif/seq/h_lifecycle/schemas/{name}").as_bytes()).expect("schema path")
}

type Row<S> = (String, Box<dyn Fn(&World<S>) -> Result<(), Fail>>);

struct World<S: Service + 'static> {
    cfg: Cfg,
    domain: Domain,
    name: ServiceName,
    /// model: settings of the creator while the service exists
    exists: Option<V>,
    /// (node, handle) in creation order
    handles: Vec<(usize, Handle<S>)>,
    /// static config (Debug) as the creator saw it
    creator_config: Option<String>,
    nodes: Vec<Node<S>>,
    rows: Vec<Row<S>>,
    done: bool,
}

const MAX_LIVE_HANDLES: usize = 3;

impl<S: Service + 'static> World<S> {
    fn new(cfg: &Cfg) -> Result<Self, Fail> {
        let domain = Domain::new(cfg.variant.is_ipc())?;
        let name: ServiceName = format!("c06/{}", domain.tag).as_str().try_into().map_err(|e| Fail::new("setup", "service name", dbg(e)))?;
        let mut w = World { cfg: cfg.clone(), domain, name, exists: None, handles: Vec::new(), creator_config: None, nodes: Vec::new(), rows: Vec::new(), done: false };
        for _ in 0..2 {
            let n = NodeBuilder::new().config(&w.domain.config).create::<S>().map_err(|e| Fail::new("setup", "node", dbg(e)))?;
            w.nodes.push(n);
        }
        if cfg.mode == Mode::Table {
            w.rows = match cfg.pattern {
                Pattern::PubSub => rows_pubsub(),
                Pattern::Event => rows_event(),
                Pattern::ReqRes => rows_reqres(),
                Pattern::Blackboard => rows_blackboard(),
            };
        }
        w.invariants("new_sys")?;
        Ok(w)
    }

    fn pattern(&self) -> MessagingPattern {
        match self.cfg.pattern {
            Pattern::PubSub => MessagingPattern::PublishSubscribe,
            Pattern::Event => MessagingPattern::Event,
            Pattern::ReqRes => MessagingPattern::RequestResponse,
            Pattern::Blackboard => MessagingPattern::Blackboard,
        }
    }

    // ---- the three ways to obtain a handle -----------------------------------------------------

    fn create(&self, node: usize, v: V) -> Result<Handle<S>, String> {
        let b = self.nodes[node].service_builder(&self.name);
        let k = v.knob();
        match self.cfg.pattern {
            Pattern::PubSub => b.publish_subscribe::<u64>().max_subscribers(k).max_nodes(2).create().map(Handle::Ps).map_err(dbg),
            Pattern::Event => b.event().max_listeners(k).max_nodes(2).create().map(Handle::Ev).map_err(dbg),
            Pattern::ReqRes => b.request_response::<u64, u64>().max_clients(k).max_nodes(2).create().map(Handle::Rr).map_err(dbg),
            Pattern::Blackboard => b.blackboard_creator::<u64>().add::<u64>(0, 0).max_readers(k).max_nodes(2).create().map(Handle::Bb).map_err(dbg),
        }
    }

    /// `Ok(None)`: an open with an incompatible type succeeded (the handle has another type and is dropped)
    fn open(&self, node: usize, req: Req) -> Result<Option<Handle<S>>, String> {
        let b = self.nodes[node].service_builder(&self.name);
        match (self.cfg.pattern, req) {
            (Pattern::PubSub, Req::Any) => b.publish_subscribe::<u64>().open().map(|h| Some(Handle::Ps(h))).map_err(dbg),
            (Pattern::PubSub, Req::AsB) => b.publish_subscribe::<u64>().max_subscribers(3).open().map(|h| Some(Handle::Ps(h))).map_err(dbg),
            (Pattern::PubSub, Req::Incompatible) => b.publish_subscribe::<u32>().open().map(|_| None).map_err(dbg),
            (Pattern::Event, Req::Any) => b.event().open().map(|h| Some(Handle::Ev(h))).map_err(dbg),
            (Pattern::Event, Req::AsB) => b.event().max_listeners(3).open().map(|h| Some(Handle::Ev(h))).map_err(dbg),
            (Pattern::Event, Req::Incompatible) => b.event().deadline(Duration::from_secs(1)).open().map(|_| None).map_err(dbg),
            (Pattern::ReqRes, Req::Any) => b.request_response::<u64, u64>().open().map(|h| Some(Handle::Rr(h))).map_err(dbg),
            (Pattern::ReqRes, Req::AsB) => b.request_response::<u64, u64>().max_clients(3).open().map(|h| Some(Handle::Rr(h))).map_err(dbg),
            (Pattern::ReqRes, Req::Incompatible) => b.request_response::<u32, u64>().open().map(|_| None).map_err(dbg),
            (Pattern::Blackboard, Req::Any) => b.blackboard_opener::<u64>().open().map(|h| Some(Handle::Bb(h))).map_err(dbg),
            (Pattern::Blackboard, Req::AsB) => b.blackboard_opener::<u64>().max_readers(3).open().map(|h| Some(Handle::Bb(h))).map_err(dbg),
            (Pattern::Blackboard, Req::Incompatible) => b.blackboard_opener::<u32>().open().map(|_| None).map_err(dbg),
        }
    }

    fn open_or_create(&self, node: usize, v: V) -> Result<Handle<S>, String> {
        let b = self.nodes[node].service_builder(&self.name);
        let k = v.knob();
        match self.cfg.pattern {
            Pattern::PubSub => b.publish_subscribe::<u64>().max_subscribers(k).max_nodes(2).open_or_create().map(Handle::Ps).map_err(dbg),
            Pattern::Event => b.event().max_listeners(k).max_nodes(2).open_or_create().map(Handle::Ev).map_err(dbg),
            Pattern::ReqRes => b.request_response::<u64, u64>().max_clients(k).max_nodes(2).open_or_create().map(Handle::Rr).map_err(dbg),
            Pattern::Blackboard => Err("blackboard has no open_or_create".into()),
        }
    }

    // ---- documented error variants ---------------------------------------------------------------

    fn err_insufficient(&self) -> &'static str {
        match self.cfg.pattern {
            Pattern::PubSub => "DoesNotSupportRequestedAmountOfSubscribers",
            Pattern::Event => "DoesNotSupportRequestedAmountOfListeners",
            Pattern::ReqRes => "DoesNotSupportRequestedAmountOfClients",
            Pattern::Blackboard => "DoesNotSupportRequestedAmountOfReaders",
        }
    }

    fn err_incompatible(&self) -> &'static str {
        match self.cfg.pattern {
            Pattern::PubSub => "IncompatibleTypes",
            Pattern::Event => "IncompatibleDeadline",
            Pattern::ReqRes => "IncompatibleRequestOrResponseType",
            Pattern::Blackboard => "IncompatibleKeys",
        }
    }

    fn wrap_open_error(&self, e: &str) -> String {
        match self.cfg.pattern {
            Pattern::PubSub => format!("PublishSubscribeOpenError({e})"),
            Pattern::Event => format!("EventOpenError({e})"),
            Pattern::ReqRes => format!("RequestResponseOpenError({e})"),
            Pattern::Blackboard => e.to_string(),
        }
    }

    // ---- invariants after every step ----------------------------------------------------------------

    fn invariants(&self, site: &str) -> Result<(), Fail> {
        let want = self.exists.is_some();
        ensure!(want == !self.handles.is_empty(), "harness", "model", "exists {:?} with {} handles", self.exists, self.handles.len());
        let exists = S::does_exist(&self.name, &self.domain.config, self.pattern()).map_err(|e| Fail::new("c06-does-exist", site.to_string(), dbg(e)))?;
        if want {
            ensure!(exists, "c06-premature-removal", format!("Service::does_exist ({site})"), "false although {} handles are alive", self.handles.len());
        } else {
            ensure!(!exists, "c06-leftover", format!("Service::does_exist ({site})"), "true although no handle is alive");
        }
        let mut listed: Vec<(String, String)> = Vec::new();
        let r = S::list(&self.domain.config, |d| {
            listed.push((d.static_details.name().to_string(), format!("{:?}", d.static_details.messaging_pattern())));
            CallbackProgression::Continue
        });
        ensure!(r.is_ok(), "c06-list", format!("Service::list ({site})"), "{:?}", r);
        let mine = listed.iter().filter(|(n, _)| *n == self.name.to_string()).count();
        ensure!(mine == want as usize && listed.len() == want as usize, "c06-list", format!("Service::list ({site})"), "lists {:?}, expected {} service(s)", listed, want as usize);
        // every live handle sees exactly the creator's settings
        for (i, (_, h)) in self.handles.iter().enumerate() {
            let v = self.exists.unwrap();
            ensure!(h.knob() == v.knob(), "c06-settings", format!("static_config ({site})"), "handle {} sees knob {}, the creator set {}", i, h.knob(), v.knob());
            ensure!(h.name() == self.name.to_string(), "c06-settings", format!("name ({site})"), "handle {} sees name {}", i, h.name());
            let c = h.static_config();
            ensure!(Some(&c) == self.creator_config.as_ref(), "c06-settings", format!("static_config ({site})"), "handle {} sees {} but the creator saw {:?}", i, c, self.creator_config);
        }
        // resources of the isolated domain: present iff the service exists
        if self.cfg.variant.is_ipc() {
            let artifacts = self.service_artifacts();
            if want {
                ensure!(
                    artifacts.iter().any(|a| a.ends_with(".service")) && artifacts.iter().any(|a| a.ends_with(".dynamic")),
                    "c06-premature-removal",
                    format!("service files ({site})"),
                    "static config file / dynamic segment missing: {:?}",
                    self.domain.canon(&artifacts)
                );
            } else {
                ensure!(artifacts.is_empty(), "c06-leftover", format!("service files ({site})"), "no handle is alive but the domain contains {:?}", self.domain.canon(&artifacts));
            }
        }
        Ok(())
    }

    /// everything in the domain that does not belong to the nodes or is documented to persist
    fn service_artifacts(&self) -> Vec<String> {
        let node_dir = format!("{}/", self.domain.config.global.node.directory);
        self.domain
            .leftovers()
            .into_iter()
            .filter(|p| {
                let rel = p.strip_prefix(&format!("{}/", self.domain.root)).unwrap_or(p);
                !rel.starts_with(&node_dir)
            })
            .collect()
    }

    fn expect(&self, site: &str, got: &Result<(), String>, want: &Result<(), String>) -> Result<(), Fail> {
        ensure!(got == want, "c06-result", site.to_string(), "returned {:?}, expected {:?} (service {:?}, {} live handles)", got, want, self.exists, self.handles.len());
        Ok(())
    }

    fn run_row<H1, H2>(
        &self,
        label: &str,
        create: impl FnOnce(&Node<S>, &ServiceName) -> Result<(H1, String), String>,
        open: impl FnOnce(&Node<S>, &ServiceName) -> Result<H2, String>,
        describe: impl Fn(&H1) -> String,
        expected: Result<(), &str>,
    ) -> Result<(), Fail> {
        let site = format!("table: {label}");
        let (creator, before) = create(&self.nodes[0], &self.name).map_err(|e| Fail::new("c06-table", site.clone(), format!("create failed: {e}")))?;
        let resources = |w: &Self| -> Vec<String> { if w.cfg.variant.is_ipc() { w.domain.canon(&w.domain.leftovers()) } else { Vec::new() } };
        let resources_before = resources(self);
        let r = open(&self.nodes[1], &self.name);
        let got = r.as_ref().map(|_| ()).map_err(|e| e.clone());
        let want = expected.map_err(|e| e.to_string());
        ensure!(got == want, "c06-table", site, "open returned {:?}, documented: {:?}", got, want);
        if got.is_err() {
            // a refused open leaves the files and shared-memory objects of the domain as they were
            let resources_after = resources(self);
            ensure!(resources_after == resources_before, "c06-table-untouched", site, "the refused open changed the resources of the service from {:?} to {:?}", resources_before, resources_after);
        }
        // untouched
        let exists = S::does_exist(&self.name, &self.domain.config, self.pattern());
        ensure!(exists == Ok(true), "c06-table-untouched", site, "does_exist = {:?} after the open", exists);
        // an accepted opener is a user of the service while it lives: compare the user list only
        // after a refused open
        let after = describe(&creator);
        let cut = |d: &str| -> String { if got.is_err() { d.to_string() } else { d.split(" users=").next().unwrap_or(d).to_string() } };
        ensure!(cut(&after) == cut(&before), "c06-table-untouched", site, "static config / users changed from {} to {}", before, after);
        drop(r);
        let exists = S::does_exist(&self.name, &self.domain.config, self.pattern());
        ensure!(exists == Ok(true), "c06-premature-removal", site, "does_exist = {:?} after the opener was dropped", exists);
        drop(creator);
        let exists = S::does_exist(&self.name, &self.domain.config, self.pattern());
        ensure!(exists == Ok(false), "c06-leftover", site, "does_exist = {:?} after the creator was dropped", exists);
        Ok(())
    }
}

// ---- table rows -----------------------------------------------------------------------------------

macro_rules! knob_rows {
    ($rows:ident, $label:expr, $err:expr, |$b:ident| $base:expr, $method:ident) => {
        for (req, exp) in [(3usize, Err($err)), (2usize, Ok(())), (1usize, Ok(()))] {
            let label = format!("{}: creator 2, opener requires {}", $label, req);
            let l2 = label.clone();
            $rows.push((
                label,
                Box::new(move |w: &World<S>| {
                    w.run_row(
                        &l2,
                        |n, name| {
                            let $b = n.service_builder(name);
                            $base.$method(2).create().map(|h| {
                                let d = describe(&h);
                                (h, d)
                            }).map_err(dbg)
                        },
                        |n, name| {
                            let $b = n.service_builder(name);
                            $base.$method(req).open().map_err(dbg)
                        },
                        |h| describe(h),
                        exp,
                    )
                }),
            ));
        }
    };
}

macro_rules! pair_row {
    ($rows:ident, $label:expr, $exp:expr, |$b:ident| $create:expr, $open:expr) => {{
        let label: String = $label.to_string();
        let l2 = label.clone();
        $rows.push((
            label,
            Box::new(move |w: &World<S>| {
                w.run_row(
                    &l2,
                    |n, name| {
                        let $b = n.service_builder(name);
                        $create.create().map(|h| {
                            let d = describe(&h);
                            (h, d)
                        }).map_err(dbg)
                    },
                    |n, name| {
                        let $b = n.service_builder(name);
                        $open.open().map_err(dbg)
                    },
                    |h| describe(h),
                    $exp,
                )
            }),
        ));
    }};
}

fn rows_pubsub<S: Service + 'static>() -> Vec<Row<S>> {
    let mut rows: Vec<Row<S>> = Vec::new();
    knob_rows!(rows, "max_publishers", "DoesNotSupportRequestedAmountOfPublishers", |b| b.publish_subscribe::<u64>(), max_publishers);
    knob_rows!(rows, "max_subscribers", "DoesNotSupportRequestedAmountOfSubscribers", |b| b.publish_subscribe::<u64>(), max_subscribers);
    knob_rows!(rows, "subscriber_max_buffer_size", "DoesNotSupportRequestedMinBufferSize", |b| b.publish_subscribe::<u64>(), subscriber_max_buffer_size);
    knob_rows!(rows, "history_size", "DoesNotSupportRequestedMinHistorySize", |b| b.publish_subscribe::<u64>(), history_size);
    knob_rows!(rows, "subscriber_max_borrowed_samples", "DoesNotSupportRequestedMinSubscriberBorrowedSamples", |b| b.publish_subscribe::<u64>(), subscriber_max_borrowed_samples);
    knob_rows!(rows, "max_nodes", "DoesNotSupportRequestedAmountOfNodes", |b| b.publish_subscribe::<u64>(), max_nodes);
    for (c, o) in [(true, true), (true, false), (false, true), (false, false)] {
        let exp = if c == o { Ok(()) } else { Err("IncompatibleOverflowBehavior") };
        pair_row!(rows, format!("enable_safe_overflow: creator {c}, opener requires {o}"), exp, |b| b.publish_subscribe::<u64>().enable_safe_overflow(c), b.publish_subscribe::<u64>().enable_safe_overflow(o));
    }
    pair_row!(rows, "no requirement at all", Ok(()), |b| b.publish_subscribe::<u64>().max_subscribers(2), b.publish_subscribe::<u64>());
    pair_row!(rows, "payload type: creator u64, opener u32", Err("IncompatibleTypes"), |b| b.publish_subscribe::<u64>(), b.publish_subscribe::<u32>());
    pair_row!(rows, "payload type: creator u64, opener i64", Err("IncompatibleTypes"), |b| b.publish_subscribe::<u64>(), b.publish_subscribe::<i64>());
    pair_row!(rows, "payload type: creator u64, opener [u64]", Err("IncompatibleTypes"), |b| b.publish_subscribe::<u64>(), b.publish_subscribe::<[u64]>());
    pair_row!(rows, "user header: creator (), opener u64", Err("IncompatibleTypes"), |b| b.publish_subscribe::<u64>(), b.publish_subscribe::<u64>().user_header::<u64>());
    // flatbuffer payloads: the type definition (schema) is a resource of the service that is opened
    // and compared after the static configuration was accepted
    type Fb = Flatbuffer<u64>;
    pair_row!(rows, "flatbuffer schema: creator A, opener A", Ok(()), |b| b.publish_subscribe::<Fb>().flatbuffer_schema_path(&schema("position_a.fbs")), b.publish_subscribe::<Fb>().flatbuffer_schema_path(&schema("position_a.fbs")));
    pair_row!(rows, "flatbuffer schema: creator A, opener B", Err("IncompatibleTypes"), |b| b.publish_subscribe::<Fb>().flatbuffer_schema_path(&schema("position_a.fbs")), b.publish_subscribe::<Fb>().flatbuffer_schema_path(&schema("position_b.fbs")));
    pair_row!(rows, "flatbuffer schema: creator A, opener names a schema file that does not exist", Err("UnableToAcquireTypeDefinition"), |b| b.publish_subscribe::<Fb>().flatbuffer_schema_path(&schema("position_a.fbs")), b.publish_subscribe::<Fb>().flatbuffer_schema_path(&schema("missing.fbs")));
    pair_row!(rows, "flatbuffer payload: creator flatbuffer, opener u64", Err("IncompatibleTypes"), |b| b.publish_subscribe::<Fb>().flatbuffer_schema_path(&schema("position_a.fbs")), b.publish_subscribe::<u64>());
    pair_row!(
        rows,
        "payload alignment: creator default (8), opener requires 64",
        Err("IncompatibleTypes"),
        |b| b.publish_subscribe::<u64>(),
        b.publish_subscribe::<u64>().payload_alignment(Alignment::new(64).unwrap())
    );
    pair_row!(
        rows,
        "payload alignment: creator 64, opener requires 64",
        Ok(()),
        |b| b.publish_subscribe::<u64>().payload_alignment(Alignment::new(64).unwrap()),
        b.publish_subscribe::<u64>().payload_alignment(Alignment::new(64).unwrap())
    );
    pair_row!(
        rows,
        "payload alignment: creator 64, opener requires 16",
        Ok(()),
        |b| b.publish_subscribe::<u64>().payload_alignment(Alignment::new(64).unwrap()),
        b.publish_subscribe::<u64>().payload_alignment(Alignment::new(16).unwrap())
    );
    rows
}

fn rows_event<S: Service + 'static>() -> Vec<Row<S>> {
    let mut rows: Vec<Row<S>> = Vec::new();
    knob_rows!(rows, "max_notifiers", "DoesNotSupportRequestedAmountOfNotifiers", |b| b.event(), max_notifiers);
    knob_rows!(rows, "max_listeners", "DoesNotSupportRequestedAmountOfListeners", |b| b.event(), max_listeners);
    knob_rows!(rows, "max_nodes", "DoesNotSupportRequestedAmountOfNodes", |b| b.event(), max_nodes);
    knob_rows!(rows, "event_id_max_value", "DoesNotSupportRequestedMaxEventId", |b| b.event(), event_id_max_value);
    let s1 = Duration::from_secs(1);
    let s2 = Duration::from_secs(2);
    pair_row!(rows, "no requirement at all", Ok(()), |b| b.event().max_listeners(2).deadline(s1), b.event());
    pair_row!(rows, "deadline: creator none, opener requires 1 s", Err("IncompatibleDeadline"), |b| b.event(), b.event().deadline(s1));
    pair_row!(rows, "deadline: creator 1 s, opener requires 2 s", Err("IncompatibleDeadline"), |b| b.event().deadline(s1), b.event().deadline(s2));
    pair_row!(rows, "deadline: creator 1 s, opener requires none", Err("IncompatibleDeadline"), |b| b.event().deadline(s1), b.event().disable_deadline());
    pair_row!(rows, "deadline: creator 1 s, opener requires 1 s", Ok(()), |b| b.event().deadline(s1), b.event().deadline(s1));
    pair_row!(
        rows,
        "notifier_created_event: creator 1, opener requires 2",
        Err("IncompatibleNotifierCreatedEvent"),
        |b| b.event().notifier_created_event(EventId::new(1)),
        b.event().notifier_created_event(EventId::new(2))
    );
    pair_row!(
        rows,
        "notifier_created_event: creator 1, opener requires 1",
        Ok(()),
        |b| b.event().notifier_created_event(EventId::new(1)),
        b.event().notifier_created_event(EventId::new(1))
    );
    pair_row!(
        rows,
        "notifier_dropped_event: creator 1, opener requires 2",
        Err("IncompatibleNotifierDroppedEvent"),
        |b| b.event().notifier_dropped_event(EventId::new(1)),
        b.event().notifier_dropped_event(EventId::new(2))
    );
    pair_row!(
        rows,
        "notifier_dropped_event: creator none, opener requires 2",
        Err("IncompatibleNotifierDroppedEvent"),
        |b| b.event().disable_notifier_dropped_event(),
        b.event().notifier_dropped_event(EventId::new(2))
    );
    pair_row!(
        rows,
        "notifier_dead_event: creator 1, opener requires 2",
        Err("IncompatibleNotifierDeadEvent"),
        |b| b.event().notifier_dead_event(EventId::new(1)),
        b.event().notifier_dead_event(EventId::new(2))
    );
    pair_row!(
        rows,
        "notifier_dead_event: creator 1, opener requires none",
        Err("IncompatibleNotifierDeadEvent"),
        |b| b.event().notifier_dead_event(EventId::new(1)),
        b.event().disable_notifier_dead_event()
    );
    rows
}

fn rows_reqres<S: Service + 'static>() -> Vec<Row<S>> {
    let mut rows: Vec<Row<S>> = Vec::new();
    knob_rows!(rows, "max_active_requests_per_client", "DoesNotSupportRequestedAmountOfActiveRequestsPerClient", |b| b.request_response::<u64, u64>(), max_active_requests_per_client);
    knob_rows!(rows, "max_loaned_requests", "DoesNotSupportRequestedAmountOfClientRequestLoans", |b| b.request_response::<u64, u64>(), max_loaned_requests);
    knob_rows!(rows, "max_response_buffer_size", "DoesNotSupportRequestedResponseBufferSize", |b| b.request_response::<u64, u64>(), max_response_buffer_size);
    knob_rows!(rows, "max_servers", "DoesNotSupportRequestedAmountOfServers", |b| b.request_response::<u64, u64>(), max_servers);
    knob_rows!(rows, "max_clients", "DoesNotSupportRequestedAmountOfClients", |b| b.request_response::<u64, u64>(), max_clients);
    knob_rows!(rows, "max_nodes", "DoesNotSupportRequestedAmountOfNodes", |b| b.request_response::<u64, u64>(), max_nodes);
    knob_rows!(
        rows,
        "max_borrowed_responses_per_pending_response",
        "DoesNotSupportRequestedAmountOfBorrowedResponsesPerPendingResponse",
        |b| b.request_response::<u64, u64>(),
        max_borrowed_responses_per_pending_response
    );
    for (c, o) in [(true, true), (true, false), (false, true), (false, false)] {
        let same = c == o;
        pair_row!(
            rows,
            format!("enable_safe_overflow_for_requests: creator {c}, opener requires {o}"),
            if same { Ok(()) } else { Err("IncompatibleOverflowBehaviorForRequests") },
            |b| b.request_response::<u64, u64>().enable_safe_overflow_for_requests(c),
            b.request_response::<u64, u64>().enable_safe_overflow_for_requests(o)
        );
        pair_row!(
            rows,
            format!("enable_safe_overflow_for_responses: creator {c}, opener requires {o}"),
            if same { Ok(()) } else { Err("IncompatibleOverflowBehaviorForResponses") },
            |b| b.request_response::<u64, u64>().enable_safe_overflow_for_responses(c),
            b.request_response::<u64, u64>().enable_safe_overflow_for_responses(o)
        );
        pair_row!(
            rows,
            format!("enable_fire_and_forget_requests: creator {c}, opener requires {o}"),
            if same { Ok(()) } else { Err("IncompatibleBehaviorForFireAndForgetRequests") },
            |b| b.request_response::<u64, u64>().enable_fire_and_forget_requests(c),
            b.request_response::<u64, u64>().enable_fire_and_forget_requests(o)
        );
    }
    pair_row!(rows, "no requirement at all", Ok(()), |b| b.request_response::<u64, u64>().max_clients(2), b.request_response::<u64, u64>());
    pair_row!(rows, "request type: creator u64, opener u32", Err("IncompatibleRequestOrResponseType"), |b| b.request_response::<u64, u64>(), b.request_response::<u32, u64>());
    pair_row!(rows, "response type: creator u64, opener u32", Err("IncompatibleRequestOrResponseType"), |b| b.request_response::<u64, u64>(), b.request_response::<u64, u32>());
    pair_row!(
        rows,
        "request header: creator (), opener u64",
        Err("IncompatibleRequestOrResponseType"),
        |b| b.request_response::<u64, u64>(),
        b.request_response::<u64, u64>().request_user_header::<u64>()
    );
    pair_row!(
        rows,
        "response header: creator (), opener u64",
        Err("IncompatibleRequestOrResponseType"),
        |b| b.request_response::<u64, u64>(),
        b.request_response::<u64, u64>().response_user_header::<u64>()
    );
    type Fb = Flatbuffer<u64>;
    pair_row!(
        rows,
        "flatbuffer schemas: creator A/A, opener A/A",
        Ok(()),
        |b| b.request_response::<Fb, Fb>().request_flatbuffer_schema_path(&schema("position_a.fbs")).response_flatbuffer_schema_path(&schema("position_a.fbs")),
        b.request_response::<Fb, Fb>().request_flatbuffer_schema_path(&schema("position_a.fbs")).response_flatbuffer_schema_path(&schema("position_a.fbs"))
    );
    pair_row!(
        rows,
        "flatbuffer schemas: creator A/A, opener B/A",
        Err("IncompatibleRequestOrResponseType"),
        |b| b.request_response::<Fb, Fb>().request_flatbuffer_schema_path(&schema("position_a.fbs")).response_flatbuffer_schema_path(&schema("position_a.fbs")),
        b.request_response::<Fb, Fb>().request_flatbuffer_schema_path(&schema("position_b.fbs")).response_flatbuffer_schema_path(&schema("position_a.fbs"))
    );
    pair_row!(
        rows,
        "flatbuffer schemas: creator A/A, opener A/B",
        Err("IncompatibleRequestOrResponseType"),
        |b| b.request_response::<Fb, Fb>().request_flatbuffer_schema_path(&schema("position_a.fbs")).response_flatbuffer_schema_path(&schema("position_a.fbs")),
        b.request_response::<Fb, Fb>().request_flatbuffer_schema_path(&schema("position_a.fbs")).response_flatbuffer_schema_path(&schema("position_b.fbs"))
    );
    pair_row!(
        rows,
        "request alignment: creator default (8), opener requires 64",
        Err("IncompatibleRequestOrResponseType"),
        |b| b.request_response::<u64, u64>(),
        b.request_response::<u64, u64>().request_payload_alignment(Alignment::new(64).unwrap())
    );
    pair_row!(
        rows,
        "response alignment: creator 64, opener requires 64",
        Ok(()),
        |b| b.request_response::<u64, u64>().response_payload_alignment(Alignment::new(64).unwrap()),
        b.request_response::<u64, u64>().response_payload_alignment(Alignment::new(64).unwrap())
    );
    rows
}

fn rows_blackboard<S: Service + 'static>() -> Vec<Row<S>> {
    let mut rows: Vec<Row<S>> = Vec::new();
    for (req, exp) in [(3usize, Err("DoesNotSupportRequestedAmountOfReaders")), (2, Ok(())), (1, Ok(()))] {
        pair_row!(
            rows,
            format!("max_readers: creator 2, opener requires {req}"),
            exp,
            |b| b.blackboard_creator::<u64>().add::<u64>(0, 0).max_readers(2),
            b.blackboard_opener::<u64>().max_readers(req)
        );
    }
    for (req, exp) in [(3usize, Err("DoesNotSupportRequestedAmountOfNodes")), (2, Ok(())), (1, Ok(()))] {
        pair_row!(
            rows,
            format!("max_nodes: creator 2, opener requires {req}"),
            exp,
            |b| b.blackboard_creator::<u64>().add::<u64>(0, 0).max_nodes(2),
            b.blackboard_opener::<u64>().max_nodes(req)
        );
    }
    pair_row!(rows, "no requirement at all", Ok(()), |b| b.blackboard_creator::<u64>().add::<u64>(0, 0).max_readers(2), b.blackboard_opener::<u64>());
    pair_row!(rows, "key type: creator u64, opener u32", Err("IncompatibleKeys"), |b| b.blackboard_creator::<u64>().add::<u64>(0, 0), b.blackboard_opener::<u32>());
    pair_row!(rows, "key type: creator u64, opener i64", Err("IncompatibleKeys"), |b| b.blackboard_creator::<u64>().add::<u64>(0, 0), b.blackboard_opener::<i64>());
    // a creation that fails half way (the same key twice: the static config is written before the
    // entries are set up) returns the documented error and leaves nothing of the service behind
    rows.push((
        "failed create: the same key is provided twice".to_string(),
        Box::new(|w: &World<S>| {
            let site = "table: failed create: the same key is provided twice".to_string();
            let before = if w.cfg.variant.is_ipc() { w.domain.canon(&w.service_artifacts()) } else { Vec::new() };
            let r = w.nodes[0].service_builder(&w.name).blackboard_creator::<u64>().add::<u64>(0, 0).add::<u64>(0, 1).create().map(|_| ()).map_err(dbg);
            ensure!(r.is_err(), "c06-table", site, "a creator with the same key twice returned {:?}", r);
            let exists = S::does_exist(&w.name, &w.domain.config, w.pattern());
            ensure!(exists == Ok(false), "c06-failed-create-leftover", site, "the create failed with {:?} but does_exist = {:?}", r, exists);
            if w.cfg.variant.is_ipc() {
                let after = w.domain.canon(&w.service_artifacts());
                ensure!(after == before, "c06-failed-create-leftover", site, "the failed create left {:?} (before: {:?})", after, before);
            }
            // the name is free: a proper creation and an open work
            let h = w.nodes[0].service_builder(&w.name).blackboard_creator::<u64>().add::<u64>(0, 0).create().map_err(|e| Fail::new("c06-failed-create-leftover", site.clone(), format!("create after the failed create: {e:?}")))?;
            let o = w.nodes[1].service_builder(&w.name).blackboard_opener::<u64>().open().map_err(|e| Fail::new("c06-failed-create-leftover", site.clone(), format!("open after the failed create: {e:?}")))?;
            drop(o);
            drop(h);
            let exists = S::does_exist(&w.name, &w.domain.config, w.pattern());
            ensure!(exists == Ok(false), "c06-leftover", site, "does_exist = {:?} after the last handle was dropped", exists);
            Ok(())
        }),
    ));
    rows
}

// ---------------------------------------------------------------------------------------------

impl<S: Service + 'static> Drop for World<S> {
    fn drop(&mut self) {
        self.handles.clear();
        self.nodes.clear();
        self.domain.remove(self.cfg.variant.is_ipc());
    }
}

impl<S: Service + 'static> WorldDyn for World<S> {
    fn enabled(&self) -> Vec<crate::Op> {
        let mut v = Vec::new();
        if self.cfg.mode == Mode::Table {
            if !self.done {
                for i in 0..self.rows.len() {
                    v.push(Op::Row(i));
                }
            }
            return v.into_iter().map(crate::Op::C06).collect();
        }
        let room = self.handles.len() < MAX_LIVE_HANDLES;
        // Symmetry: while no handle is alive the two nodes are interchangeable (a node without a
        // handle carries no service state), so only node 0 acts. Successful acquisitions are offered
        // only while there is room for the handle; refused calls always. Calls that are refused for
        // a reason that does not depend on the argument are offered with one argument value only.
        let nodes: &[usize] = if self.handles.is_empty() { &[0] } else { &[0, 1] };
        for &node in nodes {
            match self.exists {
                None => {
                    if room {
                        v.push(Op::Create { node, v: V::A });
                        v.push(Op::Create { node, v: V::B });
                    }
                }
                Some(_) => v.push(Op::Create { node, v: V::B }), // AlreadyExists whatever the settings
            }
        }
        for &node in nodes {
            let reqs: &[Req] = match (self.exists, node) {
                (None, _) => &[Req::Any, Req::Incompatible], // DoesNotExist whatever the requirement
                (Some(_), 0) => &[Req::Any],
                (Some(_), _) => &[Req::Any, Req::AsB, Req::Incompatible],
            };
            for &req in reqs {
                let succeeds = matches!((self.exists, req), (Some(_), Req::Any) | (Some(V::B), Req::AsB));
                if !succeeds || room {
                    v.push(Op::Open { node, req });
                }
            }
        }
        if self.cfg.pattern != Pattern::Blackboard {
            for &node in nodes {
                let vs: &[V] = if self.exists.is_some() && node == 0 { &[V::A] } else { &[V::A, V::B] };
                for &vv in vs {
                    let succeeds = !(self.exists == Some(V::A) && vv == V::B);
                    if !succeeds || room {
                        v.push(Op::OpenOrCreate { node, v: vv });
                    }
                }
            }
        }
        for k in 0..self.handles.len() {
            v.push(Op::DropHandle(k));
        }
        v.into_iter().map(crate::Op::C06).collect()
    }

    fn apply(&mut self, op: &crate::Op) -> Result<(), Fail> {
        let crate::Op::C06(op) = op else { return Err(Fail::new("harness", "apply", "foreign op")) };
        let site: String;
        match op {
            Op::Row(i) => {
                self.done = true;
                let (_, run) = &self.rows[*i];
                run(self)?;
                site = "table row".into();
            }
            Op::Create { node, v } => {
                site = format!("create {}", if self.exists.is_some() { "on an existing service" } else { "on a free name" });
                let r = self.create(*node, *v);
                let want: Result<(), String> = if self.exists.is_some() { Err("AlreadyExists".into()) } else { Ok(()) };
                self.expect(&site, &r.as_ref().map(|_| ()).map_err(|e| e.clone()), &want)?;
                if let Ok(h) = r {
                    self.exists = Some(*v);
                    self.creator_config = Some(h.static_config());
                    self.handles.push((*node, h));
                }
            }
            Op::Open { node, req } => {
                site = format!("open ({req:?}) {}", if self.exists.is_some() { "an existing service" } else { "a missing service" });
                let r = self.open(*node, *req);
                let want: Result<(), String> = match (self.exists, req) {
                    (None, _) => Err("DoesNotExist".into()),
                    (Some(_), Req::Any) => Ok(()),
                    (Some(V::B), Req::AsB) => Ok(()),
                    (Some(V::A), Req::AsB) => Err(self.err_insufficient().into()),
                    (Some(_), Req::Incompatible) => Err(self.err_incompatible().into()),
                };
                self.expect(&site, &r.as_ref().map(|_| ()).map_err(|e| e.clone()), &want)?;
                if let Ok(Some(h)) = r {
                    self.handles.push((*node, h));
                }
            }
            Op::OpenOrCreate { node, v } => {
                site = format!("open_or_create {}", if self.exists.is_some() { "on an existing service" } else { "on a free name" });
                let r = self.open_or_create(*node, *v);
                let want: Result<(), String> = match (self.exists, v) {
                    (Some(V::A), V::B) => Err(self.wrap_open_error(self.err_insufficient())),
                    _ => Ok(()),
                };
                self.expect(&site, &r.as_ref().map(|_| ()).map_err(|e| e.clone()), &want)?;
                if let Ok(h) = r {
                    if self.exists.is_none() {
                        self.exists = Some(*v);
                        self.creator_config = Some(h.static_config());
                    }
                    self.handles.push((*node, h));
                }
            }
            Op::DropHandle(k) => {
                ensure!(*k < self.handles.len(), "harness", "DropHandle", "index {}", k);
                site = format!("drop of {} handle", if self.handles.len() == 1 { "the last" } else { "one of several" });
                let h = self.handles.remove(*k);
                drop(h);
                if self.handles.is_empty() {
                    self.exists = None;
                    self.creator_config = None;
                }
            }
        }
        self.invariants(&format!("after {site}"))
    }

    fn finish(&mut self) -> Result<(), Fail> {
        // drop what is left (oldest first), the name must become free and reusable
        while !self.handles.is_empty() {
            let h = self.handles.remove(0);
            drop(h);
            if self.handles.is_empty() {
                self.exists = None;
                self.creator_config = None;
            }
            self.invariants("finish: handle drop")?;
        }
        if self.cfg.mode == Mode::History {
            let h = self.create(1, V::B).map_err(|e| Fail::new("c06-name-not-reusable", "create after the last user is gone", e))?;
            ensure!(h.knob() == 3, "c06-name-not-reusable", "create after the last user is gone", "knob {}", h.knob());
            drop(h);
            self.invariants("finish: after re-creation")?;
        }
        self.nodes.clear();
        let left = self.domain.leftovers();
        ensure!(left.is_empty(), "c06-leftover", "finish", "after all handles and nodes are gone the domain contains {:?}", self.domain.canon(&left));
        self.domain.remove(self.cfg.variant.is_ipc());
        Ok(())
    }

    fn key(&self) -> u64 {
        let per_node: Vec<usize> = (0..2).map(|n| self.handles.iter().filter(|(x, _)| *x == n).count()).collect();
        seqx::hash_of(&(self.exists, per_node, self.done))
    }
}
