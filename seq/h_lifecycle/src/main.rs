//! h_lifecycle – property C17 (drop-order independence and cleanup) and, with `--prop C06`, the
//! single-threaded leg of C06 (service create / open / open-or-create life cycle).
//!
//! C17: for every messaging pattern × service variant × object graph, `new_sys` builds the whole
//! object graph in an isolated domain (own `Config`: root path + prefix unique per execution), the
//! operations are `Drop(k)` for every object that is still alive, so the maximal sequences are
//! exactly the permutations of the drop order (minus the orders the borrow checker forbids: a
//! `WaitSetGuard` borrows its `WaitSet` and the attached `Listener`, so neither can be dropped – or
//! moved – before the guard; such orders do not exist for users either). After every drop all
//! surviving objects perform their characteristic operation and are compared with a small model.
//! `finish` checks that nothing but the documented per-domain remainder is left and that the same
//! names can be used again with different settings.
//!
//! C06: two nodes, one service name; create / open / open_or_create with two settings variants and
//! three requirement variants, handle drops; after every step `does_exist`, `list`, the static
//! config seen through every live handle and the files of the isolated domain are compared with
//! the model. Plus a table of creator settings × opener requirements (one knob at a time).

mod c06;
mod c17;

use seqx::{Fail, Harness, Plan, Tier};
use serde::{Deserialize, Serialize};
use std::sync::atomic::{AtomicU64, Ordering};

#[derive(Clone, Copy, Debug, Serialize, Deserialize, PartialEq, Eq, Hash, PartialOrd, Ord)]
pub enum Pattern {
    PubSub,
    Event,
    ReqRes,
    Blackboard,
}

#[derive(Clone, Copy, Debug, Serialize, Deserialize, PartialEq, Eq, Hash)]
pub enum Variant {
    Ipc,
    Local,
    IpcThreadsafe,
    LocalThreadsafe,
}

impl Variant {
    pub fn is_ipc(self) -> bool {
        matches!(self, Variant::Ipc | Variant::IpcThreadsafe)
    }
}

pub const PATTERNS: [Pattern; 4] = [Pattern::PubSub, Pattern::Event, Pattern::ReqRes, Pattern::Blackboard];
pub const VARIANTS: [Variant; 4] = [Variant::Ipc, Variant::Local, Variant::IpcThreadsafe, Variant::LocalThreadsafe];

#[derive(Clone, Debug, Serialize, Deserialize)]
pub enum Cfg {
    C17(c17::Cfg),
    C06(c06::Cfg),
}

#[derive(Clone, Debug, Serialize, Deserialize)]
pub enum Op {
    C17(c17::Op),
    C06(c06::Op),
}

pub trait WorldDyn {
    fn enabled(&self) -> Vec<Op>;
    fn apply(&mut self, op: &Op) -> Result<(), Fail>;
    fn finish(&mut self) -> Result<(), Fail>;
    fn key(&self) -> u64;
}

pub struct Sys(Box<dyn WorldDyn>);

// ---------------------------------------------------------------------------------------------
// isolation: one domain (root directory + prefix) per execution and per process

static COUNTER: AtomicU64 = AtomicU64::new(0);

pub struct Domain {
    /// whether /dev/shm is inspected for this domain (see `shm`)
    pub scan_shm: bool,
    /// result of the most recent scan of /dev/shm (used by `remove` instead of scanning again)
    pub last_scan: std::cell::RefCell<Option<Vec<String>>>,
    pub root: String,
    pub prefix: String,
    pub tag: String,
    pub config: iceoryx2::config::Config,
}

impl Domain {
    pub fn new(is_ipc: bool) -> Result<Domain, Fail> {
        use iceoryx2::prelude::*;
        let n = COUNTER.fetch_add(1, Ordering::Relaxed);
        let pid = std::process::id();
        let root = format!("/verif/.run/h_lifecycle-{pid}-{n}");
        let tag = format!("hlc{pid}x{n}");
        let prefix = format!("{tag}_");
        std::fs::create_dir_all(&root).map_err(|e| Fail::new("setup", "mkdir", format!("{e:?}")))?;
        let mut config = Config::default();
        config.global.set_root_path(&Path::new(root.as_bytes()).map_err(|e| Fail::new("setup", "root_path", format!("{e:?}")))?);
        config.global.prefix = FileName::new(prefix.as_bytes()).map_err(|e| Fail::new("setup", "prefix", format!("{e:?}")))?;
        Ok(Domain { scan_shm: is_ipc || n == 0, last_scan: std::cell::RefCell::new(None), root, prefix, tag, config })
    }

    /// every file system entry below the isolated root (relative paths, directories end with '/')
    pub fn files(&self) -> Vec<String> {
        fn walk(base: &str, rel: &str, out: &mut Vec<String>) {
            let p = if rel.is_empty() { base.to_string() } else { format!("{base}/{rel}") };
            if let Ok(rd) = std::fs::read_dir(&p) {
                for e in rd.flatten() {
                    let name = e.file_name().to_string_lossy().to_string();
                    let r = if rel.is_empty() { name.clone() } else { format!("{rel}/{name}") };
                    let is_dir = e.file_type().map(|t| t.is_dir()).unwrap_or(false);
                    if is_dir {
                        out.push(format!("{r}/"));
                        walk(base, &r, out);
                    } else {
                        out.push(r);
                    }
                }
            }
        }
        let mut v = Vec::new();
        walk(&self.root, "", &mut v);
        v.sort();
        v
    }

    /// names in /dev/shm that carry the unique tag of this domain. /dev/shm is shared with everything
    /// else on the machine (tens of thousands of entries are common), therefore raw readdir without
    /// per-entry allocation; the local variants, which never use /dev/shm, are scanned only in the
    /// first execution of every process.
    pub fn shm(&self) -> Vec<String> {
        if !self.scan_shm {
            return Vec::new();
        }
        let v = scan_shm(&self.tag);
        *self.last_scan.borrow_mut() = Some(v.clone());
        v
    }

    /// What is left although it is not documented to persist. Documented / by design per domain:
    /// the directories `<root>/nodes` and `<root>/services` (config `global.node.directory`,
    /// `global.service.directory`) and the domain-wide management segment
    /// `<prefix>…node.<version>.global_mgmt` (created with `has_ownership(false)`,
    /// `iceoryx2/src/node/global_management_segment.rs`).
    pub fn leftovers(&self) -> Vec<String> {
        self.leftovers_impl(true)
    }

    /// the file system part only (the shared-memory part was checked by an earlier `leftovers` call)
    pub fn leftovers_fs_only(&self) -> Vec<String> {
        self.leftovers_impl(false)
    }

    fn leftovers_impl(&self, with_shm: bool) -> Vec<String> {
        let nodes = format!("{}/", self.config.global.node.directory);
        let services = format!("{}/", self.config.global.service.directory);
        let mgmt_suffix = self.config.global.node.global_mgmt_suffix.to_string();
        let mut v: Vec<String> = self.files().into_iter().filter(|f| *f != nodes && *f != services).map(|f| format!("{}/{f}", self.root)).collect();
        for s in if with_shm { self.shm() } else { Vec::new() } {
            let is_mgmt = s.ends_with(&mgmt_suffix) && s.contains("node.");
            if !is_mgmt {
                v.push(format!("/dev/shm/{s}"));
            }
        }
        v
    }

    /// paths without the parts that differ between processes / executions
    pub fn canon(&self, paths: &[String]) -> Vec<String> {
        paths
            .iter()
            .map(|p| {
                let p = p.replace(&self.root, "<root>").replace(&self.tag, "<tag>");
                // node / port / service ids: long runs of digits or hex digits
                let mut out = String::new();
                let mut run = String::new();
                for c in p.chars().chain(std::iter::once('\0')) {
                    if c.is_ascii_hexdigit() {
                        run.push(c);
                    } else {
                        if run.len() >= 12 {
                            out.push_str("<id>");
                        } else {
                            out.push_str(&run);
                        }
                        run.clear();
                        if c != '\0' {
                            out.push(c);
                        }
                    }
                }
                out
            })
            .collect()
    }

    pub fn remove(&self, _is_ipc: bool) {
        let _ = std::fs::remove_dir_all(&self.root);
        let known = self.last_scan.borrow_mut().take();
        for s in known.unwrap_or_else(|| self.shm()) {
            let _ = std::fs::remove_file(format!("/dev/shm/{s}"));
        }
    }
}

pub fn scan_shm(tag: &str) -> Vec<String> {
    let mut v = Vec::new();
    let tag = tag.as_bytes();
    unsafe {
        let d = libc::opendir(b"/dev/shm\0".as_ptr() as *const libc::c_char);
        if d.is_null() {
            return v;
        }
        loop {
            let e = libc::readdir(d);
            if e.is_null() {
                break;
            }
            let name = std::ffi::CStr::from_ptr((*e).d_name.as_ptr()).to_bytes();
            if name.len() >= tag.len() && name.windows(tag.len()).any(|w| w == tag) {
                v.push(String::from_utf8_lossy(name).to_string());
            }
        }
        libc::closedir(d);
    }
    v.sort();
    v
}

// ---------------------------------------------------------------------------------------------
// "no drop blocks": a watchdog aborts the process when a single operation makes no progress for
// 60 s; the engine then reports the running sequence as a crash (signal 6) with a replay file.

pub static HEARTBEAT: AtomicU64 = AtomicU64::new(0);
pub static BUSY: AtomicU64 = AtomicU64::new(0);

fn start_watchdog() {
    std::thread::spawn(|| {
        let mut last = (0u64, std::time::Instant::now());
        loop {
            std::thread::sleep(std::time::Duration::from_millis(500));
            let hb = HEARTBEAT.load(Ordering::Relaxed);
            if hb != last.0 || BUSY.load(Ordering::Relaxed) == 0 {
                last = (hb, std::time::Instant::now());
            } else if last.1.elapsed() > std::time::Duration::from_secs(60) {
                eprintln!("h_lifecycle watchdog: an operation has been blocking for 60 s");
                unsafe { libc::abort() };
            }
        }
    });
}

pub struct BusyGuard;
impl BusyGuard {
    pub fn new() -> Self {
        HEARTBEAT.fetch_add(1, Ordering::Relaxed);
        BUSY.store(1, Ordering::Relaxed);
        BusyGuard
    }
}
impl Drop for BusyGuard {
    fn drop(&mut self) {
        HEARTBEAT.fetch_add(1, Ordering::Relaxed);
        BUSY.store(0, Ordering::Relaxed);
    }
}

// ---------------------------------------------------------------------------------------------

struct H;

fn c06_selected() -> bool {
    seqx::selected_property() == Some("C06")
}

impl Harness for H {
    type Cfg = Cfg;
    type Op = Op;
    type Sys = Sys;

    fn name(&self) -> &'static str {
        "h_lifecycle"
    }
    fn property(&self) -> &'static str {
        if c06_selected() {
            "C06"
        } else {
            "C17"
        }
    }
    fn rule(&self) -> String {
        if c06_selected() {
            c06::rule()
        } else {
            c17::rule()
        }
    }
    fn configs(&self, tier: Tier) -> Vec<(Cfg, Plan)> {
        if c06_selected() {
            c06::configs(tier).into_iter().map(|(c, p)| (Cfg::C06(c), p)).collect()
        } else {
            c17::configs(tier).into_iter().map(|(c, p)| (Cfg::C17(c), p)).collect()
        }
    }
    fn new_sys(&self, cfg: &Cfg) -> Result<Sys, Fail> {
        iceoryx2::prelude::set_log_level(iceoryx2::prelude::LogLevel::Fatal);
        let _b = BusyGuard::new();
        Ok(Sys(match cfg {
            Cfg::C17(c) => c17::new_world(c)?,
            Cfg::C06(c) => c06::new_world(c)?,
        }))
    }
    fn enabled(&self, s: &Sys) -> Vec<Op> {
        s.0.enabled()
    }
    fn apply(&self, s: &mut Sys, op: &Op) -> Result<(), Fail> {
        let _b = BusyGuard::new();
        s.0.apply(op)
    }
    fn finish(&self, mut s: Sys) -> Result<(), Fail> {
        let _b = BusyGuard::new();
        s.0.finish()
    }
    fn model_key(&self, s: &Sys) -> u64 {
        s.0.key()
    }
    /// a known finding that shows in a large share of the drop orders must not end the exploration
    fn max_violations_per_worker(&self) -> usize {
        1_000_000
    }
}


/// Domains of processes that no longer exist (a replayed violation is abandoned by the engine with
/// `mem::forget`, a crashed worker cannot clean up): removed whenever a parent / replay process starts.
fn remove_stale_domains(dir_prefix: &str, shm_tag: &str) {
    if std::env::args().any(|a| a == "--job" || a == "--list") {
        return;
    }
    let alive = |pid: &str| !pid.is_empty() && pid.chars().all(|c| c.is_ascii_digit()) && std::path::Path::new(&format!("/proc/{pid}")).exists();
    if let Ok(rd) = std::fs::read_dir("/verif/.run") {
        for e in rd.flatten() {
            let name = e.file_name().to_string_lossy().to_string();
            if let Some(rest) = name.strip_prefix(dir_prefix) {
                let pid = rest.split('-').next().unwrap_or("");
                if pid.chars().all(|c| c.is_ascii_digit()) && !pid.is_empty() && !alive(pid) {
                    let _ = std::fs::remove_dir_all(e.path());
                }
            }
        }
    }
    if let Ok(rd) = std::fs::read_dir("/dev/shm") {
        for e in rd.flatten() {
            let name = e.file_name().to_string_lossy().to_string();
            if let Some(rest) = name.strip_prefix(shm_tag) {
                let pid: String = rest.chars().take_while(|c| c.is_ascii_digit()).collect();
                if rest[pid.len()..].starts_with('x') && !pid.is_empty() && !alive(&pid) {
                    let _ = std::fs::remove_file(e.path());
                }
            }
        }
    }
}

fn main() {
    iceoryx2::prelude::set_log_level(iceoryx2::prelude::LogLevel::Fatal);
    // the process-local storages of the local variants are heap allocations of several 100 kB that
    // are created and freed in every execution: keep them in the heap instead of mmap / trim cycles
    if std::env::var("H_LIFECYCLE_MALLOPT").is_ok() {
        unsafe {
            libc::mallopt(libc::M_MMAP_THRESHOLD, 1 << 30);
            libc::mallopt(libc::M_TRIM_THRESHOLD, 1 << 30);
        }
    }
    remove_stale_domains("h_lifecycle-", "hlc");
    start_watchdog();
    seqx::main(H);
}
