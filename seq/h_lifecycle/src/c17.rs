//! C17: all permutations of the drop order of an application's object graph.

use std::collections::BTreeSet;
use std::time::Duration;

use iceoryx2::active_request::ActiveRequest;
use iceoryx2::pending_response::PendingResponse;
use iceoryx2::port::client::Client;
use iceoryx2::port::listener::Listener;
use iceoryx2::port::notifier::Notifier;
use iceoryx2::port::publisher::Publisher;
use iceoryx2::port::reader::{EntryHandle, Reader};
use iceoryx2::port::server::Server;
use iceoryx2::port::subscriber::Subscriber;
use iceoryx2::port::writer::{EntryHandleMut, EntryHandleMutError, Writer};
use iceoryx2::port::SendError;
use iceoryx2::prelude::*;
use iceoryx2::response::Response;
use iceoryx2::response_mut::ResponseMut;
use iceoryx2::sample::Sample;
use iceoryx2::sample_mut::SampleMut;
use iceoryx2::service::port_factory::{blackboard, event, publish_subscribe, request_response};
use iceoryx2::waitset::{WaitSetRunError, WaitSetRunResult};
use seqx::{ensure, Fail, Plan, Tier};
use serde::{Deserialize, Serialize};

use crate::{Domain, Pattern, Variant, WorldDyn, PATTERNS, VARIANTS};

#[derive(Clone, Copy, Debug, Serialize, Deserialize, PartialEq, Eq, Hash, PartialOrd, Ord)]
pub enum Obj {
    // the guard comes first: it has to go before the wait set and the listener whenever the
    // harness itself has to drop a whole graph
    Guard,
    Node0,
    Node1,
    Svc0,
    Svc1,
    Publisher,
    Subscriber,
    SampleMut,
    Sample,
    Notifier,
    Listener,
    WaitSet,
    Client,
    Server,
    Pending,
    Active,
    Response,
    ResponseMut,
    Writer,
    Reader,
    EntryMut,
    Entry,
}

#[derive(Clone, Debug, Serialize, Deserialize)]
pub struct Cfg {
    pub pattern: Pattern,
    pub variant: Variant,
    /// the receiving side (subscriber, listener, server, reader) lives in a second node that
    /// opened the service
    pub two_nodes: bool,
    /// the objects of the graph; everything else that is needed to build them is dropped at the
    /// end of `new_sys`
    pub objects: Vec<Obj>,
    /// `Drop(SampleMut)` is performed as `SampleMut::send()` (which consumes the sample)
    pub send_instead_of_drop: bool,
    /// the service admits exactly the nodes of the graph (max_nodes = 1 or 2); before the objects are
    /// dropped, a further node tries to open it, is refused with ExceedsMaxNumberOfNodes and is
    /// dropped again: the refused open must not leave anything behind either
    #[serde(default)]
    pub refused_open: bool,
}

#[derive(Clone, Debug, Serialize, Deserialize, PartialEq, Eq)]
pub enum Op {
    Drop(Obj),
}

pub fn rule() -> String {
    "for every messaging pattern (publish-subscribe, event, request-response, blackboard) x service variant (ipc, local, ipc_threadsafe, local_threadsafe) x object graph \
     (one node / two nodes sharing the service; node, service handle, ports, loaned and received samples, pending response, active request, loaned and received response, \
     entry handles, wait set + attachment guard) every permutation of the drop order that the borrow checker admits is executed in an isolated domain; after each drop every \
     surviving object performs its characteristic operation against a model, at the end the domain must contain nothing but the documented remainder and the names must be reusable; \
     a distinct state = set of objects still alive"
        .into()
}

fn graphs(pattern: Pattern, tier: Tier) -> Vec<(bool, Vec<Obj>, bool)> {
    use Obj::*;
    let q = tier == Tier::Quick;
    // (two_nodes, objects, send_instead_of_drop)
    match pattern {
        Pattern::PubSub => {
            let mut v = vec![
                (false, vec![Node0, Svc0, Publisher, Subscriber, SampleMut, Sample], false),
                (true, vec![Node0, Publisher, SampleMut, Node1, Subscriber, Sample], true),
            ];
            if !q {
                v.push((false, vec![Node0, Svc0, Publisher, Subscriber, SampleMut, Sample], true));
                v.push((true, vec![Node0, Svc0, Publisher, SampleMut, Node1, Svc1, Subscriber, Sample], false));
            }
            v
        }
        Pattern::Event => {
            let mut v = vec![
                (false, vec![Node0, Svc0, Notifier, Listener, WaitSet, Guard], false),
                (true, vec![Node0, Notifier, Node1, Listener, WaitSet, Guard], false),
            ];
            if !q {
                v.push((true, vec![Node0, Svc0, Notifier, Node1, Svc1, Listener, WaitSet, Guard], false));
            }
            v
        }
        Pattern::ReqRes => {
            let mut v = vec![
                (false, vec![Svc0, Client, Server, Pending, Active, Response], false),
                (true, vec![Node0, Client, Pending, Node1, Server, Active], false),
            ];
            if !q {
                v.push((false, vec![Node0, Svc0, Client, Server, Pending, Active, Response, ResponseMut], false));
                v.push((true, vec![Node0, Client, Pending, Response, Node1, Server, Active, ResponseMut], false));
            }
            v
        }
        Pattern::Blackboard => {
            let mut v = vec![
                (false, vec![Node0, Svc0, Writer, Reader, EntryMut, Entry], false),
                (true, vec![Node0, Writer, EntryMut, Node1, Reader, Entry], false),
            ];
            if !q {
                v.push((true, vec![Node0, Svc0, Writer, EntryMut, Node1, Svc1, Reader, Entry], false));
            }
            v
        }
    }
}

pub fn configs(tier: Tier) -> Vec<(Cfg, Plan)> {
    let mut v = Vec::new();
    for pattern in PATTERNS {
        for variant in VARIANTS {
            for (gi, (two_nodes, objects, send)) in graphs(pattern, tier).into_iter().enumerate() {
                // the thread-safe ipc variant runs the first graph only in quick, the first two in thorough
                if variant == Variant::IpcThreadsafe && gi > if tier == Tier::Quick { 0 } else { 1 } {
                    continue;
                }
                // quick: the second (two-node) ipc graph only for publish-subscribe and request-response
                if tier == Tier::Quick && variant == Variant::Ipc && gi > 0 && matches!(pattern, Pattern::Event | Pattern::Blackboard) {
                    continue;
                }
                // Cost per execution (CPU, loaded machine): local 5..30 ms, ipc 100..300 ms (request-response is
                // the most expensive). The graphs are cut down to a maximal number of objects by dropping
                // service / node handles at the end of new_sys (they are then not part of the permutation).
                let max = match (tier, variant, pattern) {
                    (Tier::Quick, Variant::Ipc | Variant::IpcThreadsafe, _) => 5,
                    (Tier::Quick, _, _) => 6,
                    (Tier::Thorough, Variant::Local, Pattern::ReqRes) => 7,
                    (Tier::Thorough, Variant::Local, _) => 8,
                    (Tier::Thorough, Variant::LocalThreadsafe, _) => 7,
                    (Tier::Thorough, Variant::Ipc, Pattern::PubSub | Pattern::Event) => 7,
                    (Tier::Thorough, Variant::Ipc, _) => 6,
                    (Tier::Thorough, Variant::IpcThreadsafe, _) => 6,
                };
                let mut objects = objects;
                while objects.len() > max {
                    let victim = [Obj::Svc0, Obj::Svc1, Obj::Node1, Obj::Node0].into_iter().find(|o| objects.contains(o)).unwrap();
                    objects.retain(|o| *o != victim);
                }
                let n = objects.len();
                let split = match (variant.is_ipc(), n) {
                    (true, 7..) => 7,
                    (true, 6) => 6,
                    (true, _) => 5,
                    (false, 8..) => 8,
                    (false, 7) => 4,
                    _ => 2,
                };
                let cfg = Cfg { pattern, variant, two_nodes, objects, send_instead_of_drop: send, refused_open: false };
                // reduced graphs can coincide
                if v.iter().any(|(c, _): &(Cfg, Plan)| format!("{c:?}") == format!("{cfg:?}")) {
                    continue;
                }
                v.push((cfg.clone(), Plan { tree_depth: n, finish_prefixes: false, frontier: None, split }));
                // the first graph of every pattern once more with a refused open of a further node
                // (quick: ipc and local only)
                if gi == 0 && (tier == Tier::Thorough || matches!(variant, Variant::Ipc | Variant::Local)) {
                    let mut objects = cfg.objects.clone();
                    while objects.len() > 4 {
                        let victim = [Obj::Svc0, Obj::Svc1, Obj::Node1].into_iter().find(|o| objects.contains(o)).or_else(|| objects.iter().rev().find(|o| **o != Obj::Node0).cloned()).unwrap();
                        objects.retain(|o| *o != victim);
                    }
                    let n = objects.len();
                    v.push((Cfg { objects, refused_open: true, ..cfg }, Plan { tree_depth: n, finish_prefixes: false, frontier: None, split: 2 }));
                }
            }
        }
    }
    v
}

pub fn new_world(cfg: &Cfg) -> Result<Box<dyn WorldDyn>, Fail> {
    Ok(match cfg.variant {
        Variant::Ipc => Box::new(World::<ipc::Service>::new(cfg)?),
        Variant::Local => Box::new(World::<local::Service>::new(cfg)?),
        Variant::IpcThreadsafe => Box::new(World::<ipc_threadsafe::Service>::new(cfg)?),
        Variant::LocalThreadsafe => Box::new(World::<local_threadsafe::Service>::new(cfg)?),
    })
}

// ---------------------------------------------------------------------------------------------

enum Svc<S: Service> {
    Ps(publish_subscribe::PortFactory<S, u64, ()>),
    Ev(event::PortFactory<S>),
    Rr(request_response::PortFactory<S, u64, (), u64, ()>),
    Bb(blackboard::PortFactory<S, u64>),
}

type Ws<S> = WaitSet<S>;
type Li<S> = Listener<S>;

const MAGIC: u64 = 0x1CE0_0C17_0000_0001;
const REQ: u64 = 0x1CE0_0C17_0000_0002;
const RESP: u64 = 0x1CE0_0C17_0000_0003;
const BB0: u64 = 100;
const BB1: u64 = 200;

struct World<S: Service + 'static>
where
    Listener<S>: SynchronousMultiplexing,
    S::Reactor: 'static,
{
    cfg: Cfg,
    domain: Domain,
    service_name: ServiceName,
    // -- model
    alive: BTreeSet<Obj>,
    seq: u64,
    bb: [u64; 2],
    node_ids: [Option<String>; 2],
    // -- real objects
    guard: Option<WaitSetGuard<'static, 'static, S>>,
    waitset: Option<Box<WaitSet<S>>>,
    listener: Option<Box<Listener<S>>>,
    notifier: Option<Notifier<S>>,
    sample_mut: Option<SampleMut<S, u64, ()>>,
    sample: Option<Sample<S, u64, ()>>,
    publisher: Option<Publisher<S, u64, ()>>,
    subscriber: Option<Subscriber<S, u64, ()>>,
    response: Option<Response<S, u64, ()>>,
    response_mut: Option<ResponseMut<S, u64, ()>>,
    pending: Option<PendingResponse<S, u64, (), u64, ()>>,
    active: Option<ActiveRequest<S, u64, (), u64, ()>>,
    client: Option<Client<S, u64, (), u64, ()>>,
    server: Option<Server<S, u64, (), u64, ()>>,
    entry_mut: Option<EntryHandleMut<S, u64, u64>>,
    entry: Option<EntryHandle<S, u64, u64>>,
    writer: Option<Writer<S, u64>>,
    reader: Option<Reader<S, u64>>,
    svc: [Option<Svc<S>>; 2],
    node: [Option<Node<S>>; 2],
}

fn setup<T, E: std::fmt::Debug>(r: Result<T, E>, what: &str) -> Result<T, Fail> {
    r.map_err(|e| Fail::new("setup", what, format!("{e:?}")))
}

fn survivor(site: &str, detail: String) -> Fail {
    Fail::new("c17-survivor", site, detail)
}

impl<S: Service + 'static> World<S>
where
    Listener<S>: SynchronousMultiplexing,
    S::Reactor: 'static,
{
    fn node_name(i: usize) -> NodeName {
        NodeName::new(if i == 0 { "c17-node-0" } else { "c17-node-1" }).unwrap()
    }

    fn create_service(node: &Node<S>, name: &ServiceName, pattern: Pattern, open: bool, max_nodes: usize) -> Result<Svc<S>, Fail> {
        let b = node.service_builder(name);
        Ok(match pattern {
            Pattern::PubSub => {
                let b = b.publish_subscribe::<u64>();
                Svc::Ps(if open {
                    setup(b.open(), "open publish_subscribe")?
                } else {
                    setup(
                        b.max_publishers(2).max_subscribers(3).max_nodes(max_nodes).subscriber_max_buffer_size(4).subscriber_max_borrowed_samples(4).history_size(0).create(),
                        "create publish_subscribe",
                    )?
                })
            }
            Pattern::Event => {
                let b = b.event();
                Svc::Ev(if open { setup(b.open(), "open event")? } else { setup(b.max_listeners(3).max_notifiers(2).max_nodes(max_nodes).event_id_max_value(7).create(), "create event")? })
            }
            Pattern::ReqRes => {
                let b = b.request_response::<u64, u64>();
                Svc::Rr(if open {
                    setup(b.open(), "open request_response")?
                } else {
                    setup(
                        b.max_clients(2).max_servers(2).max_nodes(max_nodes).max_active_requests_per_client(4).max_response_buffer_size(4).max_borrowed_responses_per_pending_response(4).create(),
                        "create request_response",
                    )?
                })
            }
            Pattern::Blackboard => Svc::Bb(if open {
                setup(b.blackboard_opener::<u64>().open(), "open blackboard")?
            } else {
                setup(b.blackboard_creator::<u64>().add::<u64>(0, BB0).add::<u64>(1, BB1).max_readers(3).max_nodes(max_nodes).create(), "create blackboard")?
            }),
        })
    }

    fn new(cfg: &Cfg) -> Result<Self, Fail> {
        let domain = Domain::new(cfg.variant.is_ipc())?;
        let service_name: ServiceName = setup(format!("c17/{}", domain.tag).as_str().try_into(), "service name")?;
        let mut w = World {
            cfg: cfg.clone(),
            domain,
            service_name,
            alive: BTreeSet::new(),
            seq: 1000,
            bb: [BB0, BB1],
            node_ids: [None, None],
            guard: None,
            waitset: None,
            listener: None,
            notifier: None,
            sample_mut: None,
            sample: None,
            publisher: None,
            subscriber: None,
            response: None,
            response_mut: None,
            pending: None,
            active: None,
            client: None,
            server: None,
            entry_mut: None,
            entry: None,
            writer: None,
            reader: None,
            svc: [None, None],
            node: [None, None],
        };
        // from here on a failure drops `w`, whose Drop impl tears down in a safe order and
        // removes the domain
        w.build()?;
        Ok(w)
    }

    fn build(&mut self) -> Result<(), Fail> {
        use Obj::*;
        let pattern = self.cfg.pattern;
        let n0 = setup(NodeBuilder::new().name(&Self::node_name(0)).config(&self.domain.config).create::<S>(), "node 0")?;
        self.node_ids[0] = Some(format!("{:?}", n0.id()));
        let max_nodes = if self.cfg.refused_open { 1 + self.cfg.two_nodes as usize } else { 3 };
        self.svc[0] = Some(Self::create_service(&n0, &self.service_name, pattern, false, max_nodes)?);
        self.node[0] = Some(n0);
        self.alive.insert(Node0);
        self.alive.insert(Svc0);
        if self.cfg.two_nodes {
            let n1 = setup(NodeBuilder::new().name(&Self::node_name(1)).config(&self.domain.config).create::<S>(), "node 1")?;
            self.node_ids[1] = Some(format!("{:?}", n1.id()));
            self.svc[1] = Some(Self::create_service(&n1, &self.service_name, pattern, true, max_nodes)?);
            self.node[1] = Some(n1);
            self.alive.insert(Node1);
            self.alive.insert(Svc1);
        }
        if self.cfg.refused_open {
            // one node too many: refused, and the refused node goes away again
            let extra = setup(NodeBuilder::new().name(&Self::node_name(1)).config(&self.domain.config).create::<S>(), "further node")?;
            let refused: Result<(), String> = {
                let b = extra.service_builder(&self.service_name);
                match pattern {
                    Pattern::PubSub => b.publish_subscribe::<u64>().open().map(|_| ()).map_err(|e| format!("{e:?}")),
                    Pattern::Event => b.event().open().map(|_| ()).map_err(|e| format!("{e:?}")),
                    Pattern::ReqRes => b.request_response::<u64, u64>().open().map(|_| ()).map_err(|e| format!("{e:?}")),
                    Pattern::Blackboard => b.blackboard_opener::<u64>().open().map(|_| ()).map_err(|e| format!("{e:?}")),
                }
            };
            ensure!(refused == Err("ExceedsMaxNumberOfNodes".to_string()), "setup", "open by one node more than max_nodes", "expected Err(ExceedsMaxNumberOfNodes), got {:?}", refused);
            drop(extra);
        }
        let rx = if self.cfg.two_nodes { 1 } else { 0 };
        match pattern {
            Pattern::PubSub => {
                let (Some(Svc::Ps(tx)), Some(Svc::Ps(rxs))) = (&self.svc[0], &self.svc[rx]) else { unreachable!() };
                let publisher = setup(tx.publisher_builder().create(), "publisher")?;
                let subscriber = setup(rxs.subscriber_builder().create(), "subscriber")?;
                let n = setup(publisher.send_copy(MAGIC), "send_copy")?;
                ensure!(n == 1, "setup", "send_copy", "delivered to {} subscribers", n);
                let sample = setup(subscriber.receive(), "receive")?;
                let Some(sample) = sample else { return Err(Fail::new("setup", "receive", "no sample")) };
                let mut sample_mut = setup(publisher.loan(), "loan")?;
                *sample_mut.payload_mut() = 7;
                self.publisher = Some(publisher);
                self.subscriber = Some(subscriber);
                self.sample = Some(sample);
                self.sample_mut = Some(sample_mut);
                self.alive.extend([Publisher, Subscriber, Sample, SampleMut]);
            }
            Pattern::Event => {
                let (Some(Svc::Ev(tx)), Some(Svc::Ev(rxs))) = (&self.svc[0], &self.svc[rx]) else { unreachable!() };
                self.notifier = Some(setup(tx.notifier_builder().create(), "notifier")?);
                self.listener = Some(Box::new(setup(rxs.listener_builder().create(), "listener")?));
                self.waitset = Some(Box::new(setup(WaitSetBuilder::new().signal_handling_mode(SignalHandlingMode::Disabled).create::<S>(), "waitset")?));
                // the wait set and the listener are boxed and outlive the guard (see `drop_obj` / `enabled`)
                let ws: &'static Ws<S> = unsafe { &*(&**self.waitset.as_ref().unwrap() as *const Ws<S>) };
                let l: &'static Li<S> = unsafe { &*(&**self.listener.as_ref().unwrap() as *const Li<S>) };
                self.guard = Some(setup(ws.attach_notification(l), "attach_notification")?);
                self.alive.extend([Notifier, Listener, WaitSet, Guard]);
            }
            Pattern::ReqRes => {
                let (Some(Svc::Rr(tx)), Some(Svc::Rr(rxs))) = (&self.svc[0], &self.svc[rx]) else { unreachable!() };
                let client = setup(tx.client_builder().create(), "client")?;
                let server = setup(rxs.server_builder().create(), "server")?;
                let pending = setup(client.send_copy(REQ), "client.send_copy")?;
                let Some(active) = setup(server.receive(), "server.receive")? else { return Err(Fail::new("setup", "server.receive", "no request")) };
                setup(active.send_copy(RESP), "active_request.send_copy")?;
                let Some(response) = setup(pending.receive(), "pending_response.receive")? else { return Err(Fail::new("setup", "pending_response.receive", "no response")) };
                let mut response_mut = setup(active.loan(), "active_request.loan")?;
                *response_mut.payload_mut() = 9;
                self.client = Some(client);
                self.server = Some(server);
                self.pending = Some(pending);
                self.active = Some(active);
                self.response = Some(response);
                self.response_mut = Some(response_mut);
                self.alive.extend([Client, Server, Pending, Active, Response, ResponseMut]);
            }
            Pattern::Blackboard => {
                let (Some(Svc::Bb(tx)), Some(Svc::Bb(rxs))) = (&self.svc[0], &self.svc[rx]) else { unreachable!() };
                let writer = setup(tx.writer_builder().create(), "writer")?;
                let reader = setup(rxs.reader_builder().create(), "reader")?;
                self.entry_mut = Some(setup(writer.entry::<u64>(&0), "writer.entry")?);
                self.entry = Some(setup(reader.entry::<u64>(&0), "reader.entry")?);
                self.writer = Some(writer);
                self.reader = Some(reader);
                self.alive.extend([Writer, Reader, EntryMut, Entry]);
            }
        }
        // everything that is not part of the graph goes away now
        let extra: Vec<Obj> = self.alive.iter().copied().filter(|o| !self.cfg.objects.contains(o)).collect();
        for o in extra {
            self.drop_obj(o, false)?;
        }
        self.probe("new_sys")
    }

    /// node index an object belongs to
    fn node_of(&self, o: Obj) -> Option<usize> {
        use Obj::*;
        let rx = if self.cfg.two_nodes { 1 } else { 0 };
        match o {
            Guard | WaitSet => None,
            Node0 | Svc0 | Publisher | SampleMut | Notifier | Client | Pending | Response | Writer | EntryMut => Some(0),
            Node1 | Svc1 => Some(1),
            Subscriber | Sample | Listener | Server | Active | ResponseMut | Reader | Entry => Some(rx),
        }
    }

    /// objects that keep the service (state) alive
    fn is_holder(o: Obj) -> bool {
        !matches!(o, Obj::Guard | Obj::WaitSet | Obj::Node0 | Obj::Node1)
    }

    fn has(&self, o: Obj) -> bool {
        self.alive.contains(&o)
    }

    fn drop_obj(&mut self, o: Obj, send: bool) -> Result<(), Fail> {
        use Obj::*;
        ensure!(self.alive.remove(&o), "harness", "drop", "{:?} is not alive", o);
        match o {
            Guard => drop(self.guard.take()),
            WaitSet => {
                ensure!(self.guard.is_none(), "harness", "drop", "wait set before its guard");
                drop(self.waitset.take())
            }
            Listener => {
                ensure!(self.guard.is_none(), "harness", "drop", "listener before its guard");
                drop(self.listener.take())
            }
            Node0 => drop(self.node[0].take()),
            Node1 => drop(self.node[1].take()),
            Svc0 => drop(self.svc[0].take()),
            Svc1 => drop(self.svc[1].take()),
            Publisher => drop(self.publisher.take()),
            Subscriber => drop(self.subscriber.take()),
            SampleMut => {
                let s = self.sample_mut.take().unwrap();
                if send {
                    let subs = self.has(Subscriber) as usize;
                    let mut s = s;
                    *s.payload_mut() = 4242;
                    let r = s.send();
                    if self.has(Publisher) {
                        ensure!(r == Ok(subs), "c17-survivor", "SampleMut::send", "returned {:?}, expected Ok({}) (subscribers alive)", r, subs);
                        if subs == 1 {
                            let got = self.subscriber.as_ref().unwrap().receive();
                            match got {
                                Ok(Some(x)) if *x == 4242 => {}
                                other => return Err(survivor("Subscriber::receive after SampleMut::send", format!("{:?}", other.map(|o| o.map(|s| *s))))),
                            }
                        }
                    } else {
                        // documented: SendError::ConnectionBrokenSinceSenderNoLongerExists =
                        // "Send was called but the corresponding port went already out of scope."
                        ensure!(
                            r == Err(SendError::ConnectionBrokenSinceSenderNoLongerExists),
                            "c17-survivor",
                            "SampleMut::send after Publisher drop",
                            "returned {:?}, documented: Err(ConnectionBrokenSinceSenderNoLongerExists)",
                            r
                        );
                    }
                } else {
                    drop(s)
                }
            }
            Sample => drop(self.sample.take()),
            Notifier => drop(self.notifier.take()),
            Client => drop(self.client.take()),
            Server => drop(self.server.take()),
            Pending => drop(self.pending.take()),
            Active => drop(self.active.take()),
            Response => drop(self.response.take()),
            ResponseMut => drop(self.response_mut.take()),
            Writer => drop(self.writer.take()),
            Reader => drop(self.reader.take()),
            EntryMut => drop(self.entry_mut.take()),
            Entry => drop(self.entry.take()),
        }
        Ok(())
    }

    fn next(&mut self) -> u64 {
        self.seq += 1;
        self.seq
    }

    // ---- every surviving object performs its characteristic operation ------------------------

    fn probe(&mut self, site: &str) -> Result<(), Fail> {
        match self.cfg.pattern {
            Pattern::PubSub => self.probe_pubsub(site)?,
            Pattern::Event => self.probe_event(site)?,
            Pattern::ReqRes => self.probe_reqres(site)?,
            Pattern::Blackboard => self.probe_blackboard(site)?,
        }
        self.probe_common(site)
    }

    fn probe_common(&mut self, site: &str) -> Result<(), Fail> {
        use Obj::*;
        // service handles: dynamic config reflects the ports that are alive
        for i in 0..2 {
            let counts: Option<(usize, usize, &str)> = match &self.svc[i] {
                Some(Svc::Ps(f)) => Some((f.dynamic_config().number_of_publishers(), f.dynamic_config().number_of_subscribers(), "publishers/subscribers")),
                Some(Svc::Ev(f)) => Some((f.dynamic_config().number_of_notifiers(), f.dynamic_config().number_of_listeners(), "notifiers/listeners")),
                Some(Svc::Rr(f)) => Some((f.dynamic_config().number_of_clients(), f.dynamic_config().number_of_servers(), "clients/servers")),
                Some(Svc::Bb(f)) => Some((f.dynamic_config().number_of_writers(), f.dynamic_config().number_of_readers(), "writers/readers")),
                None => None,
            };
            if let Some((tx, rx, what)) = counts {
                // lower bound: the port objects that are alive; upper bound: additionally the objects that
                // share the port's state (request-response and blackboard ports deregister when their
                // shared state goes, publish-subscribe and event ports when the port object goes; the
                // documentation only says "ports currently connected")
                let (lo, hi) = match self.cfg.pattern {
                    Pattern::PubSub => ((self.has(Publisher) as usize, self.has(Subscriber) as usize), (self.has(Publisher) as usize, self.has(Subscriber) as usize)),
                    Pattern::Event => ((self.has(Notifier) as usize, self.has(Listener) as usize), (self.has(Notifier) as usize, self.has(Listener) as usize)),
                    Pattern::ReqRes => (
                        (self.has(Client) as usize, self.has(Server) as usize),
                        ((self.has(Client) || self.has(Pending) || self.has(Response)) as usize, (self.has(Server) || self.has(Active) || self.has(ResponseMut)) as usize),
                    ),
                    Pattern::Blackboard => ((self.has(Writer) as usize, self.has(Reader) as usize), ((self.has(Writer) || self.has(EntryMut)) as usize, (self.has(Reader) || self.has(Entry)) as usize)),
                };
                ensure!(
                    lo.0 <= tx && tx <= hi.0 && lo.1 <= rx && rx <= hi.1,
                    "c17-survivor",
                    format!("service handle dynamic_config ({site})"),
                    "{} = {:?}, ports alive: {:?}, ports or objects sharing their state alive: {:?}",
                    what,
                    (tx, rx),
                    lo,
                    hi
                );
                let name_ok = match &self.svc[i] {
                    Some(Svc::Ps(f)) => f.name() == &self.service_name,
                    Some(Svc::Ev(f)) => f.name() == &self.service_name,
                    Some(Svc::Rr(f)) => f.name() == &self.service_name,
                    Some(Svc::Bb(f)) => f.name() == &self.service_name,
                    None => true,
                };
                ensure!(name_ok, "c17-survivor", format!("service handle name ({site})"), "name changed");
            }
        }
        // the service exists exactly as long as somebody uses it
        let holders = self.alive.iter().any(|o| Self::is_holder(*o));
        let mp = match self.cfg.pattern {
            Pattern::PubSub => MessagingPattern::PublishSubscribe,
            Pattern::Event => MessagingPattern::Event,
            Pattern::ReqRes => MessagingPattern::RequestResponse,
            Pattern::Blackboard => MessagingPattern::Blackboard,
        };
        let exists = S::does_exist(&self.service_name, &self.domain.config, mp).map_err(|e| Fail::new("c17-survivor", format!("Service::does_exist ({site})"), format!("{e:?}")))?;
        if holders {
            ensure!(exists, "c17-premature-removal", format!("Service::does_exist ({site})"), "the service is gone although {:?} are alive", self.alive);
        } else {
            ensure!(!exists, "c17-leftover", format!("Service::does_exist ({site})"), "the service still exists although only {:?} are alive", self.alive);
        }
        // a node object that is alive is listed
        let mut listed: Vec<String> = Vec::new();
        let r = Node::<S>::list(&self.domain.config, |state| {
            if let NodeState::Alive(view) = &state {
                use iceoryx2::node::NodeView;
                listed.push(format!("{:?}", view.id()));
            } else {
                listed.push(format!("not-alive: {state:?}"));
            }
            CallbackProgression::Continue
        });
        ensure!(r.is_ok(), "c17-survivor", format!("Node::list ({site})"), "{:?}", r);
        for i in 0..2 {
            if self.node[i].is_some() {
                let id = self.node_ids[i].clone().unwrap();
                ensure!(listed.contains(&id), "c17-survivor", format!("Node::list ({site})"), "node {} is alive but not listed: {:?}", i, listed);
            }
        }
        ensure!(!listed.iter().any(|l| l.starts_with("not-alive")), "c17-survivor", format!("Node::list ({site})"), "a node is reported dead / undefined: {:?}", listed);
        // no node may be listed when nothing of it is left
        for i in 0..2 {
            let anything = self.alive.iter().any(|o| self.node_of(*o) == Some(i));
            if !anything {
                if let Some(id) = &self.node_ids[i] {
                    ensure!(!listed.contains(id), "c17-leftover", format!("Node::list ({site})"), "node {} is still listed although nothing of it is alive", i);
                }
            }
        }
        Ok(())
    }

    fn probe_pubsub(&mut self, site: &str) -> Result<(), Fail> {
        use Obj::*;
        let subs = self.has(Subscriber) as usize;
        let mut sent = None;
        if self.has(Publisher) {
            let v = self.next();
            let r = self.publisher.as_ref().unwrap().send_copy(v);
            ensure!(r == Ok(subs), "c17-survivor", format!("Publisher::send_copy ({site})"), "returned {:?}, expected Ok({})", r, subs);
            sent = Some(v);
        }
        if let Some(s) = &self.subscriber {
            let r = s.receive().map(|o| o.map(|s| *s));
            ensure!(r == Ok(sent), "c17-survivor", format!("Subscriber::receive ({site})"), "returned {:?}, expected Ok({:?})", r, sent);
            if sent.is_some() {
                let r = s.receive().map(|o| o.map(|s| *s));
                ensure!(r == Ok(None), "c17-survivor", format!("Subscriber::receive ({site})"), "second receive returned {:?}", r);
            }
        }
        if let Some(m) = &mut self.sample_mut {
            let v = self.seq ^ 0x5555;
            *m.payload_mut() = v;
            ensure!(*m.payload() == v, "c17-survivor", format!("SampleMut payload ({site})"), "wrote {} read {}", v, *m.payload());
        }
        if let Some(s) = &self.sample {
            ensure!(**s == MAGIC, "c17-survivor", format!("Sample payload ({site})"), "payload is {:#x}, received {:#x}", **s, MAGIC);
        }
        Ok(())
    }

    fn probe_event(&mut self, site: &str) -> Result<(), Fail> {
        use Obj::*;
        let listeners = self.has(Listener) as usize;
        let mut notified = false;
        if let Some(n) = &self.notifier {
            let r = n.notify_with_custom_event_id(EventId::new(5));
            ensure!(r == Ok(listeners), "c17-survivor", format!("Notifier::notify ({site})"), "returned {:?}, expected Ok({})", r, listeners);
            notified = true;
        }
        if let Some(ws) = &self.waitset {
            let mut calls = 0usize;
            let mut matched = 0usize;
            let guard = &self.guard;
            let r = ws.wait_and_process_once_with_timeout(
                |id| {
                    calls += 1;
                    if let Some(g) = guard {
                        if id.has_event_from(g) {
                            matched += 1;
                        }
                    }
                    CallbackProgression::Continue
                },
                Duration::ZERO,
            );
            if guard.is_some() {
                let want = (notified && listeners == 1) as usize;
                ensure!(r == Ok(WaitSetRunResult::AllEventsHandled), "c17-survivor", format!("WaitSet::wait_and_process_once_with_timeout ({site})"), "returned {:?}", r);
                ensure!(calls == want && matched == want, "c17-survivor", format!("WaitSet callback ({site})"), "{} callbacks, {} for the guard, expected {}", calls, matched, want);
                ensure!(ws.len() == 1, "c17-survivor", format!("WaitSet::len ({site})"), "{}", ws.len());
            } else {
                ensure!(r == Err(WaitSetRunError::NoAttachments), "c17-survivor", format!("WaitSet::wait_and_process_once_with_timeout ({site})"), "returned {:?} without attachments", r);
                ensure!(ws.len() == 0, "c17-survivor", format!("WaitSet::len ({site})"), "{}", ws.len());
            }
        }
        if let Some(l) = &self.listener {
            let mut got: Vec<(usize, u64)> = Vec::new();
            let r = l.try_wait(|a| got.push((a.id.as_value(), a.count)));
            let want: Vec<(usize, u64)> = if notified { vec![(5, 1)] } else { vec![] };
            ensure!(r.is_ok() && got == want, "c17-survivor", format!("Listener::try_wait ({site})"), "returned {:?} with {:?}, expected {:?}", r, got, want);
        }
        Ok(())
    }

    fn probe_reqres(&mut self, site: &str) -> Result<(), Fail> {
        use Obj::*;
        // a complete round trip through the ports
        if let Some(c) = &self.client {
            let v = self.seq + 1;
            self.seq += 2;
            let p = match c.send_copy(v) {
                Ok(p) => p,
                Err(e) => return Err(survivor(&format!("Client::send_copy ({site})"), format!("{e:?}"))),
            };
            if let Some(s) = &self.server {
                let a = match s.receive() {
                    Ok(Some(a)) => a,
                    other => return Err(survivor(&format!("Server::receive ({site})"), format!("{:?}, expected the request {}", other.map(|o| o.map(|a| *a.payload())), v))),
                };
                ensure!(*a.payload() == v, "c17-survivor", format!("Server::receive ({site})"), "request payload {} expected {}", *a.payload(), v);
                let r = a.send_copy(v + 1);
                ensure!(r.is_ok(), "c17-survivor", format!("ActiveRequest::send_copy ({site})"), "{:?}", r);
                let r = p.receive().map(|o| o.map(|r| *r));
                ensure!(r == Ok(Some(v + 1)), "c17-survivor", format!("PendingResponse::receive ({site})"), "returned {:?}, expected Ok(Some({}))", r, v + 1);
                drop(a);
            } else {
                let r = p.receive().map(|o| o.map(|r| *r));
                ensure!(r == Ok(None), "c17-survivor", format!("PendingResponse::receive without server ({site})"), "returned {:?}", r);
            }
            drop(p);
        } else if let Some(s) = &self.server {
            let r = s.receive().map(|o| o.map(|a| *a.payload()));
            ensure!(r == Ok(None), "c17-survivor", format!("Server::receive without client ({site})"), "returned {:?}", r);
        }
        // the stream that was established in new_sys
        if let Some(a) = &self.active {
            ensure!(*a.payload() == REQ, "c17-survivor", format!("ActiveRequest payload ({site})"), "{:#x}", *a.payload());
            ensure!(a.is_connected() == self.has(Pending), "c17-survivor", format!("ActiveRequest::is_connected ({site})"), "{} although pending response alive = {}", a.is_connected(), self.has(Pending));
        }
        if let Some(p) = &self.pending {
            ensure!(p.is_connected() == self.has(Active), "c17-survivor", format!("PendingResponse::is_connected ({site})"), "{} although active request alive = {}", p.is_connected(), self.has(Active));
            let mut want = None;
            if let Some(a) = &self.active {
                let v = self.seq + 1;
                self.seq += 1;
                let r = a.send_copy(v);
                ensure!(r.is_ok(), "c17-survivor", format!("ActiveRequest::send_copy on the established stream ({site})"), "{:?}", r);
                want = Some(v);
            }
            let r = p.receive().map(|o| o.map(|r| *r));
            ensure!(r == Ok(want), "c17-survivor", format!("PendingResponse::receive on the established stream ({site})"), "returned {:?}, expected Ok({:?})", r, want);
        } else if let Some(a) = &self.active {
            // nobody listens any more; the documentation does not say what send returns – it must
            // neither panic nor block
            let _ = a.send_copy(1);
        }
        if let Some(r) = &self.response {
            ensure!(**r == RESP, "c17-survivor", format!("Response payload ({site})"), "{:#x}", **r);
        }
        if let Some(m) = &mut self.response_mut {
            let v = self.seq ^ 0x3333;
            *m.payload_mut() = v;
            ensure!(*m.payload() == v, "c17-survivor", format!("ResponseMut payload ({site})"), "wrote {} read {}", v, *m.payload());
        }
        Ok(())
    }

    fn probe_blackboard(&mut self, site: &str) -> Result<(), Fail> {
        use Obj::*;
        if let Some(h) = &self.entry_mut {
            let v = self.seq + 1;
            self.seq += 1;
            h.update_with_copy(v);
            self.bb[0] = v;
        }
        if let Some(w) = &self.writer {
            // key 0: only one mutable handle per entry (EntryHandleMutError::HandleAlreadyExists)
            match (w.entry::<u64>(&0), self.has(EntryMut)) {
                (Err(EntryHandleMutError::HandleAlreadyExists), true) => {}
                (Ok(h), false) => {
                    let v = self.seq + 1;
                    self.seq += 1;
                    h.update_with_copy(v);
                    self.bb[0] = v;
                }
                (r, held) => return Err(survivor(&format!("Writer::entry(0) ({site})"), format!("returned {:?} while a mutable handle is held = {held}", r.map(|_| ())))),
            }
            match w.entry::<u64>(&1) {
                Ok(h) => {
                    let v = self.seq + 1;
                    self.seq += 1;
                    h.update_with_copy(v);
                    self.bb[1] = v;
                }
                Err(e) => return Err(survivor(&format!("Writer::entry(1) ({site})"), format!("{e:?}"))),
            }
        }
        if let Some(h) = &self.entry {
            let v = *h.get();
            ensure!(v == self.bb[0], "c17-survivor", format!("EntryHandle::get ({site})"), "read {} expected {}", v, self.bb[0]);
        }
        if let Some(r) = &self.reader {
            for k in 0..2u64 {
                match r.entry::<u64>(&k) {
                    Ok(h) => {
                        let v = *h.get();
                        ensure!(v == self.bb[k as usize], "c17-survivor", format!("Reader::entry({k}).get ({site})"), "read {} expected {}", v, self.bb[k as usize]);
                    }
                    Err(e) => return Err(survivor(&format!("Reader::entry({k}) ({site})"), format!("{e:?}"))),
                }
            }
        }
        Ok(())
    }

    // ---- end of an execution ---------------------------------------------------------------

    fn teardown(&mut self) {
        let rest: Vec<Obj> = self.alive.iter().copied().collect(); // Guard sorts first
        for o in rest {
            let _ = self.drop_obj(o, false);
        }
    }

    /// `Ok(Some(fail))`: the only thing that is left are empty per-node directories `nodes/<node-id>/`;
    /// this is reported after all other end-of-execution checks have run.
    fn check_empty_domain(&self, site: &str, with_shm: bool) -> Result<Option<Fail>, Fail> {
        let left = if with_shm { self.domain.leftovers() } else { self.domain.leftovers_fs_only() };
        let node_dir = format!("{}/{}/", self.domain.root, self.domain.config.global.node.directory);
        let is_empty_node_dir = |p: &String| -> bool {
            p.strip_prefix(&node_dir).map(|r| r.ends_with('/') && r.trim_end_matches('/').chars().all(|c| c.is_ascii_digit()) && r.len() > 1).unwrap_or(false)
                && std::fs::read_dir(p).map(|mut d| d.next().is_none()).unwrap_or(false)
        };
        let (node_dirs, other): (Vec<String>, Vec<String>) = left.into_iter().partition(is_empty_node_dir);
        ensure!(other.is_empty(), "c17-leftover", site.to_string(), "after everything was dropped the domain still contains: {:?}", self.domain.canon(&other));
        let mut nodes = Vec::new();
        let _ = Node::<S>::list(&self.domain.config, |s| {
            nodes.push(format!("{s:?}"));
            CallbackProgression::Continue
        });
        ensure!(nodes.is_empty(), "c17-leftover", format!("Node::list, {site}"), "{} nodes still listed", nodes.len());
        let mut services = Vec::new();
        let _ = S::list(&self.domain.config, |d| {
            services.push(format!("{}", d.static_details.name()));
            CallbackProgression::Continue
        });
        ensure!(services.is_empty(), "c17-leftover", format!("Service::list, {site}"), "{} services still listed", services.len());
        if node_dirs.is_empty() {
            Ok(None)
        } else {
            Ok(Some(Fail::new(
                "c17-leftover",
                "empty node directory nodes/<node-id>/",
                format!(
                    "after everything was dropped ({site}) {} empty per-node director{} left behind: {:?} (the last owner of the node was a port / sample whose port tag outlives the node's state)",
                    node_dirs.len(),
                    if node_dirs.len() == 1 { "y is" } else { "ies are" },
                    self.domain.canon(&node_dirs)
                ),
            )))
        }
    }

    /// the same node and service names with different settings / types
    fn reuse_names(&mut self) -> Result<(), Fail> {
        let fail = |what: &str, e: String| Fail::new("c17-name-not-reusable", what.to_string(), e);
        let node = NodeBuilder::new().name(&Self::node_name(0)).config(&self.domain.config).create::<S>().map_err(|e| fail("node", format!("{e:?}")))?;
        let b = node.service_builder(&self.service_name);
        match self.cfg.pattern {
            Pattern::PubSub => {
                let f = b.publish_subscribe::<u32>().max_subscribers(7).max_publishers(5).create().map_err(|e| fail("publish_subscribe::create", format!("{e:?}")))?;
                ensure!(f.static_config().max_subscribers() == 7, "c17-name-not-reusable", "static_config", "max_subscribers = {}", f.static_config().max_subscribers());
                let p = f.publisher_builder().create().map_err(|e| fail("publisher", format!("{e:?}")))?;
                let s = f.subscriber_builder().create().map_err(|e| fail("subscriber", format!("{e:?}")))?;
                ensure!(p.send_copy(77u32) == Ok(1), "c17-name-not-reusable", "send_copy", "not delivered");
                let r = s.receive().map(|o| o.map(|s| *s));
                ensure!(r == Ok(Some(77u32)), "c17-name-not-reusable", "receive", "{:?}", r);
            }
            Pattern::Event => {
                let f = b.event().max_listeners(7).max_notifiers(5).create().map_err(|e| fail("event::create", format!("{e:?}")))?;
                ensure!(f.static_config().max_listeners() == 7, "c17-name-not-reusable", "static_config", "max_listeners = {}", f.static_config().max_listeners());
                let l = f.listener_builder().create().map_err(|e| fail("listener", format!("{e:?}")))?;
                let n = f.notifier_builder().create().map_err(|e| fail("notifier", format!("{e:?}")))?;
                ensure!(n.notify() == Ok(1), "c17-name-not-reusable", "notify", "not delivered");
                let mut c = 0;
                let _ = l.try_wait(|_| c += 1);
                ensure!(c == 1, "c17-name-not-reusable", "try_wait", "{} events", c);
            }
            Pattern::ReqRes => {
                let f = b.request_response::<u32, u32>().max_clients(7).max_servers(5).create().map_err(|e| fail("request_response::create", format!("{e:?}")))?;
                ensure!(f.static_config().max_clients() == 7, "c17-name-not-reusable", "static_config", "max_clients = {}", f.static_config().max_clients());
                let c = f.client_builder().create().map_err(|e| fail("client", format!("{e:?}")))?;
                let s = f.server_builder().create().map_err(|e| fail("server", format!("{e:?}")))?;
                let p = c.send_copy(5u32).map_err(|e| fail("client.send_copy", format!("{e:?}")))?;
                let a = s.receive().map_err(|e| fail("server.receive", format!("{e:?}")))?;
                ensure!(a.is_some(), "c17-name-not-reusable", "server.receive", "no request");
                drop(a);
                drop(p);
            }
            Pattern::Blackboard => {
                let f = b.blackboard_creator::<u32>().add::<u32>(3, 33).max_readers(7).create().map_err(|e| fail("blackboard::create", format!("{e:?}")))?;
                ensure!(f.static_config().max_readers() == 7, "c17-name-not-reusable", "static_config", "max_readers = {}", f.static_config().max_readers());
                let r = f.reader_builder().create().map_err(|e| fail("reader", format!("{e:?}")))?;
                let v = *r.entry::<u32>(&3).map_err(|e| fail("reader.entry", format!("{e:?}")))?.get();
                ensure!(v == 33, "c17-name-not-reusable", "entry.get", "{}", v);
            }
        }
        Ok(())
    }
}

impl<S: Service + 'static> Drop for World<S>
where
    Listener<S>: SynchronousMultiplexing,
    S::Reactor: 'static,
{
    fn drop(&mut self) {
        self.teardown();
        self.domain.remove(self.cfg.variant.is_ipc());
    }
}

impl<S: Service + 'static> WorldDyn for World<S>
where
    Listener<S>: SynchronousMultiplexing,
    S::Reactor: 'static,
{
    fn enabled(&self) -> Vec<crate::Op> {
        // in the order of the configuration; a guard pins its wait set and listener (borrow)
        self.cfg
            .objects
            .iter()
            .filter(|o| self.alive.contains(o))
            .filter(|o| !(matches!(o, Obj::WaitSet | Obj::Listener) && self.alive.contains(&Obj::Guard)))
            .map(|o| crate::Op::C17(Op::Drop(*o)))
            .collect()
    }

    fn apply(&mut self, op: &crate::Op) -> Result<(), Fail> {
        let crate::Op::C17(Op::Drop(o)) = op else { return Err(Fail::new("harness", "apply", "foreign op")) };
        let send = self.cfg.send_instead_of_drop && *o == Obj::SampleMut;
        self.drop_obj(*o, send)?;
        self.probe(&format!("after drop of {o:?}"))
    }

    fn finish(&mut self) -> Result<(), Fail> {
        self.teardown();
        let deferred = self.check_empty_domain("after the last drop", true)?;
        // remove the known kind of remainder so that the second check sees only what the re-creation leaves
        if deferred.is_some() {
            let node_dir = format!("{}/{}", self.domain.root, self.domain.config.global.node.directory);
            if let Ok(rd) = std::fs::read_dir(&node_dir) {
                for e in rd.flatten() {
                    let _ = std::fs::remove_dir(e.path());
                }
            }
        }
        self.reuse_names()?;
        let second = self.check_empty_domain("after the names were reused and dropped again", false)?;
        self.domain.remove(self.cfg.variant.is_ipc());
        match deferred.or(second) {
            Some(f) => Err(f),
            None => Ok(()),
        }
    }

    fn key(&self) -> u64 {
        seqx::hash_of(&self.alive)
    }
}
