//! h_waitset – property C20 (wait-set attachment / processing semantics).
//!
//! Every history (up to a depth) of attach (notification, deadline, interval), guard drop, notify,
//! drain and zero-timeout processing calls is run on a real `WaitSet` with real listeners and
//! compared step by step with a reference model:
//!
//!   model = { live attachments (slot -> kind), pending events per listener (id -> count) }
//!
//! The wait set is level triggered (documented on `wait_and_process*`: "The WaitSet only reports
//! that an attachment is ready; it does not consume the notification ... the attachment remains
//! ready"), so a processing call has to report exactly the attachments whose listener has pending
//! (undrained) notifications.
//!
//! Service variants:
//!   * `Local`        – `local::Service` (socket-pair listeners, epoll reactor) – cheap, deep.
//!   * `Ipc`          – `ipc::Service` (unix-datagram listeners, epoll reactor) – files + shm, shallow.
//!   * `LocalSelect`  – a custom service variant (documented customisation point, see
//!                      examples/rust/service_variant_customization) = `local::Service` with
//!                      `iceoryx2_cal::reactor::posix_select::Reactor`. It exercises the second
//!                      reactor implementation and is the only one with a reachable capacity
//!                      (FD_SETSIZE); the epoll capacity is /proc/sys/fs/epoll/max_user_watches.
//!
//! Lifetimes: `WaitSetGuard<'waitset, 'attachment>` borrows the wait set and the attached
//! listener. The wait set and the listeners are boxed, live for the whole execution and are
//! dropped strictly after all guards (`World::teardown`); the references handed to `attach_*` are
//! lifetime-extended with `unsafe` confined to `World::ws()` / `World::listener()`.

use std::collections::{BTreeMap, BTreeSet};
use std::fmt::Debug;
use std::sync::atomic::{AtomicU64, Ordering};
use std::time::Duration;

use iceoryx2::port::listener::Listener;
use iceoryx2::port::notifier::Notifier;
use iceoryx2::prelude::*;
use iceoryx2::service::port_factory::event::PortFactory as EventFactory;
use iceoryx2::waitset::{WaitSetAttachmentError, WaitSetRunError, WaitSetRunResult};
use seqx::{ensure, Fail, Harness, Plan, Tier};
use serde::{Deserialize, Serialize};

// ---------------------------------------------------------------------------------------------
// custom service variant: local building blocks + select() based reactor

mod vclock;

mod select_variant {
    use core::fmt::Debug;
    use iceoryx2::prelude::ZeroCopySend;
    use iceoryx2_bb_elementary_traits::testing::abandonable::Abandonable;
    use iceoryx2_cal::shm_allocator::bump_allocator::BumpAllocator;
    use iceoryx2_cal::shm_allocator::pool_allocator::PoolAllocator;
    use iceoryx2_cal::*;

    #[derive(Debug, Clone)]
    pub struct Service {}

    impl iceoryx2::service::Service for Service {
        type StaticStorage = static_storage::recommended::Local;
        type ConfigSerializer = serialize::recommended::Recommended;
        type PersistentDynamicStorage<T: Debug + Send + Sync + ZeroCopySend + 'static> = dynamic_storage::recommended::PersistentLocal<T>;
        type DynamicStorage<T: Debug + Send + Sync + ZeroCopySend + 'static> = dynamic_storage::recommended::Local<T>;
        type ServiceNameHasher = hash::recommended::Recommended;
        type SharedMemory = shared_memory::recommended::Local<PoolAllocator>;
        type ResizableSharedMemory = resizable_shared_memory::recommended::Local<PoolAllocator>;
        type Connection = zero_copy_connection::recommended::Local;
        type Event = event::recommended::Local;
        type Monitoring = monitoring::recommended::Local;
        type Reactor = reactor::posix_select::Reactor;
        type ArcThreadSafetyPolicy<T: Send + Debug + Abandonable> = arc_sync_policy::single_threaded::SingleThreaded<T>;
        type BlackboardMgmt<KeyType: Send + Sync + Debug + ZeroCopySend + 'static> = dynamic_storage::recommended::Local<KeyType>;
        type BlackboardPayload = shared_memory::recommended::Local<BumpAllocator>;
    }

    impl iceoryx2::service::internal::ServiceInternal<Service> for Service {}
}

// ---------------------------------------------------------------------------------------------

#[derive(Clone, Copy, Debug, Serialize, Deserialize, PartialEq, Eq)]
enum Variant {
    Local,
    Ipc,
    LocalSelect,
}

#[derive(Clone, Copy, Debug, Serialize, Deserialize, PartialEq, Eq)]
enum Mode {
    /// all histories; deadlines / intervals of 1000 s never expire
    Exhaustive,
    /// dedicated expiry configuration: 1 ms deadlines / intervals, the processing op sleeps 5 ms first
    Expiry,
    /// the wait set is pre-filled with long intervals up to `capacity - headroom`
    Capacity { headroom: usize },
    /// expiry under a virtual clock (vclock.rs): deadlines of 2 units, intervals of 3 (slot 0) and 2
    /// (further slots) units, `Advance` moves the frozen clock by one unit (1 s); all histories
    Virtual,
}

#[derive(Clone, Debug, Serialize, Deserialize)]
struct Cfg {
    variant: Variant,
    mode: Mode,
    /// listeners per service, e.g. [2, 1] = service 0 with listeners 0 and 1, service 1 with listener 2
    layout: Vec<usize>,
    /// offer attach_notification
    notification: bool,
    /// offer attach_deadline
    deadline: bool,
    /// number of interval slots (attach_interval)
    intervals: usize,
    /// offer processing calls whose callback does not drain (level-trigger check)
    nodrain: bool,
    /// offer processing calls whose callback notifies a service (event arriving while processing)
    notify_in_cb: bool,
    /// offer the second attach on an attached listener with the other attachment kind as well
    twice_other_kind: bool,
    /// offer dropping and re-creating an unattached listener (file descriptor number reuse)
    #[serde(default)]
    recreate: bool,
    /// operations applied (with all checks) at the end of `new_sys`: the histories of one logical
    /// configuration are distributed over one configuration per first operation, because the
    /// engine parallelises a configuration only over its first-level branching
    #[serde(default)]
    start: Vec<Op>,
}

#[derive(Clone, Debug, Serialize, Deserialize, PartialEq, Eq)]
enum Op {
    /// attach_notification(listener l); on an attached listener this is the "attach twice" case,
    /// on a full wait set the "attach beyond capacity" case
    AttachNotification(usize),
    /// attach_deadline(listener l, 1000 s | 1 ms)
    AttachDeadline(usize),
    /// attach_interval(1000 s | 1 ms) into interval slot i
    AttachInterval(usize),
    /// drop the guard in slot k (slots 0..L = listeners, L.. = intervals)
    DropGuard(usize),
    /// notifier of service s: notify_with_custom_event_id(1 + s)
    Notify(usize),
    /// listener l: try_wait, collecting everything
    Drain(usize),
    /// wait_and_process_once_with_timeout(cb, 0); the callback drains the reported listener
    Process,
    /// same, but the callback consumes nothing: the attachments must be reported again
    ProcessNoDrain,
    /// same as Process; additionally the first callback invocation notifies service s (event id 0)
    ProcessNotifying(usize),
    /// Expiry mode: sleep 5 ms, then process
    SleepProcess,
    /// Virtual mode: the clock advances by one unit
    Advance,
    /// drop the (unattached) listener l and create a new one on the same service: the new listener
    /// usually gets the file descriptor number of the old one
    RecreateListener(usize),
}

#[derive(Clone, Copy, Debug, PartialEq, Eq, Hash, PartialOrd, Ord)]
enum Kind {
    Notification,
    Deadline,
    Interval,
}

#[derive(Clone, Debug, Hash, Default)]
struct Model {
    /// slot -> kind of the live attachment; slots 0..L belong to the listeners, L.. to intervals
    slots: Vec<Option<Kind>>,
    /// per listener: event id -> count, notified since the last drain
    pending: Vec<BTreeMap<usize, u64>>,
    /// attachments that are not in `slots` (Capacity mode filler)
    filler: usize,
    capacity: usize,
    // -- Virtual mode (units of the virtual clock)
    /// slot -> (start of the period grid, period) of a live deadline / interval attachment
    timers: Vec<Option<(u64, u64)>>,
    vnow: u64,
    /// time of the most recent processing call that looked at the deadlines
    prev: u64,
}

const UNIT_NS: u64 = 1_000_000_000;

/// a period boundary of the grid `start + k * period` (k >= 1) lies in (max(prev, start), now]
fn boundary_passed(start: u64, period: u64, prev: u64, now: u64) -> bool {
    let from = prev.max(start);
    (1..).map(|k| start + k * period).take_while(|b| *b <= now).any(|b| b > from)
}

impl Model {
    fn len(&self) -> usize {
        self.filler + self.slots.iter().filter(|s| s.is_some()).count()
    }
    /// slots whose attachment has an event pending
    fn ready(&self, listeners: usize) -> BTreeSet<usize> {
        (0..listeners).filter(|&l| self.slots[l].is_some() && !self.pending[l].is_empty()).collect()
    }
}

trait WorldDyn {
    fn enabled(&self) -> Vec<Op>;
    fn apply(&mut self, op: &Op) -> Result<(), Fail>;
    fn finish(&mut self) -> Result<(), Fail>;
    fn key(&self) -> u64;
    fn nontrivial(&self) -> bool;
}

type Guard<S> = WaitSetGuard<'static, 'static, S>;

struct World<S: Service + 'static>
where
    Listener<S>: SynchronousMultiplexing,
    S::Reactor: 'static,
{
    cfg: Cfg,
    model: Model,
    n_listeners: usize,
    /// service index of every listener
    service_of: Vec<usize>,
    // -- real objects; torn down in exactly this order by `teardown`
    guards: Vec<Option<Guard<S>>>,
    filler: Vec<Guard<S>>,
    ws: Option<Box<WaitSet<S>>>,
    listeners: Vec<Option<Box<Listener<S>>>>,
    notifiers: Vec<Notifier<S>>,
    services: Vec<EventFactory<S>>,
    node: Option<Node<S>>,
    // -- isolation
    root: String,
    prefix: String,
}

static COUNTER: AtomicU64 = AtomicU64::new(0);

const LONG: Duration = Duration::from_secs(1000);
const SHORT: Duration = Duration::from_millis(1);

fn fail_new(site: &str, e: impl Debug) -> Fail {
    Fail::new("setup", site, format!("{e:?}"))
}

impl<S: Service + 'static> World<S>
where
    Listener<S>: SynchronousMultiplexing,
    S::Reactor: 'static,
{
    fn new(cfg: &Cfg) -> Result<Self, Fail> {
        if cfg.mode == Mode::Virtual {
            vclock::enable();
        } else {
            vclock::disable();
        }
        let n = COUNTER.fetch_add(1, Ordering::Relaxed);
        let pid = std::process::id();
        let root = format!("/verif/.run/h_waitset-{pid}-{n}");
        let prefix = format!("hws{pid}x{n}_");
        if cfg.variant == Variant::Ipc {
            std::fs::create_dir_all(&root).map_err(|e| fail_new("mkdir", e))?;
        }
        let mut config = Config::default();
        config.global.set_root_path(&Path::new(root.as_bytes()).map_err(|e| fail_new("root_path", e))?);
        config.global.prefix = FileName::new(prefix.as_bytes()).map_err(|e| fail_new("prefix", e))?;

        let mut w = World {
            cfg: cfg.clone(),
            model: Model::default(),
            n_listeners: cfg.layout.iter().sum(),
            service_of: Vec::new(),
            guards: Vec::new(),
            filler: Vec::new(),
            ws: None,
            listeners: Vec::new(),
            notifiers: Vec::new(),
            services: Vec::new(),
            node: None,
            root,
            prefix,
        };
        let node = NodeBuilder::new().config(&config).create::<S>().map_err(|e| fail_new("node", e))?;
        for (s, &count) in cfg.layout.iter().enumerate() {
            let name = format!("hws/{pid}/{n}/{s}");
            let name: ServiceName = name.as_str().try_into().map_err(|e| fail_new("service name", e))?;
            let svc = node
                .service_builder(&name)
                .event()
                .max_listeners(count.max(1))
                .max_notifiers(1)
                .max_nodes(1)
                .event_id_max_value(3)
                .create()
                .map_err(|e| fail_new("service", e))?;
            for _ in 0..count {
                w.listeners.push(Some(Box::new(svc.listener_builder().create().map_err(|e| fail_new("listener", e))?)));
                w.service_of.push(s);
            }
            w.notifiers.push(svc.notifier_builder().create().map_err(|e| fail_new("notifier", e))?);
            w.services.push(svc);
        }
        w.node = Some(node);
        let ws = WaitSetBuilder::new()
            .signal_handling_mode(SignalHandlingMode::Disabled)
            .create::<S>()
            .map_err(|e| fail_new("waitset", e))?;
        w.ws = Some(Box::new(ws));
        let slots = w.n_listeners + cfg.intervals;
        w.guards = (0..slots).map(|_| None).collect();
        w.model.slots = vec![None; slots];
        w.model.timers = vec![None; slots];
        w.model.pending = vec![BTreeMap::new(); w.n_listeners];
        w.model.capacity = w.ws().capacity();
        if let Mode::Capacity { headroom } = cfg.mode {
            let cap = w.ws().capacity();
            ensure!(cap <= 4096, "setup", "capacity-mode", "capacity {} is too large to be filled", cap);
            for _ in 0..cap.saturating_sub(headroom) {
                let g = w.ws().attach_interval(LONG).map_err(|e| fail_new("filler", e))?;
                w.filler.push(g);
            }
            w.model.filler = w.filler.len();
        }
        w.check_len("new")?;
        for op in cfg.start.clone() {
            WorldDyn::apply(&mut w, &op)?;
        }
        Ok(w)
    }

    /// the wait set lives (boxed, never moved) until `teardown` has dropped every guard
    fn ws(&self) -> &'static WaitSet<S> {
        let p: *const WaitSet<S> = &**self.ws.as_ref().expect("wait set alive");
        unsafe { &*p }
    }

    /// the listeners live (boxed, never moved) until `teardown` has dropped every guard
    fn listener(&self, l: usize) -> &'static Listener<S> {
        let p: *const Listener<S> = &**self.listeners[l].as_ref().expect("listener alive");
        unsafe { &*p }
    }

    fn long_or_short(&self) -> Duration {
        if self.cfg.mode == Mode::Expiry {
            SHORT
        } else {
            LONG
        }
    }

    /// period of the attachment in `slot` (units of the virtual clock) in Virtual mode
    fn vperiod(&self, slot: usize) -> u64 {
        if slot < self.n_listeners {
            2
        } else if slot == self.n_listeners {
            3
        } else {
            2
        }
    }

    fn period_of(&self, slot: usize) -> Duration {
        if self.cfg.mode == Mode::Virtual {
            Duration::from_nanos(self.vperiod(slot) * UNIT_NS)
        } else {
            self.long_or_short()
        }
    }

    fn check_len(&self, site: &str) -> Result<(), Fail> {
        let ws = self.ws();
        ensure!(ws.len() == self.model.len(), "c20-len", site, "WaitSet::len() = {} but {} attachments are alive", ws.len(), self.model.len());
        ensure!(ws.is_empty() == (self.model.len() == 0), "c20-len", site, "WaitSet::is_empty() = {} with {} attachments", ws.is_empty(), self.model.len());
        ensure!(ws.capacity() == self.model.capacity, "c20-len", site, "WaitSet::capacity() changed from {} to {}", self.model.capacity, ws.capacity());
        Ok(())
    }

    fn attach_listener(&mut self, l: usize, kind: Kind) -> Result<(), Fail> {
        let site = match kind {
            Kind::Notification => "attach_notification",
            _ => "attach_deadline",
        };
        let expected: Result<(), WaitSetAttachmentError> = if self.model.slots[l].is_some() {
            Err(WaitSetAttachmentError::AlreadyAttached)
        } else if self.model.len() >= self.model.capacity {
            Err(WaitSetAttachmentError::InsufficientCapacity)
        } else {
            Ok(())
        };
        let ws = self.ws();
        let listener = self.listener(l);
        let real = match kind {
            Kind::Notification => ws.attach_notification(listener),
            _ => ws.attach_deadline(listener, self.period_of(l)),
        };
        match (real, &expected) {
            (Ok(g), Ok(())) => {
                self.guards[l] = Some(g);
                self.model.slots[l] = Some(kind);
                if self.cfg.mode == Mode::Virtual && kind == Kind::Deadline {
                    self.model.timers[l] = Some((self.model.vnow, self.vperiod(l)));
                }
            }
            (Err(e), Err(x)) if e == *x => {}
            (real, _) => {
                let got = real.as_ref().map(|_| ()).map_err(|e| *e);
                let (tag, site) = match expected {
                    Err(WaitSetAttachmentError::AlreadyAttached) => ("c20-attach-twice", format!("{site} on an attached listener")),
                    Err(_) => ("c20-attach-capacity", format!("{site} on a full wait set")),
                    Ok(()) => ("c20-attach", site.to_string()),
                };
                drop(real);
                return Err(Fail::new(tag, site, format!("listener {l}: expected {expected:?}, got {got:?}")));
            }
        }
        Ok(())
    }

    fn attach_interval(&mut self, i: usize) -> Result<(), Fail> {
        let slot = self.n_listeners + i;
        let expected: Result<(), WaitSetAttachmentError> =
            if self.model.len() >= self.model.capacity { Err(WaitSetAttachmentError::InsufficientCapacity) } else { Ok(()) };
        let real = self.ws().attach_interval(self.period_of(slot));
        match (real, &expected) {
            (Ok(g), Ok(())) => {
                self.guards[slot] = Some(g);
                self.model.slots[slot] = Some(Kind::Interval);
                if self.cfg.mode == Mode::Virtual {
                    self.model.timers[slot] = Some((self.model.vnow, self.vperiod(slot)));
                }
            }
            (Err(e), Err(x)) if e == *x => {}
            (real, _) => {
                let got = real.as_ref().map(|_| ()).map_err(|e| *e);
                let tag = if expected.is_err() { "c20-attach-capacity" } else { "c20-attach" };
                drop(real);
                return Err(Fail::new(tag, "attach_interval", format!("expected {expected:?}, got {got:?}")));
            }
        }
        Ok(())
    }

    fn notify(&mut self, s: usize, id: usize) -> Result<(), Fail> {
        let in_service = self.service_of.iter().filter(|&&x| x == s).count();
        match self.notifiers[s].notify_with_custom_event_id(EventId::new(id)) {
            Ok(n) => ensure!(n == in_service, "c20-notify", "notify", "service {} has {} listeners, notify reported {}", s, in_service, n),
            Err(e) => return Err(Fail::new("c20-notify", "notify", format!("service {s}: {e:?}"))),
        }
        for l in 0..self.n_listeners {
            if self.service_of[l] == s {
                *self.model.pending[l].entry(id).or_insert(0) += 1;
            }
        }
        Ok(())
    }

    fn drain(&mut self, l: usize, site: &str) -> Result<(), Fail> {
        let got = drain_listener(self.listeners[l].as_ref().expect("listener alive")).map_err(|e| Fail::new("c20-drain", site, format!("listener {l}: {e}")))?;
        let want = std::mem::take(&mut self.model.pending[l]);
        ensure!(got == want, "c20-lost-event", site, "listener {}: drained {:?} (id -> count) but {:?} was notified since the last drain", l, got, want);
        Ok(())
    }

    /// One processing call. `drain`: the callback consumes the events of the reported listener;
    /// `notify_in_cb`: the first callback invocation notifies that service; `sleep`: Expiry mode.
    fn process(&mut self, drain: bool, notify_in_cb: Option<usize>, site: &str) -> Result<(), Fail> {
        let expiry = self.cfg.mode == Mode::Expiry;
        let ready_at_start = self.model.ready(self.n_listeners);
        // Virtual mode: what has to be reported as expired by this call. A deadline attachment whose
        // listener has an event pending starts its period anew with this call (the event arrived in
        // time), every other deadline / interval is reported iff one of its period boundaries
        // passed since the previous processing call.
        let mut expected_expired: BTreeSet<usize> = BTreeSet::new();
        if self.cfg.mode == Mode::Virtual && self.model.len() > 0 {
            let (now, prev) = (self.model.vnow, self.model.prev);
            for slot in 0..self.model.slots.len() {
                if let Some((start, period)) = self.model.timers[slot] {
                    if slot < self.n_listeners && ready_at_start.contains(&slot) {
                        self.model.timers[slot] = Some((now, period));
                    } else if boundary_passed(start, period, prev, now) {
                        expected_expired.insert(slot);
                    }
                }
            }
            self.model.prev = now;
        }
        let ws = self.ws();
        let n_listeners = self.n_listeners;

        let mut reported: Vec<(usize, bool)> = Vec::new(); // (slot, is-missed-deadline)
        let mut cb_fail: Option<Fail> = None;
        let mut first = true;
        let guards = &self.guards;
        let filler = &self.filler;
        let listeners = &self.listeners;
        let notifiers = &self.notifiers;
        let service_of = &self.service_of;
        let model = &mut self.model;

        let result = ws.wait_and_process_once_with_timeout(
            |id: WaitSetAttachmentId<S>| {
                // identify the attachment exactly as the examples do
                let mut matches: Vec<(usize, bool)> = Vec::new();
                for (slot, g) in guards.iter().enumerate() {
                    if let Some(g) = g {
                        let ev = id.has_event_from(g);
                        let md = id.has_missed_deadline(g);
                        if ev {
                            matches.push((slot, false));
                        }
                        if md {
                            matches.push((slot, true));
                        }
                        // the BTreeMap idiom of the documentation (notification / interval guards)
                        if model.slots[slot] != Some(Kind::Deadline) {
                            let same = WaitSetAttachmentId::from_guard(g) == id;
                            if same != ev && cb_fail.is_none() {
                                cb_fail = Some(Fail::new(
                                    "c20-id-matching",
                                    site,
                                    format!("slot {slot}: has_event_from = {ev} but from_guard(guard) == id is {same}"),
                                ));
                            }
                        }
                    }
                }
                let from_filler = filler.iter().any(|g| id.has_event_from(g) || id.has_missed_deadline(g));
                if matches.len() != 1 || from_filler {
                    if cb_fail.is_none() {
                        cb_fail = Some(if matches.is_empty() && !from_filler {
                            Fail::new(
                                "c20-foreign-callback",
                                site,
                                format!("the callback received an id that belongs to no live guard (live slots {:?})", live(&model.slots)),
                            )
                        } else {
                            Fail::new("c20-unexpected-callback", site, format!("the callback received an id matching {matches:?} (slot, missed-deadline), filler: {from_filler}"))
                        });
                    }
                    return CallbackProgression::Continue;
                }
                let (slot, missed) = matches[0];
                reported.push((slot, missed));
                if slot < n_listeners && !missed && drain {
                    match drain_listener(listeners[slot].as_ref().expect("listener alive")) {
                        Ok(got) => {
                            let want = std::mem::take(&mut model.pending[slot]);
                            if got != want && cb_fail.is_none() {
                                cb_fail = Some(Fail::new(
                                    "c20-lost-event",
                                    site,
                                    format!("listener {slot}: drained {got:?} (id -> count) in the callback but {want:?} was notified since the last drain"),
                                ));
                            }
                        }
                        Err(e) => {
                            if cb_fail.is_none() {
                                cb_fail = Some(Fail::new("c20-drain", site, format!("listener {slot}: {e}")));
                            }
                        }
                    }
                }
                if first {
                    first = false;
                    if let Some(s) = notify_in_cb {
                        match notifiers[s].notify_with_custom_event_id(EventId::new(0)) {
                            Ok(_) => {
                                for l in 0..n_listeners {
                                    if service_of[l] == s {
                                        *model.pending[l].entry(0).or_insert(0) += 1;
                                    }
                                }
                            }
                            Err(e) => {
                                if cb_fail.is_none() {
                                    cb_fail = Some(Fail::new("c20-notify", site, format!("notify inside the callback: {e:?}")));
                                }
                            }
                        }
                    }
                }
                CallbackProgression::Continue
            },
            Duration::ZERO,
        );

        if let Some(f) = cb_fail {
            return Err(f);
        }
        if self.model.len() == 0 {
            ensure!(
                result == Err(WaitSetRunError::NoAttachments),
                "c20-process-result",
                site,
                "processing an empty wait set returned {:?}, documented: Err(NoAttachments)",
                result
            );
            ensure!(reported.is_empty(), "c20-unexpected-callback", site, "callback invoked on an empty wait set: {:?}", reported);
            return Ok(());
        }
        ensure!(result == Ok(WaitSetRunResult::AllEventsHandled), "c20-process-result", site, "returned {:?}, expected Ok(AllEventsHandled)", result);

        // -- events: exactly the attachments whose listener had an event pending, each once
        let events: Vec<usize> = reported.iter().filter(|r| !r.1 && r.0 < n_listeners).map(|r| r.0).collect();
        let event_set: BTreeSet<usize> = events.iter().copied().collect();
        ensure!(events.len() == event_set.len(), "c20-duplicate-callback", site, "attachments reported more than once in one call: {:?}", events);
        for s in &ready_at_start {
            ensure!(
                event_set.contains(s),
                "c20-missing-callback",
                site,
                "listener {} is attached and has pending events but its attachment was not reported (reported {:?})",
                s,
                event_set
            );
        }
        for s in &event_set {
            ensure!(
                ready_at_start.contains(s),
                "c20-unexpected-callback",
                site,
                "attachment of listener {} reported although it had no event pending (pending attachments {:?})",
                s,
                ready_at_start
            );
        }
        // -- expiries
        let ticks: Vec<usize> = reported.iter().filter(|r| r.0 >= n_listeners).map(|r| r.0).collect();
        let missed: Vec<usize> = reported.iter().filter(|r| r.1).map(|r| r.0).collect();
        if self.cfg.mode == Mode::Virtual {
            if vclock::queries() == 0 && self.model.timers.iter().any(|t| t.is_some()) {
                // not a verdict about iceoryx2: the interposition of clock_gettime does not work here
                seqx::machinery_error("h_waitset: the code under test did not read the virtual clock (clock_gettime interposition inactive)");
            }
            let mut got: Vec<usize> = ticks.iter().chain(missed.iter()).copied().collect();
            got.sort();
            let got_set: BTreeSet<usize> = got.iter().copied().collect();
            ensure!(got.len() == got_set.len(), "c20-duplicate-callback", site, "expiry reported more than once in one call: ticks {:?}, missed deadlines {:?}", ticks, missed);
            for slot in &expected_expired {
                ensure!(
                    got_set.contains(slot),
                    "c20-missing-callback",
                    site,
                    "the {} in slot {} (timer {:?}) expired at virtual time {} but was not reported (ticks {:?}, missed deadlines {:?})",
                    if *slot < n_listeners { "deadline" } else { "interval" },
                    slot,
                    self.model.timers[*slot],
                    self.model.vnow,
                    ticks,
                    missed
                );
            }
            for slot in &got_set {
                ensure!(
                    expected_expired.contains(slot),
                    "c20-unexpected-callback",
                    site,
                    "slot {} (timer {:?}) reported as expired at virtual time {} although no period boundary passed since the previous call (expected {:?})",
                    slot,
                    self.model.timers[*slot],
                    self.model.vnow,
                    expected_expired
                );
            }
            for slot in &missed {
                ensure!(self.model.slots[*slot] == Some(Kind::Deadline), "c20-unexpected-callback", site, "missed deadline reported for slot {} which is {:?}", slot, self.model.slots[*slot]);
            }
        } else if !expiry {
            ensure!(ticks.is_empty() && missed.is_empty(), "c20-unexpected-callback", site, "1000 s interval / deadline reported as expired: ticks {:?}, missed deadlines {:?}", ticks, missed);
        } else {
            for slot in 0..self.model.slots.len() {
                match self.model.slots[slot] {
                    Some(Kind::Interval) => {
                        ensure!(ticks.contains(&slot), "c20-missing-callback", site, "1 ms interval in slot {} not reported after sleeping 5 ms (reported {:?})", slot, reported)
                    }
                    Some(Kind::Deadline) if !ready_at_start.contains(&slot) => {
                        ensure!(missed.contains(&slot), "c20-missing-callback", site, "missed 1 ms deadline of listener {} not reported after sleeping 5 ms (reported {:?})", slot, reported)
                    }
                    _ => {}
                }
            }
            for slot in &missed {
                ensure!(self.model.slots[*slot] == Some(Kind::Deadline), "c20-unexpected-callback", site, "missed deadline reported for slot {} which is {:?}", slot, self.model.slots[*slot]);
            }
        }
        Ok(())
    }

    /// level-trigger probe: a non-consuming processing call must agree with the model at any time
    fn probe(&mut self, site: &str) -> Result<(), Fail> {
        if self.cfg.mode == Mode::Expiry {
            return Ok(());
        }
        self.process(false, None, site)
    }

    fn teardown(&mut self) {
        if self.cfg.mode == Mode::Virtual {
            vclock::disable();
        }
        for g in self.guards.iter_mut() {
            drop(g.take());
        }
        while let Some(g) = self.filler.pop() {
            drop(g);
        }
        self.ws = None;
        self.listeners.clear();
        self.notifiers.clear();
        self.services.clear();
        self.node = None;
        if self.cfg.variant == Variant::Ipc {
            let _ = std::fs::remove_dir_all(&self.root);
            // /dev/shm is shared with everything else on the machine: raw readdir, no per-entry allocation
            for name in scan_shm(&self.prefix) {
                let _ = std::fs::remove_file(format!("/dev/shm/{name}"));
            }
        }
    }
}

/// the alphabet in a model state (a function of the configuration and the model only)
fn enabled_ops(c: &Cfg, m: &Model, n_listeners: usize) -> Vec<Op> {
    let mut v = Vec::new();
    let expiry = c.mode == Mode::Expiry;
    for l in 0..n_listeners {
        match m.slots[l] {
            None => {
                if c.notification {
                    v.push(Op::AttachNotification(l));
                }
                if c.deadline {
                    v.push(Op::AttachDeadline(l));
                }
            }
            Some(k) => {
                // attach twice: same kind, optionally the other kind too
                let same_is_notification = k == Kind::Notification;
                if same_is_notification || c.twice_other_kind && c.notification {
                    v.push(Op::AttachNotification(l));
                }
                if !same_is_notification || c.twice_other_kind && c.deadline {
                    v.push(Op::AttachDeadline(l));
                }
            }
        }
    }
    // the first free interval slot only (slots are interchangeable)
    if let Some(i) = (0..c.intervals).find(|i| m.slots[n_listeners + i].is_none()) {
        v.push(Op::AttachInterval(i));
    }
    for (k, s) in m.slots.iter().enumerate() {
        if s.is_some() {
            v.push(Op::DropGuard(k));
        }
    }
    if c.recreate {
        for l in 0..n_listeners {
            if m.slots[l].is_none() {
                v.push(Op::RecreateListener(l));
            }
        }
    }
    if expiry {
        v.push(Op::SleepProcess);
        return v;
    }
    if c.mode == Mode::Virtual {
        v.push(Op::Advance);
    }
    for s in 0..c.layout.len() {
        v.push(Op::Notify(s));
    }
    v.push(Op::Process);
    let ready = !m.ready(n_listeners).is_empty();
    if ready && c.nodrain {
        v.push(Op::ProcessNoDrain);
    }
    if ready && c.notify_in_cb {
        for s in 0..c.layout.len() {
            v.push(Op::ProcessNotifying(s));
        }
    }
    for l in 0..n_listeners {
        if !m.pending[l].is_empty() {
            v.push(Op::Drain(l));
        }
    }
    v
}



fn scan_shm(tag: &str) -> Vec<String> {
    let mut v = Vec::new();
    let tag = tag.as_bytes();
    unsafe {
        let d = libc::opendir(b"/dev/shm\0".as_ptr() as *const libc::c_char);
        if d.is_null() {
            return v;
        }
        loop {
            let e = libc::readdir(d);
            if e.is_null() {
                break;
            }
            let name = std::ffi::CStr::from_ptr((*e).d_name.as_ptr()).to_bytes();
            if name.len() >= tag.len() && name.windows(tag.len()).any(|w| w == tag) {
                v.push(String::from_utf8_lossy(name).to_string());
            }
        }
        libc::closedir(d);
    }
    v
}

fn live(slots: &[Option<Kind>]) -> Vec<usize> {
    slots.iter().enumerate().filter(|(_, s)| s.is_some()).map(|(i, _)| i).collect()
}

fn drain_listener<S: Service>(l: &Listener<S>) -> Result<BTreeMap<usize, u64>, String> {
    let mut got: BTreeMap<usize, u64> = BTreeMap::new();
    match l.try_wait(|a| {
        *got.entry(a.id.as_value()).or_insert(0) += a.count;
    }) {
        Ok(_) => Ok(got),
        Err(e) => Err(format!("try_wait failed: {e:?}")),
    }
}

impl<S: Service + 'static> Drop for World<S>
where
    Listener<S>: SynchronousMultiplexing,
    S::Reactor: 'static,
{
    fn drop(&mut self) {
        self.teardown();
    }
}

impl<S: Service + 'static> WorldDyn for World<S>
where
    Listener<S>: SynchronousMultiplexing,
    S::Reactor: 'static,
{
    fn enabled(&self) -> Vec<Op> {
        enabled_ops(&self.cfg, &self.model, self.n_listeners)
    }

    fn apply(&mut self, op: &Op) -> Result<(), Fail> {
        match op {
            Op::AttachNotification(l) => self.attach_listener(*l, Kind::Notification)?,
            Op::AttachDeadline(l) => self.attach_listener(*l, Kind::Deadline)?,
            Op::AttachInterval(i) => self.attach_interval(*i)?,
            Op::DropGuard(k) => {
                ensure!(self.guards[*k].is_some(), "harness", "DropGuard", "slot {} is empty", k);
                drop(self.guards[*k].take());
                self.model.slots[*k] = None;
                self.model.timers[*k] = None;
            }
            Op::Advance => {
                ensure!(self.cfg.mode == Mode::Virtual, "harness", "Advance", "not in Virtual mode");
                vclock::advance(UNIT_NS);
                self.model.vnow += 1;
            }
            Op::Notify(s) => self.notify(*s, 1 + *s)?,
            Op::Drain(l) => self.drain(*l, "try_wait")?,
            Op::Process => self.process(true, None, "process")?,
            Op::ProcessNoDrain => self.process(false, None, "process without draining")?,
            Op::ProcessNotifying(s) => self.process(true, Some(*s), "process with notify inside the callback")?,
            Op::RecreateListener(l) => {
                ensure!(self.model.slots[*l].is_none(), "harness", "RecreateListener", "listener {} is attached", l);
                self.listeners[*l] = None;
                let s = self.service_of[*l];
                let new = self.services[s].listener_builder().create().map_err(|e| Fail::new("c20-recreate", "listener re-creation", format!("{e:?}")))?;
                self.listeners[*l] = Some(Box::new(new));
                self.model.pending[*l].clear();
            }
            Op::SleepProcess => {
                std::thread::sleep(Duration::from_millis(5));
                self.process(true, None, "process after expiry")?
            }
        }
        self.check_len(&format!("after {}", op_name(op)))?;
        self.probe(&format!("probe after {}", op_name(op)))
    }

    fn finish(&mut self) -> Result<(), Fail> {
        // detach everything: the wait set must end up empty and refuse to wait
        for k in 0..self.guards.len() {
            drop(self.guards[k].take());
            self.model.slots[k] = None;
            self.model.timers[k] = None;
        }
        while let Some(g) = self.filler.pop() {
            drop(g);
        }
        self.model.filler = 0;
        self.check_len("finish")?;
        self.process(false, None, "process after all guards are dropped")?;
        // the listeners still hold what was not drained
        for l in 0..self.n_listeners {
            self.drain(l, "try_wait after all guards are dropped")?;
        }
        self.teardown();
        Ok(())
    }

    fn key(&self) -> u64 {
        // times relative to now: what the future behaviour depends on
        let m = &self.model;
        let rel: Vec<Option<(u64, u64)>> = m.timers.iter().map(|t| t.map(|(s, p)| (m.vnow - s, p))).collect();
        seqx::hash_of(&(&m.slots, &m.pending, m.filler, rel, m.vnow - m.prev.min(m.vnow)))
    }

    fn nontrivial(&self) -> bool {
        self.model.len() > self.model.filler || self.model.pending.iter().any(|p| !p.is_empty())
    }
}

fn op_name(op: &Op) -> &'static str {
    match op {
        Op::AttachNotification(_) => "attach_notification",
        Op::AttachDeadline(_) => "attach_deadline",
        Op::AttachInterval(_) => "attach_interval",
        Op::DropGuard(_) => "guard drop",
        Op::Notify(_) => "notify",
        Op::Drain(_) => "try_wait",
        Op::Process => "process",
        Op::ProcessNoDrain => "process without draining",
        Op::ProcessNotifying(_) => "process with notify inside the callback",
        Op::SleepProcess => "process after expiry",
        Op::Advance => "advancing the clock by one unit",
        Op::RecreateListener(_) => "listener re-creation",
    }
}

// ---------------------------------------------------------------------------------------------

struct H;

struct Sys(Box<dyn WorldDyn>);

fn cfg(variant: Variant, layout: &[usize]) -> Cfg {
    Cfg {
        variant,
        mode: Mode::Exhaustive,
        layout: layout.to_vec(),
        notification: true,
        deadline: false,
        intervals: 0,
        nodrain: false,
        notify_in_cb: false,
        twice_other_kind: false,
        recreate: false,
        start: Vec::new(),
    }
}

impl Harness for H {
    type Cfg = Cfg;
    type Op = Op;
    type Sys = Sys;

    fn name(&self) -> &'static str {
        "h_waitset"
    }
    fn property(&self) -> &'static str {
        "C20"
    }
    fn rule(&self) -> String {
        "every sequence (up to the tree depth) of attach_notification / attach_deadline / attach_interval (incl. on an attached listener and on a full wait set), \
         guard drop, notify per service, listener drain, re-creation of unattached listeners and zero-timeout wait_and_process_once_with_timeout (draining, non-draining, notifying inside the callback) \
         on a real WaitSet with 1..4 listeners over 1..2 event services (local = epoll + socket pair, ipc = epoll + unix datagram socket, custom variant = select reactor); \
         the larger configurations are distributed over one configuration per first operation (Cfg::start, applied with all checks in new_sys), so their history depth is tree depth + 1 (quick: 6 local / 4 ipc, thorough: up to 8); after every step a non-consuming processing call is compared with the model; expiry of deadlines (2 units) and intervals (3 / 2 units) under a virtual clock that only the operation Advance (one unit) moves: a deadline / interval is reported by a processing call iff one of its period boundaries passed since the previous processing call, a deadline whose listener has an event pending starts anew; a distinct state = (kind per attachment slot, pending event ids and counts per listener, age and period of every timer, time since the previous processing call)"
            .into()
    }

    fn configs(&self, tier: Tier) -> Vec<(Cfg, Plan)> {
        let q = tier == Tier::Quick;
        let mut v: Vec<(Cfg, Plan)> = Vec::new();
        let plan = |depth: usize, split: u32| Plan { tree_depth: depth, finish_prefixes: false, frontier: None, split };

        // --- notification only
        // (quick: the select variant explores the larger alphabets one step less deep than the epoll variant)
        for variant in [Variant::Local, Variant::LocalSelect] {
            let less = (q && variant == Variant::LocalSelect) as usize;
            v.push((Cfg { nodrain: true, notify_in_cb: true, ..cfg(variant, &[1]) }, plan(if q { 6 } else { 8 }, if q { 2 } else { 6 })));
            v.push((Cfg { nodrain: true, ..cfg(variant, &[2]) }, plan(if q { 6 - less } else { 7 }, if q { 8 } else { 12 })));
            v.push((Cfg { notify_in_cb: true, ..cfg(variant, &[1, 1]) }, plan(if q { 5 - less } else { 6 }, if q { 3 } else { 12 })));
        }
        // --- deadlines and intervals
        for variant in [Variant::Local, Variant::LocalSelect] {
            let less = (q && variant == Variant::LocalSelect) as usize;
            v.push((Cfg { notification: false, deadline: true, intervals: 1, nodrain: true, ..cfg(variant, &[1]) }, plan(if q { 6 } else { 7 }, if q { 4 } else { 8 })));
            v.push((Cfg { notification: false, deadline: true, intervals: 1, ..cfg(variant, &[2]) }, plan(if q { 5 } else { 6 }, if q { 3 } else { 10 })));
            // mixed kinds, re-attachment with the other kind, attach twice with the other kind
            v.push((Cfg { deadline: true, intervals: 1, twice_other_kind: true, ..cfg(variant, &[1]) }, plan(if q { 6 - less } else { 7 }, if q { 8 } else { 12 })));
            v.push((Cfg { deadline: true, twice_other_kind: true, ..cfg(variant, &[1, 1]) }, plan(if q { 4 } else { 5 }, if q { 2 } else { 10 })));
        }
        // --- listener re-creation between detach and re-attach (file descriptor number reuse)
        for variant in [Variant::Local, Variant::LocalSelect] {
            v.push((Cfg { recreate: true, ..cfg(variant, &[1, 1]) }, plan(if q { 4 } else { 5 }, if q { 2 } else { 12 })));
        }
        v.push((Cfg { recreate: true, ..cfg(Variant::Ipc, if q { &[1] } else { &[1, 1] }) }, plan(if q { 3 } else { 4 }, 7)));
        // --- three / four listeners
        v.push((cfg(Variant::Local, &[2, 1]), plan(if q { 5 } else { 6 }, if q { 6 } else { 12 })));
        if !q {
            v.push((cfg(Variant::Local, &[2, 2]), plan(6, 16)));
            v.push((Cfg { deadline: true, ..cfg(Variant::Local, &[3, 1]) }, plan(5, 12)));
            v.push((cfg(Variant::LocalSelect, &[2, 2]), plan(5, 12)));
        }
        // --- ipc (files, shared memory, unix datagram sockets): expensive, shallower
        v.push((Cfg { nodrain: true, notify_in_cb: true, ..cfg(Variant::Ipc, &[1]) }, plan(if q { 4 } else { 6 }, 7)));
        v.push((Cfg { deadline: true, intervals: 1, ..cfg(Variant::Ipc, &[1, 1]) }, plan(if q { 3 } else { 5 }, 10)));
        if !q {
            v.push((cfg(Variant::Ipc, &[2, 2]), plan(4, 12)));
        }
        // --- capacity (only reachable with the select reactor: FD_SETSIZE)
        v.push((
            Cfg { mode: Mode::Capacity { headroom: 1 }, deadline: true, intervals: 1, ..cfg(Variant::LocalSelect, &[1, 1]) },
            plan(if q { 3 } else { 4 }, 8),
        ));
        v.push((
            Cfg { mode: Mode::Capacity { headroom: 2 }, deadline: true, intervals: 2, ..cfg(Variant::LocalSelect, &[2]) },
            plan(if q { 3 } else { 4 }, 8),
        ));
        // --- expiry (real clock; kept out of the exhaustive part)
        for variant in [Variant::Local, Variant::LocalSelect] {
            v.push((Cfg { mode: Mode::Expiry, deadline: true, intervals: 2, notification: false, ..cfg(variant, &[1]) }, plan(if q { 4 } else { 5 }, 5)));
        }
        // --- expiry under the virtual clock: all histories
        for variant in [Variant::Local, Variant::LocalSelect] {
            v.push((Cfg { mode: Mode::Virtual, deadline: true, intervals: 1, notification: false, ..cfg(variant, &[1]) }, plan(if q { 6 } else { 9 }, if q { 4 } else { 12 })));
            v.push((Cfg { mode: Mode::Virtual, deadline: true, intervals: 2, twice_other_kind: true, ..cfg(variant, &[1]) }, plan(if q { 5 } else { 8 }, if q { 6 } else { 12 })));
            v.push((Cfg { mode: Mode::Virtual, deadline: true, intervals: 1, notification: false, ..cfg(variant, &[2]) }, plan(if q { 5 } else { 7 }, if q { 6 } else { 12 })));
        }
        v.push((Cfg { mode: Mode::Virtual, deadline: true, intervals: 1, notification: false, ..cfg(Variant::Ipc, &[1]) }, plan(if q { 4 } else { 6 }, 8)));
        // one configuration per first operation (see `Cfg::start`); the depth stays the same: the
        // start operation counts as the first step
        let mut expanded: Vec<(Cfg, Plan)> = Vec::new();
        for (c, p) in v {
            if !matches!(c.mode, Mode::Exhaustive | Mode::Virtual) || c.variant == Variant::Ipc || p.tree_depth < 5 {
                expanded.push((c, p));
                continue;
            }
            let n: usize = c.layout.iter().sum();
            let m = Model { slots: vec![None; n + c.intervals], pending: vec![BTreeMap::new(); n], filler: 0, capacity: usize::MAX, ..Model::default() };
            for op in enabled_ops(&c, &m, n) {
                expanded.push((Cfg { start: vec![op], ..c.clone() }, Plan { tree_depth: p.tree_depth - 1, split: (p.split / 2).max(1), ..p.clone() }));
            }
        }
        expanded
    }

    fn new_sys(&self, cfg: &Cfg) -> Result<Sys, Fail> {
        set_log_level(LogLevel::Fatal);
        Ok(Sys(match cfg.variant {
            Variant::Local => Box::new(World::<local::Service>::new(cfg)?),
            Variant::Ipc => Box::new(World::<ipc::Service>::new(cfg)?),
            Variant::LocalSelect => Box::new(World::<select_variant::Service>::new(cfg)?),
        }))
    }
    fn enabled(&self, s: &Sys) -> Vec<Op> {
        s.0.enabled()
    }
    fn apply(&self, s: &mut Sys, op: &Op) -> Result<(), Fail> {
        s.0.apply(op)
    }
    fn finish(&self, mut s: Sys) -> Result<(), Fail> {
        s.0.finish()
    }
    fn model_key(&self, s: &Sys) -> u64 {
        s.0.key()
    }
    fn nontrivial(&self, s: &Sys) -> bool {
        s.0.nontrivial()
    }
}


/// Domains of processes that no longer exist (a replayed violation is abandoned by the engine with
/// `mem::forget`, a crashed worker cannot clean up): removed whenever a parent / replay process starts.
fn remove_stale_domains(dir_prefix: &str, shm_tag: &str) {
    if std::env::args().any(|a| a == "--job" || a == "--list") {
        return;
    }
    let alive = |pid: &str| !pid.is_empty() && pid.chars().all(|c| c.is_ascii_digit()) && std::path::Path::new(&format!("/proc/{pid}")).exists();
    if let Ok(rd) = std::fs::read_dir("/verif/.run") {
        for e in rd.flatten() {
            let name = e.file_name().to_string_lossy().to_string();
            if let Some(rest) = name.strip_prefix(dir_prefix) {
                let pid = rest.split('-').next().unwrap_or("");
                if pid.chars().all(|c| c.is_ascii_digit()) && !pid.is_empty() && !alive(pid) {
                    let _ = std::fs::remove_dir_all(e.path());
                }
            }
        }
    }
    if let Ok(rd) = std::fs::read_dir("/dev/shm") {
        for e in rd.flatten() {
            let name = e.file_name().to_string_lossy().to_string();
            if let Some(rest) = name.strip_prefix(shm_tag) {
                let pid: String = rest.chars().take_while(|c| c.is_ascii_digit()).collect();
                if rest[pid.len()..].starts_with('x') && !pid.is_empty() && !alive(&pid) {
                    let _ = std::fs::remove_file(e.path());
                }
            }
        }
    }
}

fn main() {
    set_log_level(LogLevel::Fatal);
    remove_stale_domains("h_waitset-", "hws");
    seqx::main(H);
}
