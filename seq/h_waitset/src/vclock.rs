//! Virtual clock for the expiry part of C20: while it is enabled ON THE CALLING THREAD, every
//! `clock_gettime` of this executable (iceoryx2's `Time::now*`, std's `Instant`) returns the time at
//! which the clock was enabled plus an offset that only `advance` moves. The definition in the
//! executable takes precedence over libc's for every call that goes through the PLT; the real clock
//! is read with the raw system call. Other threads (the engine's watchdogs) keep the real clock.

use std::cell::Cell;

use libc::{c_int, clockid_t, timespec};

thread_local! {
    static ENABLED: Cell<bool> = const { Cell::new(false) };
    static OFFSET_NS: Cell<u64> = const { Cell::new(0) };
    /// real time per clock id (0..16) at the moment the clock was frozen
    static BASE: Cell<[(i64, i64); 16]> = const { Cell::new([(0, 0); 16]) };
    static QUERIES: Cell<u64> = const { Cell::new(0) };
}

unsafe fn real(clk: clockid_t, tp: *mut timespec) -> c_int {
    libc::syscall(libc::SYS_clock_gettime, clk as libc::c_long, tp) as c_int
}

#[no_mangle]
pub unsafe extern "C" fn clock_gettime(clk: clockid_t, tp: *mut timespec) -> c_int {
    let on = ENABLED.try_with(|e| e.get()).unwrap_or(false);
    if !on || !(0..16).contains(&clk) || tp.is_null() {
        return real(clk, tp);
    }
    QUERIES.with(|q| q.set(q.get() + 1));
    let (s, ns) = BASE.with(|b| b.get()[clk as usize]);
    let off = OFFSET_NS.with(|o| o.get());
    let total_ns = ns as u64 + off % 1_000_000_000;
    (*tp).tv_sec = s + (off / 1_000_000_000) as i64 + (total_ns / 1_000_000_000) as i64;
    (*tp).tv_nsec = (total_ns % 1_000_000_000) as i64;
    0
}

/// freezes the clock of the calling thread at the current real time
pub fn enable() {
    let mut base = [(0i64, 0i64); 16];
    for (clk, b) in base.iter_mut().enumerate() {
        let mut t = timespec { tv_sec: 0, tv_nsec: 0 };
        if unsafe { real(clk as clockid_t, &mut t) } == 0 {
            *b = (t.tv_sec, t.tv_nsec);
        }
    }
    BASE.with(|b| b.set(base));
    OFFSET_NS.with(|o| o.set(0));
    QUERIES.with(|q| q.set(0));
    ENABLED.with(|e| e.set(true));
}

pub fn disable() {
    ENABLED.with(|e| e.set(false));
}

pub fn advance(ns: u64) {
    OFFSET_NS.with(|o| o.set(o.get() + ns));
}

/// number of clock queries answered from the virtual clock (evidence that the code under test
/// really reads this clock)
pub fn queries() -> u64 {
    QUERIES.with(|q| q.get())
}
