//! Deterministic covering-array construction (one-test-at-a-time greedy, AETG style).
//!
//! `knobs[k]` is the number of values of knob k. `groups` lists knob index sets: every VALID
//! value combination of every group has to occur in at least one generated test; the pairs of all
//! knobs are always groups. `valid` judges partial assignments (`None` = not yet assigned) and
//! must accept a partial assignment iff it can be completed to a valid one.

use std::collections::BTreeSet;

pub fn covering_array(knobs: &[usize], extra_groups: &[Vec<usize>], valid: &dyn Fn(&[Option<usize>]) -> bool) -> Vec<Vec<usize>> {
    let n = knobs.len();
    let mut groups: Vec<Vec<usize>> = extra_groups.to_vec();
    for a in 0..n {
        for b in a + 1..n {
            if !groups.iter().any(|g| g.contains(&a) && g.contains(&b)) {
                groups.push(vec![a, b]);
            }
        }
    }
    // all valid tuples of every group
    let mut uncovered: BTreeSet<(usize, Vec<usize>)> = BTreeSet::new();
    for (gi, g) in groups.iter().enumerate() {
        let mut idx = vec![0usize; g.len()];
        'odometer: loop {
            let mut asg: Vec<Option<usize>> = vec![None; n];
            for (p, &k) in g.iter().enumerate() {
                asg[k] = Some(idx[p]);
            }
            if valid(&asg) {
                uncovered.insert((gi, idx.clone()));
            }
            let mut p = g.len();
            loop {
                if p == 0 {
                    break 'odometer;
                }
                p -= 1;
                idx[p] += 1;
                if idx[p] < knobs[g[p]] {
                    break;
                }
                idx[p] = 0;
            }
        }
    }
    let mut tests: Vec<Vec<usize>> = Vec::new();
    while let Some((gi, vals)) = uncovered.iter().next().cloned() {
        let mut asg: Vec<Option<usize>> = vec![None; n];
        for (p, &k) in groups[gi].iter().enumerate() {
            asg[k] = Some(vals[p]);
        }
        // fill the remaining knobs, each with the value that covers most uncovered tuples
        for k in 0..n {
            if asg[k].is_some() {
                continue;
            }
            let mut best: Option<(usize, usize)> = None;
            for off in 0..knobs[k] {
                // rotate the tie-break with the test number so that values spread
                let v = (off + tests.len()) % knobs[k];
                asg[k] = Some(v);
                if !valid(&asg) {
                    continue;
                }
                let gain = groups
                    .iter()
                    .enumerate()
                    .filter(|(_, g)| g.contains(&k) && g.iter().all(|&x| asg[x].is_some()))
                    .filter(|(gj, g)| uncovered.contains(&(*gj, g.iter().map(|&x| asg[x].unwrap()).collect())))
                    .count();
                if best.map(|(bg, _)| gain > bg).unwrap_or(true) {
                    best = Some((gain, v));
                }
            }
            asg[k] = Some(best.expect("covering_array: `valid` accepted a partial assignment that cannot be completed").1);
        }
        let t: Vec<usize> = asg.iter().map(|v| v.unwrap()).collect();
        for (gj, g) in groups.iter().enumerate() {
            uncovered.remove(&(gj, g.iter().map(|&x| t[x]).collect()));
        }
        tests.push(t);
    }
    tests
}
