//! Reference model of one publish-subscribe service: who is entitled to receive what.
//!
//! Samples are identified by a sequence number that is unique per execution; the payload is a
//! function of (sequence number, publisher instance). Per (publisher instance, subscriber
//! instance) there is one `Conn` holding the FIFO of sequence numbers the subscriber may still
//! receive from that publisher.

use std::collections::{BTreeMap, VecDeque};

use crate::cfg::{Cfg, Payload, Strategy};

pub type Seq = u32;

const MAGIC: u64 = 0xC0DE_0000_0000_0000;

pub fn payload_of(cfg: &Cfg, seq: Seq, pub_inst: u32) -> (Vec<u64>, u64) {
    let len = match cfg.payload {
        Payload::U64 | Payload::Wide => 1,
        Payload::Slice => 1 + (seq as usize % crate::real::MAX_SLICE_LEN),
    };
    let w: Vec<u64> = (0..len as u64).map(|e| MAGIC | ((seq as u64) << 16) | ((pub_inst as u64 & 0xff) << 8) | e).collect();
    let uh = !w[0];
    (w, uh)
}

/// (sequence number, publisher instance) of a first payload word, if it is one of ours
pub fn decode_word0(w: u64) -> Option<(Seq, u32)> {
    if w & 0xFFFF_0000_0000_0000 != MAGIC || w & 0xff != 0 {
        return None;
    }
    Some((((w >> 16) & 0xFFFF_FFFF) as Seq, ((w >> 8) & 0xff) as u32))
}

#[derive(Clone, Debug)]
pub struct SeqInfo {
    pub pub_inst: u32,
    pub words: Vec<u64>,
    pub uh: u64,
    /// payload address on the publisher side, where the API showed it
    pub addr: Option<usize>,
}

#[derive(Clone, Debug)]
pub struct PubM {
    pub inst: u32,
    pub id: u128,
    pub loans: Vec<Seq>,
    pub history: VecDeque<Seq>,
}

#[derive(Clone, Debug, PartialEq, Eq)]
pub struct HeldM {
    pub pub_inst: u32,
    pub sub_inst: u32,
    pub seq: Seq,
}

#[derive(Clone, Debug)]
pub struct SubM {
    pub inst: u32,
    pub id: u128,
    pub buf: usize,
    pub hreq: usize,
    pub held: Vec<HeldM>,
}

#[derive(Clone, Debug)]
pub struct Conn {
    pub pub_inst: u32,
    pub sub_inst: u32,
    /// the publisher has established its side (history delivered, sends are enqueued)
    pub pub_side: bool,
    /// the subscriber has established its side (it can dequeue)
    pub sub_side: bool,
    pub pub_alive: bool,
    pub sub_alive: bool,
    pub fifo: VecDeque<Seq>,
    /// already handed out by receive
    pub received: Vec<Seq>,
    /// evicted by safe overflow (documented loss)
    pub evicted: Vec<Seq>,
    /// samples of this pair currently held (incl. orphans)
    pub borrowed: usize,
    pub buf: usize,
    #[allow(dead_code)]
    pub hreq: usize,
}

#[derive(Clone, Debug, Default)]
pub struct Model {
    pub next_seq: Seq,
    pub next_inst: u32,
    pub creates_pub: usize,
    pub creates_sub: usize,
    pub sends: usize,
    pub pubs: Vec<Option<PubM>>,
    pub subs: Vec<Option<SubM>>,
    pub conns: Vec<Conn>,
    pub orphans: Vec<HeldM>,
    pub zombies: Vec<Seq>,
    pub seqs: BTreeMap<Seq, SeqInfo>,
    /// publisher id -> instance (alive and dead ones)
    pub pub_ids: BTreeMap<u128, u32>,
    pub sub_ids: BTreeMap<u128, u32>,
}

/// what the model expects of one send call
#[derive(Clone, Debug, Default)]
pub struct SendExpect {
    pub recipients: usize,
    pub unable_to_deliver: bool,
    /// (receiver port id, retries) of every expected backpressure handler call
    pub handler_calls: Vec<(u128, u64)>,
}

/// what the model expects of one receive call
#[derive(Clone, Debug, PartialEq, Eq)]
pub enum RecvExpect {
    /// one of these connections (indices into `conns`) delivers its head
    Some(Vec<usize>),
    ExceedsMaxBorrows,
    None,
}

impl Model {
    pub fn new(cfg: &Cfg) -> Model {
        Model { pubs: vec![None; cfg.maxp + 1], subs: vec![None; cfg.maxs + 1], ..Default::default() }
    }

    pub fn alive_pubs(&self) -> Vec<usize> {
        (0..self.pubs.len()).filter(|&i| self.pubs[i].is_some()).collect()
    }
    pub fn alive_subs(&self) -> Vec<usize> {
        (0..self.subs.len()).filter(|&j| self.subs[j].is_some()).collect()
    }
    pub fn p(&self, i: usize) -> &PubM {
        self.pubs[i].as_ref().expect("model: publisher slot empty")
    }
    pub fn s(&self, j: usize) -> &SubM {
        self.subs[j].as_ref().expect("model: subscriber slot empty")
    }

    pub fn conn_idx(&self, pub_inst: u32, sub_inst: u32) -> Option<usize> {
        self.conns.iter().position(|c| c.pub_inst == pub_inst && c.sub_inst == sub_inst)
    }

    fn conn_get_or_create(&mut self, pub_inst: u32, sub_inst: u32, buf: usize, hreq: usize) -> usize {
        if let Some(k) = self.conn_idx(pub_inst, sub_inst) {
            return k;
        }
        self.conns.push(Conn {
            pub_inst,
            sub_inst,
            pub_side: false,
            sub_side: false,
            pub_alive: true,
            sub_alive: true,
            fifo: VecDeque::new(),
            received: Vec::new(),
            evicted: Vec::new(),
            borrowed: 0,
            buf,
            hreq,
        });
        self.conns.len() - 1
    }

    pub fn new_seq(&mut self, cfg: &Cfg, pub_inst: u32, addr: Option<usize>) -> Seq {
        let seq = self.next_seq;
        self.next_seq += 1;
        let (words, uh) = payload_of(cfg, seq, pub_inst);
        self.seqs.insert(seq, SeqInfo { pub_inst, words, uh, addr });
        seq
    }

    /// enqueue with the documented full-buffer behaviour; true = delivered
    pub fn enqueue(c: &mut Conn, seq: Seq, overflow: bool) -> bool {
        if c.fifo.len() < c.buf {
            c.fifo.push_back(seq);
            true
        } else if overflow {
            if let Some(old) = c.fifo.pop_front() {
                c.evicted.push(old);
            }
            c.fifo.push_back(seq);
            true
        } else {
            false
        }
    }

    /// the publisher looks at the subscriber list (creation, send, update_connections)
    pub fn pub_update(&mut self, cfg: &Cfg, i: usize) {
        let (pinst, hist): (u32, Vec<Seq>) = {
            let p = self.p(i);
            (p.inst, p.history.iter().copied().collect())
        };
        for j in self.alive_subs() {
            let (sinst, buf, hreq) = {
                let s = self.s(j);
                (s.inst, s.buf, s.hreq)
            };
            let k = self.conn_get_or_create(pinst, sinst, buf, hreq);
            let c = &mut self.conns[k];
            if !c.pub_side {
                c.pub_side = true;
                // "the subscriber gets the last min(history request, buffer) samples of the history"
                let n = hreq.min(buf).min(hist.len());
                for &seq in &hist[hist.len() - n..] {
                    Self::enqueue(c, seq, cfg.overflow);
                }
            }
        }
        // connections to subscribers that are gone are removed by the publisher
        for c in self.conns.iter_mut().filter(|c| c.pub_inst == pinst && !c.sub_alive) {
            c.pub_side = false;
            c.fifo.clear();
        }
        self.gc_conns();
    }

    /// the subscriber looks at the publisher list (creation, receive, has_samples, update_connections)
    pub fn sub_update(&mut self, j: usize, keep_unconnected_of_dead_publishers: bool) {
        let (sinst, buf, hreq) = {
            let s = self.s(j);
            (s.inst, s.buf, s.hreq)
        };
        for i in self.alive_pubs() {
            let pinst = self.p(i).inst;
            let k = self.conn_get_or_create(pinst, sinst, buf, hreq);
            self.conns[k].sub_side = true;
        }
        if !keep_unconnected_of_dead_publishers {
            self.conns.retain(|c| !(c.sub_inst == sinst && !c.pub_alive && !c.sub_side));
        }
        self.gc_conns();
    }

    pub fn gc_conns(&mut self) {
        self.conns.retain(|c| {
            let dead_pub_done = !c.pub_alive && c.fifo.is_empty() && c.borrowed == 0;
            let dead_sub_done = !c.sub_alive && c.borrowed == 0 && !c.pub_side;
            let both_dead = !c.pub_alive && !c.sub_alive && c.borrowed == 0;
            !(dead_pub_done || dead_sub_done || both_dead)
        });
    }

    /// first half of a send: connections are updated, the sample enters the history
    pub fn begin_send(&mut self, cfg: &Cfg, i: usize, seq: Seq) {
        self.pub_update(cfg, i);
        self.sends += 1;
        if cfg.hist > 0 {
            let p = self.pubs[i].as_mut().unwrap();
            p.history.push_back(seq);
            if p.history.len() > cfg.hist {
                p.history.pop_front();
            }
        }
    }

    /// the publisher in slot i sends `seq`: update connections, history, deliver
    pub fn send(&mut self, cfg: &Cfg, i: usize, seq: Seq) -> SendExpect {
        self.begin_send(cfg, i, seq);
        let pinst = self.p(i).inst;
        let mut e = SendExpect::default();
        for j in self.alive_subs() {
            let (sinst, sid) = {
                let s = self.s(j);
                (s.inst, s.id)
            };
            let k = self.conn_idx(pinst, sinst).expect("model: connection missing after pub_update");
            let c = &mut self.conns[k];
            if Self::enqueue(c, seq, cfg.overflow) {
                e.recipients += 1;
                continue;
            }
            // buffer full, no overflow: the documented loss
            match cfg.strategy {
                Strategy::Discard => {}
                _ if !c.sub_side => {
                    // blocking send towards a receiver that has not connected yet gives up at once
                }
                Strategy::FollowDiscard => e.handler_calls.push((sid, 0)),
                Strategy::RetryThenDiscard => {
                    for r in 0..=2 {
                        e.handler_calls.push((sid, r));
                    }
                }
                Strategy::RetryThenFail => {
                    for r in 0..=1 {
                        e.handler_calls.push((sid, r));
                    }
                    e.unable_to_deliver = true;
                }
                Strategy::RetryConsume => unreachable!("RetryConsume sends are judged from the handler log"),
            }
        }
        e
    }

    /// connections of subscriber j that may deliver now; `entitled_lost` also counts connections of
    /// dead publishers the subscriber never opened
    pub fn recv_expect(&self, cfg: &Cfg, j: usize, entitled_lost: bool) -> RecvExpect {
        let sinst = self.s(j).inst;
        let mut with_data = 0;
        let mut cand = Vec::new();
        for (k, c) in self.conns.iter().enumerate() {
            if c.sub_inst != sinst || c.fifo.is_empty() {
                continue;
            }
            if !(c.sub_side || (entitled_lost && !c.pub_alive)) {
                continue;
            }
            with_data += 1;
            if c.borrowed < cfg.bor {
                cand.push(k);
            }
        }
        if !cand.is_empty() {
            RecvExpect::Some(cand)
        } else if with_data > 0 {
            RecvExpect::ExceedsMaxBorrows
        } else {
            RecvExpect::None
        }
    }

    pub fn has_samples(&self, j: usize, entitled_lost: bool) -> bool {
        let sinst = self.s(j).inst;
        self.conns.iter().any(|c| c.sub_inst == sinst && !c.fifo.is_empty() && (c.sub_side || (entitled_lost && !c.pub_alive)))
    }

    pub fn total_held(&self, j: usize) -> usize {
        self.s(j).held.len()
    }

    /// does an update_connections of publisher i change anything
    pub fn pub_update_matters(&self, i: usize) -> bool {
        let pinst = self.p(i).inst;
        self.alive_subs().iter().any(|&j| self.conn_idx(pinst, self.s(j).inst).map(|k| !self.conns[k].pub_side).unwrap_or(true))
            || self.conns.iter().any(|c| c.pub_inst == pinst && !c.sub_alive && c.pub_side)
    }

    pub fn sub_update_matters(&self, j: usize) -> bool {
        let sinst = self.s(j).inst;
        self.alive_pubs().iter().any(|&i| self.conn_idx(self.p(i).inst, sinst).map(|k| !self.conns[k].sub_side).unwrap_or(true))
    }

    /// does anything the property names still refer to the chunk of `seq`
    pub fn holders(&self, seq: Seq) -> Vec<&'static str> {
        let mut h = Vec::new();
        let Some(info) = self.seqs.get(&seq) else { return h };
        for p in self.pubs.iter().flatten() {
            if p.inst == info.pub_inst {
                if p.loans.contains(&seq) {
                    h.push("unsent loan");
                }
                if p.history.contains(&seq) {
                    h.push("history");
                }
            }
        }
        if self.zombies.contains(&seq) {
            h.push("unsent loan of a dropped publisher");
        }
        if self.conns.iter().any(|c| c.pub_inst == info.pub_inst && c.sub_alive && c.fifo.contains(&seq)) {
            h.push("undelivered buffer entry");
        }
        if self.subs.iter().flatten().any(|s| s.held.iter().any(|x| x.seq == seq)) {
            h.push("held sample");
        }
        if self.orphans.iter().any(|x| x.seq == seq) {
            h.push("sample outliving its subscriber");
        }
        h
    }

    pub fn gc_seqs(&mut self) {
        let dead: Vec<Seq> = self.seqs.keys().copied().filter(|&s| self.holders(s).is_empty() && !self.in_any_fifo(s)).collect();
        for s in dead {
            self.seqs.remove(&s);
        }
    }

    fn in_any_fifo(&self, seq: Seq) -> bool {
        self.conns.iter().any(|c| c.fifo.contains(&seq))
    }

    /// canonical form for state hashing: sequence numbers by rank, instances by rank
    pub fn canonical(&self) -> Vec<u64> {
        let mut live: Vec<Seq> = Vec::new();
        let mut note = |s: Seq| {
            if !live.contains(&s) {
                live.push(s)
            }
        };
        for p in self.pubs.iter().flatten() {
            p.loans.iter().for_each(|&s| note(s));
            p.history.iter().for_each(|&s| note(s));
        }
        for s in self.subs.iter().flatten() {
            s.held.iter().for_each(|h| note(h.seq));
        }
        self.orphans.iter().for_each(|h| note(h.seq));
        self.zombies.iter().for_each(|&s| note(s));
        for c in &self.conns {
            c.fifo.iter().for_each(|&s| note(s));
        }
        live.sort_unstable();
        let rank = |s: Seq| live.iter().position(|&x| x == s).unwrap() as u64;
        let mut insts: Vec<u32> = Vec::new();
        for p in self.pubs.iter().flatten() {
            insts.push(p.inst);
        }
        for s in self.subs.iter().flatten() {
            insts.push(s.inst);
            insts.extend(s.held.iter().map(|h| h.pub_inst));
        }
        for c in &self.conns {
            insts.push(c.pub_inst);
            insts.push(c.sub_inst);
        }
        for h in &self.orphans {
            insts.push(h.pub_inst);
        }
        insts.sort_unstable();
        insts.dedup();
        let irank = |i: u32| insts.iter().position(|&x| x == i).unwrap() as u64;
        let mut v: Vec<u64> = vec![self.creates_pub as u64, self.creates_sub as u64];
        for p in &self.pubs {
            match p {
                None => v.push(u64::MAX),
                Some(p) => {
                    v.push(1000 + irank(p.inst));
                    v.push(p.loans.len() as u64);
                    v.extend(p.loans.iter().map(|&s| rank(s)));
                    v.push(p.history.len() as u64);
                    v.extend(p.history.iter().map(|&s| rank(s)));
                }
            }
        }
        for s in &self.subs {
            match s {
                None => v.push(u64::MAX),
                Some(s) => {
                    v.push(2000 + irank(s.inst));
                    v.push(s.buf as u64 * 16 + s.hreq as u64);
                    v.push(s.held.len() as u64);
                    v.extend(s.held.iter().flat_map(|h| [irank(h.pub_inst), rank(h.seq)]));
                }
            }
        }
        let mut cs: Vec<Vec<u64>> = self
            .conns
            .iter()
            .map(|c| {
                let mut x = vec![
                    irank(c.pub_inst),
                    irank(c.sub_inst),
                    c.pub_side as u64 | (c.sub_side as u64) << 1 | (c.pub_alive as u64) << 2 | (c.sub_alive as u64) << 3,
                    c.borrowed as u64,
                    c.fifo.len() as u64,
                ];
                x.extend(c.fifo.iter().map(|&s| rank(s)));
                x
            })
            .collect();
        cs.sort();
        for c in cs {
            v.push(3000);
            v.extend(c);
        }
        v.push(4000);
        v.extend(self.orphans.iter().flat_map(|h| [irank(h.pub_inst), rank(h.seq)]));
        v.push(5000);
        v.extend(self.zombies.iter().map(|&s| rank(s)));
        v
    }
}
